/-
  C09 at full strength (part 1 of 2) — the overlay obeys the OPERATION CONTRACT (C01) relative to its
  n-layer union view. (Part 2: Props/C09Refine.lean — initial invariants, refinement of the
  reference backend over histories, non-vacuity.)

  SETTING (`OWN w (u :: is) (idu :: ids) (mu :: ms)`, Proofs/OverlayNLemmas.lean): n ≥ 1 pairwise
  distinct memory leaves whose ROOTS are the overlay's layers; `mu` = upper map, `ms` = lower maps.
  The operations run at the level of the trait `FileSystem`, through
  `Overlay.fs (layersN (u :: is) (idu :: ids))`: `ostep fs op` for `op : Mut` (C02.Mut:
  create_dir p | write p bs = create_file + write_all + drop | append p bs = append_file +
  write_all + drop | remove_file p | remove_dir p).

  THE VIEW (Proofs/OverlayContractLemmas.lean): `oview all : Str → Option Entry` = `viewN all` on
  every non-root string, the root entry of the upper map at "". Entries are compared by `vcore`
  (type, and the bytes of a file; = `core ∘ dirBlind`), because `ensure_has_parent` materialises
  lower directories in the upper layer with fresh timestamps. "Visible" paths (`Vis`): the root
  and EVERY absolute path string whose first component is not ".whiteout" (`NR`) — canonical or not.

  1. `VPre v op` (parent is a directory of the view and p absent | parent a directory and p not a
     directory | p a file | p a file | p a directory with no bare name present below it),
     `VNamed` / `VEffect v v' op` (new EMPTY directory | file with exactly bs | file with old ++ bs
     | absent | absent; and `VFrame`: every other visible path keeps its `vcore`),
     `VContract v op r v'` = (a) ok_iff, (b) effect, (c) unchanged (`VSame`: every visible path
     keeps its `vcore`) + missing (not-found) + occupied (file-exists / dir-exists), (d) no_panic.
  2. PROVED, for every n ≥ 1, per operation and bundled:
     `overlay_createDir_contractN`, `overlay_write_contractN`, `overlay_append_contractN`,
     `overlay_removeFile_contractN` (for a path that is not a DIRECTORY of the view: defect O3, see
     below), `overlay_removeDir_contractN`, `overlay_contractN` (any `op`):
       the call returns `(r, w')` with `OWN w' … (mu' :: ms')`, `ms' = ms` (for an append session
       with copy-up: `LowerSame ms ms'`, the copied entry of the serving layer got its access time
       stamped — literally what the code does), `OInv mu' ms'`, `ViewWF` again, and
       `VContract (oview (mu :: ms)) op r (oview (mu' :: ms'))`.
     `overlay_removeFile_no_panicN`: (d) also for `remove_file` on a directory.
     `ViewWF.step` / `ViewWF.same`: the view invariant is preserved by EVERY contract-respecting
     step (a statement about views only).
  HYPOTHESES: the setting; `OInv mu ms` (hidden state in order: `RootOk mu`; every layer map `WF`;
     no FILE at a bookkeeping-directory position "/.whiteout/<cs>" for cs without "_wo"
     components; no DIRECTORY at a marker position; nothing in the upper map at a marked path) and
     `ViewWF (oview (mu :: ms))` (root a directory; a present child has a directory parent) — both
     are INVARIANTS: they hold initially (C09Refine: `OInv.initial`, `ViewWF.initial`) and are
     re-established by every call, so NO per-call hypothesis about ancestors, `RootOk`, the
     bookkeeping area or `WF` remains: `AncDirsN`, `hwoarea`, `hwo`, `hroot`, `hup` of the existing
     theorems are all derived. Per call only the PATH DISCIPLINE `OpPath (ds ++ [n])` is assumed:
     components `GoodComp`, first component ≠ ".whiteout", and no component ending in the reserved
     suffix "_wo" (`NoWo`). The last clause is how the reserved-name clash is excluded here: the
     existing theorems exclude it state-by-state (`ds.head? ≠ some woSuffix`, `hwoarea`, `hwo`);
     a directory "/a_wo" really clashes with the marker of "/a" ("/.whiteout/a_wo"), so some
     exclusion is necessary; paths with "_wo" components may still EXIST in the layers and are
     covered by the frame.
  OPEN DEFECT O3 (kept): `remove_file` on a path that is a DIRECTORY of the view may succeed
     (negative theorem: `C10.remove_file_on_lower_dir_orphansN`); `overlay_removeFile_contractN`
     and `overlay_contractN` assume `O3Free` (the path is not a directory of the view).
  NOT PROVED here: the `VfsPath` layer on top (`get_parent` prelude, error-path relabelling);
     layers that are not roots of memory leaves; the timestamp setters; arbitrary write scripts
     (seek/flush) inside a session (Props/C04Overlay.lean has them for append); paths inside
     ".whiteout" are outside the frame by design.
-/
import VfsModel.Proofs.OverlayContractLemmas
set_option linter.unusedSimpArgs false
set_option linter.unusedVariables false
namespace Vfs.C09
open Vfs Vfs.Overlay Vfs.C02 Vfs.C01

/-! ### 1. the view-level contract -/

/-- the documented precondition of a call, read off the VIEW -/
def VPre (v : View) : Mut → Prop
  | .createDir p  => VIsDir v (parentInternal p) ∧ VAbsent v p
  | .write p _    => VIsDir v (parentInternal p) ∧ ¬ VIsDir v p
  | .append p _   => VIsFile v p
  | .removeFile p => VIsFile v p
  | .removeDir p  => VIsDir v p ∧ VNoChildren v p

/-- what a successful call makes of the entry it names -/
def VNamed (v v' : View) : Mut → Prop
  | .createDir p  => VIsDir v' p ∧ VNoChildren v' p
  | .write p bs   => VHasFile v' p bs
  | .append p bs  => ∃ old, VHasFile v p old ∧ VHasFile v' p (old ++ bs)
  | .removeFile p => VAbsent v' p
  | .removeDir p  => VAbsent v' p

/-- the effect of a successful call: the named path gets exactly the documented entry, every
other visible path (the root, every absolute path outside ".whiteout" — canonical or not) keeps
its type and bytes -/
def VEffect (v v' : View) (op : Mut) : Prop := VNamed v v' op ∧ VFrame v v' op.path

/-- the contract of one call with outcome `r`, from the view `v` to the view `v'` -/
structure VContract (v : View) (op : Mut) (r : Res Unit) (v' : View) : Prop where
  /-- (a) it succeeds exactly when the view meets the precondition -/
  ok_iff : r.isOk = true ↔ VPre v op
  /-- (b) a successful call changes exactly the entry it names -/
  effect : r.isOk = true → VEffect v v' op
  /-- (c) a failed call leaves the view of every path unchanged -/
  unchanged : r.isOk = false → VSame v v'
  /-- (c) a target missing from an existing directory is reported as not-found -/
  missing : needsTarget op = true → VIsDir v (parentInternal op.path) → VAbsent v op.path →
    r.kind? = some .fileNotFound
  /-- (c) create_dir on an occupied path reports the occupant -/
  occupied : ∀ q, op = .createDir q → VIsDir v (parentInternal q) →
    (VIsFile v q → r.kind? = some .fileExists) ∧ (VIsDir v q → r.kind? = some .dirExists)
  /-- (d) it never panics -/
  no_panic : r ≠ .panic

theorem not_file_and_dir {v : View} {p : Str} (hf : VIsFile v p) (hd : VIsDir v p) : False := by
  obtain ⟨e, he, h1⟩ := hf
  obtain ⟨e', he', h2⟩ := hd
  rw [he] at he'; injection he' with he'; subst he'; rw [h1] at h2; cases h2

theorem not_absent_of_file {v : View} {p : Str} (hf : VIsFile v p) : ¬ VAbsent v p := by
  obtain ⟨e, he, _⟩ := hf; intro h; rw [VAbsent, he] at h; cases h

theorem not_absent_of_dir {v : View} {p : Str} (hf : VIsDir v p) : ¬ VAbsent v p := by
  obtain ⟨e, he, _⟩ := hf; intro h; rw [VAbsent, he] at h; cases h

theorem VContract.of_ok {v v' : View} {op : Mut} (hpre : VPre v op) (heff : VEffect v v' op) :
    VContract v op (.ok ()) v' where
  ok_iff := ⟨fun _ => hpre, fun _ => rfl⟩
  effect := fun _ => heff
  unchanged := fun h => by cases h
  missing := by
    intro hn _ ha
    exfalso
    cases op with
    | createDir p => cases hn
    | write p bs => cases hn
    | append p bs => exact not_absent_of_file hpre ha
    | removeFile p => exact not_absent_of_file hpre ha
    | removeDir p => exact not_absent_of_dir hpre.1 ha
  occupied := by
    intro q hq _
    subst hq
    exact ⟨fun hf => absurd hpre.2 (not_absent_of_file hf),
      fun hd => absurd hpre.2 (not_absent_of_dir hd)⟩
  no_panic := by simp

theorem VContract.of_fail {v v' : View} {op : Mut} {k : ErrKind} {pth : Option Str}
    (hnpre : ¬ VPre v op) (hsame : VSame v v')
    (hmiss : needsTarget op = true → VIsDir v (parentInternal op.path) → VAbsent v op.path →
      k = .fileNotFound)
    (hocc : ∀ q, op = .createDir q → VIsDir v (parentInternal q) →
      (VIsFile v q → k = .fileExists) ∧ (VIsDir v q → k = .dirExists)) :
    VContract v op (.err k pth) v' where
  ok_iff := ⟨fun h => (by cases h), fun h => absurd h hnpre⟩
  effect := fun h => by cases h
  unchanged := fun _ => hsame
  missing := fun a b c => by rw [hmiss a b c]; rfl
  occupied := fun q hq hpar =>
    ⟨fun hf => by rw [(hocc q hq hpar).1 hf]; rfl, fun hd => by rw [(hocc q hq hpar).2 hd]; rfl⟩
  no_panic := by simp

theorem exact_frame {v v' : View} {p : Str} (h : ∀ q, Vis q → q ≠ p → v' q = v q) : VFrame v v' p :=
  fun q hq hne => by rw [h q hq hne]

/-! ### `ViewWF` is preserved by every contract-respecting step -/

theorem ViewWF.same {v v' : View} (hv : ViewWF v) (hs : VSame v v') : ViewWF v' := by
  refine ⟨(isDir_of_vcore (hs [] (Or.inl rfl))).2 hv.1, ?_⟩
  intro ds n hne hds hn hhead hpres
  have hq : Vis (renderC ds ++ '/' :: n) := Or.inr (NR_child hne (good_noSlash hds) hhead n)
  have ha : Vis (renderC ds) := Or.inr (NR_renderC hne (good_noSlash hds) hhead)
  have h1 : v (renderC ds ++ '/' :: n) ≠ none := fun h0 => hpres ((none_of_vcore (hs _ hq)).2 h0)
  exact (isDir_of_vcore (hs _ ha)).2 (hv.2 ds n hne hds hn hhead h1)

theorem ViewWF.step {v v' : View} (hv : ViewWF v) {ds : List Str} {n : Str}
    (hp : OpPath (ds ++ [n])) (op : Mut) (hop : op.path = renderC (ds ++ [n]))
    (hpre : VPre v op) (heff : VEffect v v' op) : ViewWF v' := by
  obtain ⟨hnamed, hframe⟩ := heff
  rw [hop] at hframe
  have hpne : ([] : Str) ≠ renderC (ds ++ [n]) := fun h => hp.nr.ne_nil h.symm
  refine ⟨(isDir_of_vcore (hframe [] (Or.inl rfl) hpne)).2 hv.1, ?_⟩
  intro cs m hne hcs hm hhead hpres
  have hcm : ∀ c ∈ cs ++ [m], '/' ∉ c := by
    intro c hc
    rcases List.mem_append.1 hc with hc | hc
    · exact (hcs c hc).noSlash
    · simp at hc; rw [hc]; exact hm
  have hq : Vis (renderC cs ++ '/' :: m) := Or.inr (NR_child hne (good_noSlash hcs) hhead m)
  have ha : Vis (renderC cs) := Or.inr (NR_renderC hne (good_noSlash hcs) hhead)
  by_cases hqp : renderC cs ++ '/' :: m = renderC (ds ++ [n])
  · -- the named path itself: its parent was a directory and is untouched
    have heq := C06.renderC_injective (cs ++ [m]) _ hcm (good_noSlash hp.good)
      (by rw [renderC_snoc]; exact hqp)
    have hcd : cs = ds := (List.append_inj' heq rfl).1
    subst hcd
    have hane : renderC cs ≠ renderC (cs ++ [n]) := OpPath.parent_ne
    have hpar : VIsDir v (renderC cs) := by
      cases op with
      | createDir p => simp only [Mut.path] at hop; subst hop; rw [← hp.parent]; exact hpre.1
      | write p bs => simp only [Mut.path] at hop; subst hop; rw [← hp.parent]; exact hpre.1
      | append p bs =>
        simp only [Mut.path] at hop; subst hop
        exact hv.2 cs n hne hcs hp.hn.noSlash hhead
          (fun h0 => not_absent_of_file hpre (by rw [renderC_snoc]; exact h0))
      | removeFile p =>
        simp only [Mut.path] at hop; subst hop
        exact absurd (by rw [hqp]; exact hnamed) hpres
      | removeDir p =>
        simp only [Mut.path] at hop; subst hop
        exact absurd (by rw [hqp]; exact hnamed) hpres
    exact (isDir_of_vcore (hframe _ ha hane)).2 hpar
  · have h1 : v (renderC cs ++ '/' :: m) ≠ none :=
      fun h0 => hpres ((none_of_vcore (hframe _ hq hqp)).2 h0)
    have hdir := hv.2 cs m hne hcs hm hhead h1
    by_cases hap : renderC cs = renderC (ds ++ [n])
    · exfalso
      rw [hap] at hdir
      cases op with
      | createDir p => simp only [Mut.path] at hop; subst hop; exact not_absent_of_dir hdir hpre.2
      | write p bs => simp only [Mut.path] at hop; subst hop; exact hpre.2 hdir
      | append p bs => simp only [Mut.path] at hop; subst hop; exact not_file_and_dir hpre hdir
      | removeFile p => simp only [Mut.path] at hop; subst hop; exact not_file_and_dir hpre hdir
      | removeDir p =>
        simp only [Mut.path] at hop; subst hop
        have := hpre.2 m hm
        rw [← hap] at this
        exact h1 this
    · exact (isDir_of_vcore (hframe _ ha hap)).2 hdir

/-! ### 2. the overlay's operations, per operation -/

/-- one call of a mutator through a filesystem, at the level of the trait `FileSystem`; a write
session is `create_file`, `write_all`, drop; an append session is `append_file`, `write_all`,
drop -/
def ostep (fs : FS) : Mut → M Unit
  | .createDir p => fs.createDir p
  | .write p bs => do let hd ← fs.createFile p; hd.writeAllAndDrop bs
  | .append p bs => do let hd ← fs.appendFile p; hd.writeAllAndDrop bs
  | .removeFile p => fs.removeFile p
  | .removeDir p => fs.removeDir p

theorem memPublish_pointwise (m : FMap) (p : Str) (buf : Bytes) (e0 : Entry)
    (h0 : m.find? p = some e0) (hf : e0.ftype = .file) :
    ∃ e3, e3.ftype = .file ∧ e3.content = buf ∧
      ∀ k, (memPublish m p buf).find? k = if k = p then some e3 else m.find? k := by
  obtain ⟨e3, h1, h2, h3⟩ := find?_memPublish_self m p buf e0 h0 hf
  refine ⟨e3, h2, h3, fun k => ?_⟩
  split
  · rename_i hk; rw [hk]; exact h1
  · rename_i hk; exact find?_memPublish_ne m p k buf hk

section pureOps
variable {mu : FMap} {ms : List FMap} (inv : OInv mu ms) {ds : List Str} {n : Str}
  (hp : OpPath (ds ++ [n]))
include inv hp

/-- `clearWhiteout` after an entry was put at `p`: it succeeds; afterwards `p` holds the entry,
the marker of `p` is gone, nothing else changed -/
theorem pClear_insert (e : Entry) :
    ∃ mu2, pClear (mu.insert (renderC (ds ++ [n])) e) (renderC (ds ++ [n])) = (.ok (), mu2) ∧
      ∀ k, mu2.find? k = if k = renderC (ds ++ [n]) then some e
        else if k = marker (renderC (ds ++ [n])) then none else mu.find? k := by
  have hmne : marker (renderC (ds ++ [n])) ≠ renderC (ds ++ [n]) := C10.marker_ne_self ds n
  unfold pClear
  rcases Option.eq_none_or_eq_some (mu.find? (marker (renderC (ds ++ [n])))) with hf | ⟨em, hf⟩
  · have hc : (mu.insert (renderC (ds ++ [n])) e).contains (marker (renderC (ds ++ [n]))) = false := by
      unfold FMap.contains; rw [FMap.find?_insert_ne _ _ _ _ hmne, hf]; rfl
    rw [hc]
    refine ⟨_, rfl, fun k => ?_⟩
    rw [FMap.find?_insert]
    split
    · rfl
    · split
      · rename_i hk; rw [hk]; exact hf
      · rfl
  · have hf' : (mu.insert (renderC (ds ++ [n])) e).find? (marker (renderC (ds ++ [n]))) = some em := by
      rw [FMap.find?_insert_ne _ _ _ _ hmne]; exact hf
    rw [if_pos (contains_of_find hf'),
      C10.pRemoveFile_file _ _ em hf' (inv.markFile _ em hp.nr hf)]
    refine ⟨_, rfl, fun k => ?_⟩
    rw [FMap.find?_erase, FMap.find?_insert]
    by_cases h1 : k = renderC (ds ++ [n])
    · rw [if_neg (by rw [h1]; exact hmne.symm), if_pos h1, if_pos h1]
    · rw [if_neg h1, if_neg h1]

/-- the upper map has nothing at a path that the view does not show -/
theorem upper_none_of_view_none (hv : viewN (mu :: ms) (renderC (ds ++ [n])) = none) :
    mu.find? (renderC (ds ++ [n])) = none := by
  by_cases hm : mu.contains (marker (renderC (ds ++ [n]))) = true
  · exact inv.ghost _ hp.nr hm
  · have hm' : mu.contains (marker (renderC (ds ++ [n]))) = false := by simpa using hm
    rw [viewN_unmarked hm'] at hv
    exact (firstN_none_iff _ _).1 hv mu (by simp)

/-- what the upper map holds at `p` is what the view shows at `p` -/
theorem upper_is_view {e : Entry} (he : mu.find? (renderC (ds ++ [n])) = some e) :
    viewN (mu :: ms) (renderC (ds ++ [n])) = some e := by
  have hm : mu.contains (marker (renderC (ds ++ [n]))) = false := by
    cases hc : mu.contains (marker (renderC (ds ++ [n])))
    · rfl
    · rw [inv.ghost _ hp.nr hc] at he; cases he
  exact viewN_upper hm he

end pureOps

section pureCreate
variable {mu : FMap} {ms : List FMap} (inv : OInv mu ms) (hv : ViewWF (oview (mu :: ms)))
  {ds : List Str} {n : Str} (hp : OpPath (ds ++ [n]))
include inv hv hp

/-- `create_dir` as a function of the maps obeys the contract and keeps the invariant -/
theorem pCreateDirN_contract :
    ∃ r mu', pCreateDirN mu ms (ds ++ [n]) = (r, mu') ∧ OInv mu' ms ∧
      VContract (oview (mu :: ms)) (.createDir (renderC (ds ++ [n]))) r (oview (mu' :: ms)) := by
  have hpar := hp.parent
  have hvis : Vis (renderC (ds ++ [n])) := Or.inr hp.nr
  by_cases hd : VIsDir (oview (mu :: ms)) (renderC ds)
  · obtain ⟨hE, inv1, hs1, hpok, hp1, hm1⟩ := ensure_ok inv hp hv hd
    have hov1 := oview_NR (all := fillDirs mu (chain [] ds) :: ms) hp.nr
    rcases Option.eq_none_or_eq_some (viewN (fillDirs mu (chain [] ds) :: ms) (renderC (ds ++ [n])))
      with hv1 | ⟨e1, hv1⟩
    · have hnone := upper_none_of_view_none inv1 hp hv1
      have hcreate := C10.pCreateDir_fresh _ _ hpok (slash_mem_renderC hp.ne) hnone
      obtain ⟨mu2, hclear, hmu2⟩ := pClear_insert inv1 hp dirEntryNow
      have hwf2 : WF mu2 := by
        have := wf_pClear ((inv1.wf (fillDirs mu (chain [] ds)) (by simp)).pCreateDir (renderC (ds ++ [n])))
          (renderC (ds ++ [n]))
        rw [hcreate, hclear] at this; exact this
      obtain ⟨inv2, hself, hfr⟩ := insert_spec inv1 hp dirEntryNow mu2 hmu2 hwf2
      refine ⟨.ok (), mu2, ?_, inv2, VContract.of_ok ⟨by rw [hpar]; exact hd, ?_⟩ ⟨?_, ?_⟩⟩
      · unfold pCreateDirN
        rw [List.dropLast_concat, hE]
        simp only [andThen, hv1, pCreateTail, hcreate, hclear]
      · exact (none_of_vcore (hs1 _ hvis)).1 (by rw [hov1]; exact hv1)
      · refine ⟨⟨dirEntryNow, hself, rfl⟩, ?_⟩
        -- the new directory is empty: nothing was visible below an absent path
        intro y hy
        have hq : Vis (renderC (ds ++ [n]) ++ '/' :: y) :=
          Or.inr (NR_child hp.ne (good_noSlash hp.good) hp.head y)
        have hqne : renderC (ds ++ [n]) ++ '/' :: y ≠ renderC (ds ++ [n]) := by
          intro h0; have := congrArg List.length h0; simp at this
        apply (none_of_vcore ((VFrame.trans_same hs1 (exact_frame hfr)) _ hq hqne)).2
        cases hc : oview (mu :: ms) (renderC (ds ++ [n]) ++ '/' :: y) with
        | none => rfl
        | some ce =>
          have hdir := hv.2 (ds ++ [n]) y hp.ne hp.good hy hp.head (by rw [hc]; simp)
          exact absurd ((none_of_vcore (hs1 _ hvis)).1 (by rw [hov1]; exact hv1))
            (not_absent_of_dir hdir)
      · exact VFrame.trans_same hs1 (exact_frame hfr)
    · refine ⟨.err (if e1.ftype = .file then .fileExists else .dirExists) none,
        fillDirs mu (chain [] ds), ?_, inv1, VContract.of_fail ?_ hs1 ?_ ?_⟩
      · unfold pCreateDirN
        rw [List.dropLast_concat, hE]
        simp only [andThen, hv1]
      · intro hpre
        have := (none_of_vcore (hs1 _ hvis)).2 hpre.2
        rw [hov1, hv1] at this; cases this
      · intro hn; cases hn
      · intro q hq _
        injection hq with hq; subst hq
        constructor
        · intro hf
          obtain ⟨e', he', hft⟩ := (isFile_of_vcore (hs1 _ hvis)).2 hf
          rw [hov1, hv1] at he'; injection he' with he'; subst he'
          rw [if_pos hft]
        · intro hdq
          obtain ⟨e', he', hft⟩ := (isDir_of_vcore (hs1 _ hvis)).2 hdq
          rw [hov1, hv1] at he'; injection he' with he'; subst he'
          rw [if_neg (by rw [hft]; simp)]
  · refine ⟨.err .other none, mu, ?_, inv, VContract.of_fail ?_ (VSame.refl _) ?_ ?_⟩
    · unfold pCreateDirN
      rw [List.dropLast_concat, ensure_fail hd]
      rfl
    · intro hpre; rw [VPre, hpar] at hpre; exact hd hpre.1
    · intro hn; cases hn
    · intro q hq hpq
      injection hq with hq; subst hq
      rw [hpar] at hpq; exact absurd hpq hd

/-- `create_file` as a function of the maps: the three cases -/
theorem pCreateFileN_cases :
    (¬ VIsDir (oview (mu :: ms)) (renderC ds) →
      pCreateFileN mu ms (ds ++ [n]) = (.err .other none, mu)) ∧
    (VIsDir (oview (mu :: ms)) (renderC ds) → VIsDir (oview (mu :: ms)) (renderC (ds ++ [n])) →
      pCreateFileN mu ms (ds ++ [n]) = (.err .other none, fillDirs mu (chain [] ds))) ∧
    (VIsDir (oview (mu :: ms)) (renderC ds) → ¬ VIsDir (oview (mu :: ms)) (renderC (ds ++ [n])) →
      ∃ mu2, pCreateFileN mu ms (ds ++ [n]) = (.ok (), mu2) ∧
        ∀ k, mu2.find? k = if k = renderC (ds ++ [n]) then some fileEntryNow
          else if k = marker (renderC (ds ++ [n])) then none
          else (fillDirs mu (chain [] ds)).find? k) := by
  have hvis : Vis (renderC (ds ++ [n])) := Or.inr hp.nr
  refine ⟨fun hd => ?_, fun hd hpd => ?_, fun hd hpd => ?_⟩
  · unfold pCreateFileN
    rw [List.dropLast_concat, ensure_fail hd]
    rfl
  · obtain ⟨hE, inv1, hs1, hpok, hp1, hm1⟩ := ensure_ok inv hp hv hd
    obtain ⟨e1, he1, hd1⟩ := (isDir_of_vcore (hs1 _ hvis)).2 hpd
    rw [oview_NR hp.nr] at he1
    unfold pCreateFileN pRefuseN
    rw [List.dropLast_concat, hE]
    simp only [andThen, he1, hd1, if_true]
  · obtain ⟨hE, inv1, hs1, hpok, hp1, hm1⟩ := ensure_ok inv hp hv hd
    have hnd1 : ¬ VIsDir (oview (fillDirs mu (chain [] ds) :: ms)) (renderC (ds ++ [n])) :=
      fun h1 => hpd ((isDir_of_vcore (hs1 _ hvis)).1 h1)
    have hrefuse : pRefuseN (fillDirs mu (chain [] ds) :: ms) (renderC (ds ++ [n])) = .ok () := by
      unfold pRefuseN
      cases hv1 : viewN (fillDirs mu (chain [] ds) :: ms) (renderC (ds ++ [n])) with
      | none => rfl
      | some e1 =>
        have : ¬ e1.ftype = .dir := fun hd1 => hnd1 ⟨e1, by rw [oview_NR hp.nr]; exact hv1, hd1⟩
        simp [this]
    have hopen : Mem.pOpenW (fillDirs mu (chain [] ds)) (renderC (ds ++ [n])) =
        (.ok (), (fillDirs mu (chain [] ds)).insert (renderC (ds ++ [n])) fileEntryNow) := by
      obtain ⟨pe, hpe, hpd'⟩ := Mem.parentOk_spec _ _ hpok
      unfold Mem.pOpenW Mem.createFile Mem.ensureHasParent
      rw [if_pos hpok]
      simp only [if_pos (slash_mem_renderC hp.ne), hpe, hpd', if_true]
      cases hf : (fillDirs mu (chain [] ds)).find? (renderC (ds ++ [n])) with
      | none => rfl
      | some e0 =>
        have : ¬ e0.ftype = .dir := fun hd0 =>
          hnd1 ⟨e0, by rw [oview_NR hp.nr]; exact upper_is_view inv1 hp hf, hd0⟩
        simp [this, Res.withPath]
    obtain ⟨mu2, hclear, hmu2⟩ := pClear_insert inv1 hp fileEntryNow
    refine ⟨mu2, ?_, hmu2⟩
    unfold pCreateFileN
    rw [List.dropLast_concat, hE]
    simp only [andThen, hrefuse, hopen, hclear]

end pureCreate

/-! ### `append_file` of the overlay, evaluated case by case (for a general canonical path) -/

section runAppend
variable {w : World} {u idu : Nat} {mu : FMap} {is ids : List Nat} {ms : List FMap}
  (h : OWN w (u :: is) (idu :: ids) (mu :: ms)) (cs : List Str) (hne : cs ≠ [])
  (hcs : ∀ c ∈ cs, GoodComp c)
include h hne hcs

theorem run_oappend_ensureFail (hup : mu.find? (renderC cs) = none) (k : ErrKind) (pth : Option Str)
    (mu1 : FMap) (hE : pEnsureN (mu :: ms) cs.dropLast = (.err k pth, mu1)) :
    Overlay.appendFile (layersN (u :: is) (idu :: ids)) (renderC cs) w =
      (.err k pth, w.setLeafFiles u mu1) := by
  unfold Overlay.appendFile copyUp
  simp [bind, M.bind, M.ret, writePath_layersN cs hne hcs, run_vexists h.hu, contains_of_none hup,
    run_ensureHasParentN h cs hne hcs, hE]

theorem run_oappend_notFound (hup : mu.find? (renderC cs) = none) (mu1 : FMap)
    (hE : pEnsureN (mu :: ms) cs.dropLast = (.ok (), mu1))
    (hr : readPath (layersN (u :: is) (idu :: ids)) (renderC cs) (w.setLeafFiles u mu1) =
      (.err .fileNotFound none, w.setLeafFiles u mu1)) :
    Overlay.appendFile (layersN (u :: is) (idu :: ids)) (renderC cs) w =
      (.err .fileNotFound none, w.setLeafFiles u mu1) := by
  unfold Overlay.appendFile copyUp
  simp [bind, M.bind, M.ret, writePath_layersN cs hne hcs, run_vexists h.hu, contains_of_none hup,
    run_ensureHasParentN h cs hne hcs, hE, hr]

theorem run_oappend_notFile (hup : mu.find? (renderC cs) = none) (mu1 : FMap)
    (hE : pEnsureN (mu :: ms) cs.dropLast = (.ok (), mu1)) (i id : Nat) (m : FMap) (e1 : Entry)
    (hr : readPath (layersN (u :: is) (idu :: ids)) (renderC cs) (w.setLeafFiles u mu1) =
      (.ok { fs := leafFS i, fsId := id, path := renderC cs }, w.setLeafFiles u mu1))
    (hl : MemLeafAt (w.setLeafFiles u mu1) i m) (he1 : m.find? (renderC cs) = some e1)
    (hfile : ¬ e1.ftype = .file) :
    Overlay.appendFile (layersN (u :: is) (idu :: ids)) (renderC cs) w =
      (.err .other none, w.setLeafFiles u mu1) := by
  unfold Overlay.appendFile copyUp
  simp [bind, M.bind, M.ret, writePath_layersN cs hne hcs, run_vexists h.hu, contains_of_none hup,
    run_ensureHasParentN h cs hne hcs, hE, hr, run_visFile hl, he1, hfile, M.failK, fail]

theorem run_oappend_upper (e0 : Entry) (hup : mu.find? (renderC cs) = some e0) :
    Overlay.appendFile (layersN (u :: is) (idu :: ids)) (renderC cs) w =
      (((Mem.appendFile mu (renderC cs)).map (fun b =>
          ({ leaf := u, key := renderC cs, kind := .memFile, buf := b, pos := b.length } : WHandle))).withPath
            (renderC cs), w) := by
  unfold Overlay.appendFile copyUp
  simp [bind, M.bind, M.ret, writePath_layersN cs hne hcs, run_vexists h.hu, contains_of_find hup,
    VPath.appendFile, M.withPath, run_appendFile h.hu, Pure.pure, M.pure]

end runAppend

section settingN
variable {w : World} {u idu : Nat} {mu : FMap} {is ids : List Nat} {ms : List FMap}
  (h : OWN w (u :: is) (idu :: ids) (mu :: ms)) (inv : OInv mu ms)
  (hv : ViewWF (oview (mu :: ms))) {ds : List Str} {n : Str} (hp : OpPath (ds ++ [n]))
include h inv hv hp

/-- **create_dir through the overlay obeys the contract relative to the view** -/
theorem overlay_createDir_contractN :
    ∃ r mu', ostep (Overlay.fs (layersN (u :: is) (idu :: ids))) (.createDir (renderC (ds ++ [n]))) w
        = (r, w.setLeafFiles u mu') ∧
      OWN (w.setLeafFiles u mu') (u :: is) (idu :: ids) (mu' :: ms) ∧ OInv mu' ms ∧
      VContract (oview (mu :: ms)) (.createDir (renderC (ds ++ [n]))) r (oview (mu' :: ms)) := by
  obtain ⟨r, mu', hpure, inv', hc⟩ := pCreateDirN_contract inv hv hp
  refine ⟨r, mu', ?_, h.setHead mu', inv', hc⟩
  show Overlay.createDir _ _ w = _
  rw [run_ocreateDirN h _ hp.ne hp.good, hpure]

/-- **a write session through the overlay obeys the contract relative to the view** -/
theorem overlay_write_contractN (bs : Bytes) :
    ∃ r mu', ostep (Overlay.fs (layersN (u :: is) (idu :: ids))) (.write (renderC (ds ++ [n])) bs) w
        = (r, w.setLeafFiles u mu') ∧
      OWN (w.setLeafFiles u mu') (u :: is) (idu :: ids) (mu' :: ms) ∧ OInv mu' ms ∧
      VContract (oview (mu :: ms)) (.write (renderC (ds ++ [n])) bs) r (oview (mu' :: ms)) := by
  have hpar := hp.parent
  have hvis : Vis (renderC (ds ++ [n])) := Or.inr hp.nr
  obtain ⟨hA, hB, hC⟩ := pCreateFileN_cases inv hv hp
  have hrun : ostep (Overlay.fs (layersN (u :: is) (idu :: ids))) (.write (renderC (ds ++ [n])) bs) w
      = (do let hd ← Overlay.createFile (layersN (u :: is) (idu :: ids)) (renderC (ds ++ [n]))
            hd.writeAllAndDrop bs : M Unit) w := rfl
  rw [hrun]
  simp only [bind, M.bind, run_ocreateFileN h _ hp.ne hp.good]
  by_cases hd : VIsDir (oview (mu :: ms)) (renderC ds)
  · obtain ⟨hE, inv1, hs1, hpok, hp1, hm1⟩ := ensure_ok inv hp hv hd
    by_cases hpd : VIsDir (oview (mu :: ms)) (renderC (ds ++ [n]))
    · rw [hB hd hpd]
      refine ⟨.err .other none, _, rfl, h.setHead _, inv1, VContract.of_fail ?_ hs1 ?_ ?_⟩
      · intro hpre; exact hpre.2 hpd
      · intro hn; cases hn
      · intro q hq; cases hq
    · obtain ⟨mu2, hpure, hmu2⟩ := hC hd hpd
      rw [hpure]
      have h2 := h.setHead mu2
      simp only [Res.map, run_writeAllAndDrop h2.hu, World.setLeafFiles_twice]
      have hself2 : mu2.find? (renderC (ds ++ [n])) = some fileEntryNow := by rw [hmu2, if_pos rfl]
      obtain ⟨e3, hf3, hc3, hpw⟩ := memPublish_pointwise mu2 (renderC (ds ++ [n]))
        (cursorWrite [] 0 bs) fileEntryNow hself2 rfl
      have hmu3 : ∀ k, (memPublish mu2 (renderC (ds ++ [n])) (cursorWrite [] 0 bs)).find? k =
          if k = renderC (ds ++ [n]) then some e3
          else if k = marker (renderC (ds ++ [n])) then none
          else (fillDirs mu (chain [] ds)).find? k := by
        intro k
        rw [hpw k]
        split
        · rfl
        · rename_i hk; rw [hmu2 k, if_neg hk]
      have hwf3 : WF (memPublish mu2 (renderC (ds ++ [n])) (cursorWrite [] 0 bs)) := by
        have := wf_pCreateFileN (ms := ms) (inv.wf mu (by simp)) (ds ++ [n])
        rw [hpure] at this
        exact this.memPublish_any _ _
      obtain ⟨inv3, hself, hfr⟩ := insert_spec inv1 hp e3 _ hmu3 hwf3
      refine ⟨.ok (), _, rfl, h.setHead _, inv3,
        VContract.of_ok ⟨by rw [hpar]; exact hd, hpd⟩ ⟨?_, ?_⟩⟩
      · exact ⟨e3, hself, hf3, by rw [hc3, cursorWrite_nil]⟩
      · exact VFrame.trans_same hs1 (exact_frame hfr)
  · rw [hA hd]
    refine ⟨.err .other none, _, rfl, h.setHead _, inv, VContract.of_fail ?_ (VSame.refl _) ?_ ?_⟩
    · intro hpre; rw [VPre, hpar] at hpre; exact hd hpre.1
    · intro hn; cases hn
    · intro q hq; cases hq

omit hv in
/-- **remove_file through the overlay obeys the contract relative to the view** — for a path
that is not a DIRECTORY of the view (the documented open defect O3: on a directory that only
lower layers hold, `remove_file` succeeds; `C10.remove_file_on_lower_dir_orphansN` is the
negative theorem, `overlay_removeFile_no_panicN` below covers panic-freedom in that case) -/
theorem overlay_removeFile_contractN
    (hnd : ¬ VIsDir (oview (mu :: ms)) (renderC (ds ++ [n]))) :
    ∃ r mu', ostep (Overlay.fs (layersN (u :: is) (idu :: ids))) (.removeFile (renderC (ds ++ [n]))) w
        = (r, w.setLeafFiles u mu') ∧
      OWN (w.setLeafFiles u mu') (u :: is) (idu :: ids) (mu' :: ms) ∧ OInv mu' ms ∧
      VContract (oview (mu :: ms)) (.removeFile (renderC (ds ++ [n]))) r (oview (mu' :: ms)) := by
  have hov := oview_NR (all := mu :: ms) hp.nr
  show ∃ r mu', Overlay.removeFile _ _ w = _ ∧ _
  rw [run_oremoveFileN h _ hp.ne hp.good]
  rcases Option.eq_none_or_eq_some (viewN (mu :: ms) (renderC (ds ++ [n]))) with hv0 | ⟨e, hv0⟩
  · have hpure : pRemoveFileN mu ms (ds ++ [n]) = (.err .fileNotFound none, mu) := by
      unfold pRemoveFileN; simp only [hv0]
    rw [hpure]
    refine ⟨.err .fileNotFound none, mu, rfl, h.setHead mu, inv,
      VContract.of_fail ?_ (VSame.refl _) (fun _ _ _ => rfl) ?_⟩
    · rintro ⟨e, he, _⟩; rw [hov, hv0] at he; cases he
    · intro q hq; cases hq
  · have hfile : e.ftype = .file := by
      cases hft : e.ftype with
      | file => rfl
      | dir => exact absurd ⟨e, by rw [hov]; exact hv0, hft⟩ hnd
    obtain ⟨mu', hpure, hmark, hself, hframe⟩ := C10.pRemoveFileN_result mu ms ds n hp.hds hp.hn
      inv.root (inv.hwoarea hp.hds hp.nwds) hp.head e hv0 hfile
    obtain ⟨hold, _, hnew, _⟩ := C10.onlyMarkerAdded_removeFile hp.good hpure
    rw [List.dropLast_concat] at hnew
    have hwf : WF mu' := by
      have := wf_pRemoveFileN (ms := ms) (inv.wf mu (by simp)) (ds ++ [n])
      rw [hpure] at this; exact this
    obtain ⟨inv', hgone, hfr⟩ := remove_spec inv hp mu' hmark hself hframe hold hnew hwf
    rw [hpure]
    exact ⟨.ok (), mu', rfl, h.setHead mu', inv',
      VContract.of_ok ⟨e, by rw [hov]; exact hv0, hfile⟩ ⟨hgone, exact_frame hfr⟩⟩

omit hv in
/-- **remove_dir through the overlay obeys the contract relative to the view** -/
theorem overlay_removeDir_contractN :
    ∃ r mu', ostep (Overlay.fs (layersN (u :: is) (idu :: ids))) (.removeDir (renderC (ds ++ [n]))) w
        = (r, w.setLeafFiles u mu') ∧
      OWN (w.setLeafFiles u mu') (u :: is) (idu :: ids) (mu' :: ms) ∧ OInv mu' ms ∧
      VContract (oview (mu :: ms)) (.removeDir (renderC (ds ++ [n]))) r (oview (mu' :: ms)) := by
  have hov := oview_NR (all := mu :: ms) hp.nr
  have hpne : renderC (ds ++ [n]) ≠ [] := renderC_ne_nil hp.ne
  show ∃ r mu', Overlay.removeDir _ _ w = _ ∧ _
  rw [run_oremoveDirN h _ hp.ne hp.good (inv.hwo hp.good hp.nowo)]
  rcases Option.eq_none_or_eq_some (viewN (mu :: ms) (renderC (ds ++ [n]))) with hv0 | ⟨e, hv0⟩
  · have hpure : pRemoveDirN mu ms (ds ++ [n]) = (.err .fileNotFound none, mu) := by
      unfold pRemoveDirN; simp only [hv0]
    rw [hpure]
    refine ⟨.err .fileNotFound none, mu, rfl, h.setHead mu, inv,
      VContract.of_fail ?_ (VSame.refl _) (fun _ _ _ => rfl) ?_⟩
    · rintro ⟨⟨e, he, _⟩, _⟩; rw [hov, hv0] at he; cases he
    · intro q hq; cases hq
  · have hpresent : ¬ VAbsent (oview (mu :: ms)) (renderC (ds ++ [n])) := by
      intro ha; rw [VAbsent, hov, hv0] at ha; cases ha
    cases hft : e.ftype with
    | file =>
      have hpure : pRemoveDirN mu ms (ds ++ [n]) = (.err .other none, mu) := by
        have hread : pReadDirN (mu :: ms) (renderC (ds ++ [n])) = .err .other none := by
          unfold pReadDirN dirEntryN
          rw [if_neg hpne, hv0]
          simp [hft]
        unfold pRemoveDirN
        simp only [hv0, hread]
      rw [hpure]
      refine ⟨.err .other none, mu, rfl, h.setHead mu, inv,
        VContract.of_fail ?_ (VSame.refl _) (fun _ _ ha => absurd ha hpresent) ?_⟩
      · rintro ⟨⟨e', he', hd'⟩, _⟩
        rw [hov, hv0] at he'; injection he' with he'; subst he'; rw [hft] at hd'; cases hd'
      · intro q hq; cases hq
    | dir =>
      have hmem := fun x => mem_pListingN mu ms (renderC (ds ++ [n])) x
        (fun m hm => (inv.wf m hm).childrenHaveDir _) ((inv.wf mu (by simp)).childrenHaveDir _)
      have hread : pReadDirN (mu :: ms) (renderC (ds ++ [n])) =
          .ok (pListingN (mu :: ms) (renderC (ds ++ [n]))) := by
        unfold pReadDirN dirEntryN
        rw [if_neg hpne, hv0]
        simp [hft]
      by_cases hl : pListingN (mu :: ms) (renderC (ds ++ [n])) = []
      · have hnoc : VNoChildren (oview (mu :: ms)) (renderC (ds ++ [n])) := by
          intro x hx
          rw [oview_ne (by simp)]
          cases hc : viewN (mu :: ms) (renderC (ds ++ [n]) ++ '/' :: x) with
          | none => rfl
          | some ce =>
            have : x ∈ pListingN (mu :: ms) (renderC (ds ++ [n])) :=
              (hmem x).2 ⟨hx, by rw [hc]; rfl, fun h0 => absurd h0 hpne⟩
            rw [hl] at this; cases this
        have hno : ∀ y, '/' ∉ y → mu.find? (renderC (ds ++ [n]) ++ '/' :: y) = none := by
          intro y hy
          have hnr := NR_child hp.ne (good_noSlash hp.good) hp.head y
          cases hf : mu.find? (renderC (ds ++ [n]) ++ '/' :: y) with
          | none => rfl
          | some ce =>
            exfalso
            have hm : mu.contains (marker (renderC (ds ++ [n]) ++ '/' :: y)) = false := by
              cases hc : mu.contains (marker (renderC (ds ++ [n]) ++ '/' :: y))
              · rfl
              · rw [inv.ghost _ hnr hc] at hf; cases hf
            have := hnoc y hy
            rw [oview_NR hnr, viewN_upper hm hf] at this
            cases this
        obtain ⟨mu', hpure, hmark, hself, hframe⟩ := C10.pRemoveDirN_result mu ms ds n hp.hds hp.hn
          inv.root (inv.hwoarea hp.hds hp.nwds) hp.head e hv0 hft hl hno
        obtain ⟨hold, _, hnew, _⟩ := C10.onlyMarkerAdded_removeDir hp.good hpure
        rw [List.dropLast_concat] at hnew
        have hwf : WF mu' := by
          have := wf_pRemoveDirN (ms := ms) (inv.wf mu (by simp)) (ds ++ [n]) hp.ne
          rw [hpure] at this; exact this
        obtain ⟨inv', hgone, hfr⟩ := remove_spec inv hp mu' hmark hself hframe hold hnew hwf
        rw [hpure]
        exact ⟨.ok (), mu', rfl, h.setHead mu', inv',
          VContract.of_ok ⟨⟨e, by rw [hov]; exact hv0, hft⟩, hnoc⟩ ⟨hgone, exact_frame hfr⟩⟩
      · have hpure : pRemoveDirN mu ms (ds ++ [n]) = (.err .other none, mu) := by
          unfold pRemoveDirN
          simp only [hv0, hread, ne_eq, hl, not_false_eq_true, if_true]
        rw [hpure]
        refine ⟨.err .other none, mu, rfl, h.setHead mu, inv,
          VContract.of_fail ?_ (VSame.refl _) (fun _ _ ha => absurd ha hpresent) ?_⟩
        · rintro ⟨_, hnoc⟩
          obtain ⟨x, hx⟩ := List.exists_mem_of_ne_nil _ hl
          obtain ⟨hxs, hsome, _⟩ := (hmem x).1 hx
          have := hnoc x hxs
          rw [oview_ne (by simp)] at this
          rw [this] at hsome; cases hsome
        · intro q hq; cases hq

/-- **an append session through the overlay obeys the contract relative to the view**: it
succeeds exactly on a file of the view — served by whichever layer — and continues that layer's
bytes (copy-up); the lower maps are unchanged up to the access stamp of the copied entry
(`LowerSame`) -/
theorem overlay_append_contractN (bs : Bytes) :
    ∃ r w' mu' ms',
      ostep (Overlay.fs (layersN (u :: is) (idu :: ids))) (.append (renderC (ds ++ [n])) bs) w
        = (r, w') ∧
      OWN w' (u :: is) (idu :: ids) (mu' :: ms') ∧ LowerSame ms ms' ∧ OInv mu' ms' ∧
      VContract (oview (mu :: ms)) (.append (renderC (ds ++ [n])) bs) r (oview (mu' :: ms')) := by
  have hov := oview_NR (all := mu :: ms) hp.nr
  have hvis : Vis (renderC (ds ++ [n])) := Or.inr hp.nr
  have hne := hp.ne
  have hcs := hp.good
  have hrun : ostep (Overlay.fs (layersN (u :: is) (idu :: ids))) (.append (renderC (ds ++ [n])) bs) w
      = (do let hd ← Overlay.appendFile (layersN (u :: is) (idu :: ids)) (renderC (ds ++ [n]))
            hd.writeAllAndDrop bs : M Unit) w := rfl
  rw [hrun]
  rcases Option.eq_none_or_eq_some (mu.find? (renderC (ds ++ [n]))) with hup | ⟨e0, hup⟩
  · -- nothing in the upper map: `ensure_has_parent`, then the copy-up
    have hq' : mu.contains (renderC (ds ++ [n])) = false := contains_of_none hup
    by_cases hd : VIsDir (oview (mu :: ms)) (renderC ds)
    · obtain ⟨hE, inv1, hs1, hpok, hp1, hm1⟩ := ensure_ok inv hp hv hd
      have hE' : pEnsureN (mu :: ms) (ds ++ [n]).dropLast = (.ok (), fillDirs mu (chain [] ds)) := by
        rw [List.dropLast_concat]; exact hE
      have hf1 : (fillDirs mu (chain [] ds)).find? (renderC (ds ++ [n])) = none := by rw [hp1]; exact hup
      have h1 := h.setHead (fillDirs mu (chain [] ds))
      have hov1 := oview_NR (all := fillDirs mu (chain [] ds) :: ms) hp.nr
      rcases readPath_casesN h1 (ds ++ [n]) hne hcs with
        ⟨hv1, hr⟩ | ⟨k, i, id, m, e1, hf, hi, hid, hl, he1, hmk1, hv1, hr⟩
      · have hX := run_oappend_notFound h (ds ++ [n]) hne hcs hup _ hE' hr
        simp only [bind, M.bind, hX]
        refine ⟨.err .fileNotFound none, _, _, ms, rfl, h1, LowerSame.refl ms, inv1,
          VContract.of_fail ?_ hs1 (fun _ _ _ => rfl) ?_⟩
        · intro hpre
          obtain ⟨e', he', _⟩ := (isFile_of_vcore (hs1 _ hvis)).2 hpre
          rw [hov1, hv1] at he'; cases he'
        · intro q hq; cases hq
      · by_cases hfile : e1.ftype = .file
        · -- the copy-up from the first layer that has the path
          obtain ⟨j, rfl⟩ : ∃ j, k = j + 1 := by
            cases k with
            | zero =>
              have hg := hf.get
              simp at hg; subst hg
              rw [hf1] at he1; cases he1
            | succ j => exact ⟨j, rfl⟩
          have hm : ms[j]? = some m := by simpa using hf.get
          have hbefore : ∀ j' mj, j' < j → ms[j']? = some mj → mj.find? (renderC (ds ++ [n])) = none :=
            fun j' mj hj' hget => hf.before (j' + 1) mj (by omega) (by simpa using hget)
          obtain ⟨w1, hX, hw1⟩ := C04.run_oappendFile_copyUpN h (ds ++ [n]) hne hcs _ hE' hup hmk1
            hf1 hpok j m hm hbefore e1 he1 hfile
          simp only [bind, M.bind, hX, run_writeAllAndDrop hw1.hu]
          -- the resulting upper map, pointwise
          have hopen : Mem.pOpenW (fillDirs mu (chain [] ds)) (renderC (ds ++ [n])) =
              (.ok (), (fillDirs mu (chain [] ds)).insert (renderC (ds ++ [n])) fileEntryNow) := by
            unfold Mem.pOpenW
            rw [if_pos hpok, Mem.createFile_fresh _ _ (slash_mem_renderC hne) hpok hf1]; rfl
          have hwfB : WF ((fillDirs mu (chain [] ds)).insert (renderC (ds ++ [n])) fileEntryNow) := by
            have := wf_pOpenW (inv1.wf (fillDirs mu (chain [] ds)) (by simp)) (renderC (ds ++ [n]))
            rw [hopen] at this; exact this
          obtain ⟨eC, hfC, hcC, hpwC⟩ := memPublish_pointwise
            ((fillDirs mu (chain [] ds)).insert (renderC (ds ++ [n])) fileEntryNow)
            (renderC (ds ++ [n])) e1.content fileEntryNow (FMap.find?_insert_self _ _ _) rfl
          obtain ⟨e3, hf3, hc3, hpw3⟩ := memPublish_pointwise
            (memPublish ((fillDirs mu (chain [] ds)).insert (renderC (ds ++ [n])) fileEntryNow)
              (renderC (ds ++ [n])) e1.content)
            (renderC (ds ++ [n])) (cursorWrite e1.content e1.content.length bs) eC
            (by rw [hpwC, if_pos rfl]) hfC
          have hmknone : (fillDirs mu (chain [] ds)).find? (marker (renderC (ds ++ [n]))) = none := by
            unfold FMap.contains at hmk1
            cases hx : (fillDirs mu (chain [] ds)).find? (marker (renderC (ds ++ [n]))) with
            | none => rfl
            | some x => rw [hx] at hmk1; cases hmk1
          have hmu3 : ∀ k, (memPublish (memPublish ((fillDirs mu (chain [] ds)).insert
                (renderC (ds ++ [n])) fileEntryNow) (renderC (ds ++ [n])) e1.content)
                (renderC (ds ++ [n])) (cursorWrite e1.content e1.content.length bs)).find? k =
              if k = renderC (ds ++ [n]) then some e3
              else if k = marker (renderC (ds ++ [n])) then none
              else (fillDirs mu (chain [] ds)).find? k := by
            intro k
            rw [hpw3 k]
            split
            · rfl
            · rename_i hk
              rw [hpwC k, if_neg hk, FMap.find?_insert_ne _ _ _ _ hk]
              split
              · rename_i hk2; rw [hk2]; exact hmknone
              · rfl
          obtain ⟨inv3, hself, hfr⟩ := insert_spec inv1 hp e3 _ hmu3
            ((hwfB.memPublish_any _ _).memPublish_any _ _)
          have hls : LowerSame ms (ms.set j (m.insert (renderC (ds ++ [n])) { e1 with accessed := .now })) :=
            LowerSame.set hm (C04.insert_touch_same m _ e1 he1)
          refine ⟨.ok (), _, _, _, rfl, hw1.setHead _, hls, inv3.lowerSame hls,
            VContract.of_ok ?_ ⟨⟨e1.content, ?_, ?_⟩, ?_⟩⟩
          · exact (isFile_of_vcore (hs1 _ hvis)).1 ⟨e1, by rw [hov1]; exact hv1, hfile⟩
          · exact (hasFile_of_vcore (hs1 _ hvis)).1 ⟨e1, by rw [hov1]; exact hv1, hfile, rfl⟩
          · refine ⟨e3, ?_, hf3, by rw [hc3, cursorWrite_end]⟩
            rw [oview_NR hp.nr]
            apply viewN_upper
            · unfold FMap.contains
              rw [hmu3, if_neg (C10.marker_ne_self ds n), if_pos rfl]; rfl
            · rw [hmu3, if_pos rfl]
          · exact VFrame.same_trans (VFrame.trans_same hs1 (exact_frame hfr))
              (oview_lowerSame _ hls)
        · have hX := run_oappend_notFile h (ds ++ [n]) hne hcs hup _ hE' i id m e1 hr hl he1 hfile
          simp only [bind, M.bind, hX]
          have hv1' : oview (fillDirs mu (chain [] ds) :: ms) (renderC (ds ++ [n])) = some e1 := by
            rw [hov1]; exact hv1
          refine ⟨.err .other none, _, _, ms, rfl, h1, LowerSame.refl ms, inv1,
            VContract.of_fail ?_ hs1 ?_ ?_⟩
          · intro hpre
            obtain ⟨e', he', hf'⟩ := (isFile_of_vcore (hs1 _ hvis)).2 hpre
            rw [hv1'] at he'; injection he' with he'; subst he'; exact hfile hf'
          · intro _ _ ha
            have := (none_of_vcore (hs1 _ hvis)).2 ha
            rw [hv1'] at this; cases this
          · intro q hq; cases hq
    · have hE' : pEnsureN (mu :: ms) (ds ++ [n]).dropLast = (.err .other none, mu) := by
        rw [List.dropLast_concat]; exact ensure_fail hd
      have hX := run_oappend_ensureFail h (ds ++ [n]) hne hcs hup _ _ _ hE'
      rw [h.hu.same] at hX
      simp only [bind, M.bind, hX]
      have hnofile : ¬ VIsFile (oview (mu :: ms)) (renderC (ds ++ [n])) := by
        intro hfl
        apply hd
        by_cases hds0 : ds = []
        · subst hds0; exact rootIsDir inv.root
        · exact hv.2 ds n hds0 hp.hds hp.hn.noSlash hp.dhead
            (fun h0 => not_absent_of_file hfl (by rw [renderC_snoc]; exact h0))
      refine ⟨.err .other none, w, mu, ms, rfl, h, LowerSame.refl ms, inv,
        VContract.of_fail hnofile (VSame.refl _) ?_ ?_⟩
      · intro _ hpar _
        rw [show parentInternal (Mut.append (renderC (ds ++ [n])) bs).path = renderC ds from hp.parent]
          at hpar
        exact absurd hpar hd
      · intro q hq; cases hq
  · -- the upper map has the path: the append session runs on the upper leaf
    have hview := upper_is_view inv hp hup
    have hmknone : mu.find? (marker (renderC (ds ++ [n]))) = none := by
      obtain ⟨hm, _⟩ := viewN_some_cases hview
      unfold FMap.contains at hm
      cases hx : mu.find? (marker (renderC (ds ++ [n]))) with
      | none => rfl
      | some x => rw [hx] at hm; cases hm
    by_cases hfile : e0.ftype = .file
    · have happ : Mem.appendFile mu (renderC (ds ++ [n])) = .ok e0.content := by
        unfold Mem.appendFile; rw [hup]; simp only [hfile, ne_eq, not_true_eq_false, if_false]
      have hX := run_oappend_upper h (ds ++ [n]) hne hcs e0 hup
      rw [happ] at hX
      simp only [Res.map, Res.withPath] at hX
      simp only [bind, M.bind, hX, run_writeAllAndDrop h.hu]
      obtain ⟨e3, hf3, hc3, hpw3⟩ := memPublish_pointwise mu (renderC (ds ++ [n]))
        (cursorWrite e0.content e0.content.length bs) e0 hup hfile
      have hmu3 : ∀ k, (memPublish mu (renderC (ds ++ [n]))
            (cursorWrite e0.content e0.content.length bs)).find? k =
          if k = renderC (ds ++ [n]) then some e3
          else if k = marker (renderC (ds ++ [n])) then none else mu.find? k := by
        intro k
        rw [hpw3 k]
        split
        · rfl
        · split
          · rename_i hk2; rw [hk2]; exact hmknone
          · rfl
      obtain ⟨inv3, hself, hfr⟩ := insert_spec inv hp e3 _ hmu3
        ((inv.wf mu (by simp)).memPublish_any _ _)
      refine ⟨.ok (), _, _, ms, rfl, h.setHead _, LowerSame.refl ms, inv3,
        VContract.of_ok ⟨e0, by rw [hov]; exact hview, hfile⟩
          ⟨⟨e0.content, ⟨e0, by rw [hov]; exact hview, hfile, rfl⟩,
            ⟨e3, hself, hf3, by rw [hc3, cursorWrite_end]⟩⟩, exact_frame hfr⟩⟩
    · have happ : Mem.appendFile mu (renderC (ds ++ [n])) = fail .other := by
        unfold Mem.appendFile; rw [hup]; simp only [hfile, ne_eq, not_false_eq_true, if_true]
      have hX := run_oappend_upper h (ds ++ [n]) hne hcs e0 hup
      rw [happ] at hX
      simp only [Res.map, Res.withPath, fail] at hX
      simp only [bind, M.bind, hX]
      have hv0 : oview (mu :: ms) (renderC (ds ++ [n])) = some e0 := by rw [hov]; exact hview
      refine ⟨.err .other (some (renderC (ds ++ [n]))), w, mu, ms, rfl, h, LowerSame.refl ms, inv,
        VContract.of_fail ?_ (VSame.refl _) ?_ ?_⟩
      · rintro ⟨e', he', hf'⟩
        rw [hv0] at he'; injection he' with he'; subst he'; exact hfile hf'
      · intro _ _ ha; rw [VAbsent] at ha; simp only [Mut.path] at ha; rw [hv0] at ha; cases ha
      · intro q hq; cases hq

end settingN

/-! ### `remove_file` never panics, whatever the type of the path (the case left out above) -/

theorem np_andThen {α β} {x : Res α × FMap} {f : α → FMap → Res β × FMap} (hx : x.1 ≠ .panic)
    (hf : ∀ a m, (f a m).1 ≠ .panic) : (andThen x f).1 ≠ .panic := by
  obtain ⟨r, m⟩ := x
  cases r with
  | ok a => exact hf a m
  | err e pth => simp [andThen]
  | panic => exact absurd rfl hx

theorem np_ensureHasParent (m : FMap) (p : Str) : Mem.ensureHasParent m p ≠ .panic := by
  unfold Mem.ensureHasParent
  split
  · split
    · split <;> simp [fail]
    · simp [fail]
  · simp [fail]

theorem np_createDir (m : FMap) (d : Str) : (Mem.createDir m d).1 ≠ .panic := by
  unfold Mem.createDir
  have := np_ensureHasParent m d
  cases hen : Mem.ensureHasParent m d with
  | ok u =>
    dsimp only
    split
    · split <;> simp [fail]
    · simp
  | err k pth => simp
  | panic => exact absurd hen this

theorem np_mkdirs (m : FMap) (l : List Str) : (Mem.mkdirs m l).1 ≠ .panic := by
  induction l generalizing m with
  | nil => simp [Mem.mkdirs]
  | cons d rest ih =>
    unfold Mem.mkdirs
    have := np_createDir m d
    cases hc : Mem.createDir m d with
    | mk r m' =>
      rw [hc] at this
      cases r with
      | ok a => exact ih m'
      | err e pth => cases e <;> first | exact ih m' | simp
      | panic => exact absurd rfl this

theorem np_createFile (m : FMap) (p : Str) : (Mem.createFile m p).1 ≠ .panic := by
  unfold Mem.createFile
  have := np_ensureHasParent m p
  cases hen : Mem.ensureHasParent m p with
  | ok u =>
    dsimp only
    split
    · split <;> simp [fail]
    · simp
  | err k pth => simp
  | panic => exact absurd hen this

theorem np_pTouch (m : FMap) (k : Str) : (Mem.pTouch m k).1 ≠ .panic := by
  unfold Mem.pTouch
  split
  · have := np_createFile m k
    cases hc : Mem.createFile m k with
    | mk r m' =>
      rw [hc] at this
      cases r with
      | ok a => simp
      | err e pth => simp [Res.withPath]
      | panic => exact absurd rfl this
  · simp

theorem np_pRemoveFile (m : FMap) (p : Str) : (Mem.pRemoveFile m p).1 ≠ .panic := by
  unfold Mem.pRemoveFile Mem.removeFile
  split
  · simp [fail, Res.withPath]
  · split <;> simp [fail, Res.withPath]

theorem np_pAddWhiteout (m : FMap) (cs : List Str) : (pAddWhiteout m cs).1 ≠ .panic := by
  unfold pAddWhiteout
  exact np_andThen (np_mkdirs _ _) (fun _ m1 => np_pTouch m1 _)

theorem np_pRemoveFileN (mu : FMap) (ms : List FMap) (cs : List Str) :
    (pRemoveFileN mu ms cs).1 ≠ .panic := by
  unfold pRemoveFileN
  split
  · simp
  · apply np_andThen
    · split
      · exact np_pRemoveFile _ _
      · simp
    · intro _ m1; exact np_pAddWhiteout m1 cs

/-- (d) for `remove_file` on ANY canonical path, directories of the view included (defect O3):
no panic, only the upper leaf changes -/
theorem overlay_removeFile_no_panicN {w : World} {u idu : Nat} {mu : FMap} {is ids : List Nat}
    {ms : List FMap} (h : OWN w (u :: is) (idu :: ids) (mu :: ms)) (cs : List Str) (hne : cs ≠ [])
    (hcs : ∀ c ∈ cs, GoodComp c) :
    ∃ r mu', ostep (Overlay.fs (layersN (u :: is) (idu :: ids))) (.removeFile (renderC cs)) w
        = (r, w.setLeafFiles u mu') ∧
      OWN (w.setLeafFiles u mu') (u :: is) (idu :: ids) (mu' :: ms) ∧ r ≠ .panic := by
  refine ⟨(pRemoveFileN mu ms cs).1, (pRemoveFileN mu ms cs).2, ?_, h.setHead _,
    np_pRemoveFileN mu ms cs⟩
  show Overlay.removeFile _ _ w = _
  rw [run_oremoveFileN h cs hne hcs]

/-! ### 2'. the bundle -/

/-- the discipline for the path of an operation: canonical, non-root, outside ".whiteout", no
component ending in the reserved suffix "_wo" -/
def OpOK (op : Mut) : Prop := ∃ ds n, OpPath (ds ++ [n]) ∧ op.path = renderC (ds ++ [n])

/-- the type discipline of the open defect O3: `remove_file` is not applied to a directory -/
def O3Free (v : View) (op : Mut) : Prop := ∀ p, op = .removeFile p → ¬ VIsDir v p

theorem viewWF_of_contract {v v' : View} {op : Mut} {r : Res Unit} (hv : ViewWF v) (hop : OpOK op)
    (hc : VContract v op r v') : ViewWF v' := by
  obtain ⟨ds, n, hp, hpath⟩ := hop
  cases hr : r.isOk with
  | true => exact hv.step hp op hpath (hc.ok_iff.1 hr) (hc.effect hr)
  | false => exact hv.same (hc.unchanged hr)

section bundle
variable {w : World} {u idu : Nat} {mu : FMap} {is ids : List Nat} {ms : List FMap}
  (h : OWN w (u :: is) (idu :: ids) (mu :: ms)) (inv : OInv mu ms)
  (hv : ViewWF (oview (mu :: ms)))
include h inv hv

/-- **overlay_contractN.** In the n-layer setting, with the hidden state in order (`OInv`) and a
well-formed view (`ViewWF`), EVERY mutator on a disciplined path (`OpOK`; `remove_file` not on a
directory of the view: `O3Free`) through the overlay
* leaves a world that is again in the setting, with the lower maps unchanged (for an append
  session: unchanged up to the access stamp of the entry that was copied up),
* with the hidden state in order and the view well-formed again,
* and obeys the operation contract `VContract` relative to the n-layer view: (a) success iff the
  view meets the precondition, (b) the documented effect on the view, (c) a failed call leaves
  the view unchanged and reports not-found / file-exists / dir-exists as documented, (d) no
  panic. -/
theorem overlay_contractN (op : Mut) (hop : OpOK op) (hdisc : O3Free (oview (mu :: ms)) op) :
    ∃ r w' mu' ms',
      ostep (Overlay.fs (layersN (u :: is) (idu :: ids))) op w = (r, w') ∧
      OWN w' (u :: is) (idu :: ids) (mu' :: ms') ∧ LowerSame ms ms' ∧
      ((∀ p bs, op ≠ .append p bs) → ms' = ms) ∧
      OInv mu' ms' ∧ ViewWF (oview (mu' :: ms')) ∧
      VContract (oview (mu :: ms)) op r (oview (mu' :: ms')) := by
  obtain ⟨ds, n, hp, hpath⟩ := hop
  have hopok : OpOK op := ⟨ds, n, hp, hpath⟩
  cases op with
  | createDir p =>
    simp only [Mut.path] at hpath; subst hpath
    obtain ⟨r, mu', hrun, hown, inv', hc⟩ := overlay_createDir_contractN h inv hv hp
    exact ⟨r, _, mu', ms, hrun, hown, LowerSame.refl ms, fun _ => rfl, inv',
      viewWF_of_contract hv hopok hc, hc⟩
  | write p bs =>
    simp only [Mut.path] at hpath; subst hpath
    obtain ⟨r, mu', hrun, hown, inv', hc⟩ := overlay_write_contractN h inv hv hp bs
    exact ⟨r, _, mu', ms, hrun, hown, LowerSame.refl ms, fun _ => rfl, inv',
      viewWF_of_contract hv hopok hc, hc⟩
  | append p bs =>
    simp only [Mut.path] at hpath; subst hpath
    obtain ⟨r, w', mu', ms', hrun, hown, hls, inv', hc⟩ := overlay_append_contractN h inv hv hp bs
    exact ⟨r, w', mu', ms', hrun, hown, hls, fun hna => absurd rfl (hna _ _), inv',
      viewWF_of_contract hv hopok hc, hc⟩
  | removeFile p =>
    simp only [Mut.path] at hpath; subst hpath
    obtain ⟨r, mu', hrun, hown, inv', hc⟩ := overlay_removeFile_contractN h inv hp (hdisc _ rfl)
    exact ⟨r, _, mu', ms, hrun, hown, LowerSame.refl ms, fun _ => rfl, inv',
      viewWF_of_contract hv hopok hc, hc⟩
  | removeDir p =>
    simp only [Mut.path] at hpath; subst hpath
    obtain ⟨r, mu', hrun, hown, inv', hc⟩ := overlay_removeDir_contractN h inv hp
    exact ⟨r, _, mu', ms, hrun, hown, LowerSame.refl ms, fun _ => rfl, inv',
      viewWF_of_contract hv hopok hc, hc⟩

end bundle

end Vfs.C09
