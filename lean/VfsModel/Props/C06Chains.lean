/-
  C06, second half — parent / filename / extension / root / is_root / equality are consistent
  with the canonical form, for all chains of join / parent / root.

  PROVED (arbitrary strings and chains, no length bound):
   * filename_join_name, filename_last_component, filename_root
   * join_parent_filename (round trip), parent_renderC
   * is_root_iff, root_is_root, parent_root_is_root, parent_iter (general),
     parent_iter_reaches_root, parent_iter_not_root_before
   * Step / runChain (on the path value `PathVal` = filesystem identity + string, the data that
     `VfsPath::eq` looks at), an independent lexical specification `specChain` on component lists
     (character-level scanner, push / pop / clear), chain_resolves, chain_canonical
   * extension_of_filename (+ the exhaustive trichotomy of file names, ext_cases)
   * eq_chain (results equal iff resolved component lists equal, errors included), eq_chain_ok,
     eq_chain_fs (different filesystem instance => never equal)
   * vpath_chain: the same chain run on the model's `VPath` (PathOps.lean join/parent/root)
     projects to `runChain` and never changes `fs` / `fsId`.
  HYPOTHESES: the start path is canonical (`Canon`, i.e. `renderC cs` with good components);
   where only slash-freeness is needed, only that is assumed.
  NOT PROVED / modelling remarks: `is_root`, `filename`, `extension` have no counterpart on
   `VPath` in the model files (the Rust ones are `path.is_empty()`, `filename_internal`,
   `extension_internal` on the string), so they are defined here on `PathVal` as exactly those
   one-liners; the `Arc` pointer equality of `VfsPath::eq` is the `fsId` field.
-/
import VfsModel.Props.C06
import VfsModel.PathOps
namespace Vfs.C06

/-! ## the path API on path values -/
namespace PathVal
def join (p : PathVal) (arg : Str) : Res PathVal := (joinInternal p.path arg).map (fun s => ⟨p.fsId, s⟩)
def parent (p : PathVal) : PathVal := ⟨p.fsId, parentInternal p.path⟩
def root (p : PathVal) : PathVal := ⟨p.fsId, []⟩
/-- `is_root`: `self.path.is_empty()` -/
def isRoot (p : PathVal) : Bool := p.path.isEmpty
def filename (p : PathVal) : Str := filenameInternal p.path
def extension (p : PathVal) : Option Str := extensionInternal p.path
end PathVal

theorem good_noslash {cs : List Str} (h : ∀ c ∈ cs, GoodComp c) : ∀ c ∈ cs, '/' ∉ c :=
  fun c hc => (h c hc).2.1

/-! ## 1. filename -/

theorem filename_root : filenameInternal [] = [] := rfl

/-- filename of a rendered non-empty component list is its last component -/
theorem filename_last_component (cs : List Str) (h : ∀ c ∈ cs, '/' ∉ c) (hne : cs ≠ []) :
    filenameInternal (renderC cs) = cs.getLast hne := by
  rcases List.eq_nil_or_concat cs with rfl | ⟨l, c, rfl⟩
  · exact absurd rfl hne
  · simp only [List.concat_eq_append] at h ⊢
    rw [filenameInternal_renderC_snoc l c (h c (by simp))]
    simp

/-- joining a good name always succeeds and the filename of the result is that name -/
theorem filename_join_name (p n : Str) (hp : Canon p) (hn : GoodComp n) :
    ∃ r, joinInternal p n = .ok r ∧ filenameInternal r = n ∧ parentInternal r = p := by
  obtain ⟨bs, hgood, rfl⟩ := hp
  have h := join_name bs n (good_noslash hgood) hn
  obtain ⟨h1, h2⟩ := parent_join_name _ n _ ⟨bs, hgood, rfl⟩ hn h
  exact ⟨_, h, h2, h1⟩

/-! ## 2. parent / round trip -/

theorem parent_renderC (cs : List Str) (h : ∀ c ∈ cs, '/' ∉ c) :
    parentInternal (renderC cs) = renderC cs.dropLast := parentInternal_renderC cs h

theorem renderC_eq_nil (cs : List Str) : renderC cs = [] ↔ cs = [] := by
  cases cs <;> simp

/-- every canonical non-root path is the join of its parent and its filename -/
theorem join_parent_filename (p : Str) (hp : Canon p) (hne : p ≠ []) :
    joinInternal (parentInternal p) (filenameInternal p) = .ok p := by
  obtain ⟨cs, hgood, rfl⟩ := hp
  rcases List.eq_nil_or_concat cs with rfl | ⟨l, c, rfl⟩
  · exact absurd rfl hne
  · simp only [List.concat_eq_append] at hgood ⊢
    have hns := good_noslash hgood
    rw [parentInternal_renderC _ hns, filenameInternal_renderC_snoc l c (hns c (by simp))]
    simp only [List.dropLast_concat]
    exact join_name l c (fun x hx => hns x (by simp [hx])) (hgood c (by simp))

/-! ## 3. is_root, iterated parent -/

theorem is_root_iff (p : PathVal) : p.isRoot = true ↔ p.path = [] := by
  simp [PathVal.isRoot]

/-- in terms of components: root iff no components -/
theorem is_root_iff_comps (i : Nat) (cs : List Str) :
    (PathVal.mk i (renderC cs)).isRoot = true ↔ cs = [] := by
  rw [is_root_iff]; exact renderC_eq_nil cs

theorem root_is_root (p : PathVal) : p.root.isRoot = true := rfl

theorem root_same_fs (p : PathVal) : p.root.fsId = p.fsId := rfl

theorem parent_root_is_root (p : PathVal) (h : p.isRoot = true) : p.parent = p := by
  cases p with
  | mk i s => rw [is_root_iff] at h; simp at h; subst h; rfl

/-- `parent` applied k times -/
def parentN : Nat → PathVal → PathVal
  | 0, p => p
  | k + 1, p => parentN k p.parent

theorem parent_iter (i : Nat) (cs : List Str) (h : ∀ c ∈ cs, '/' ∉ c) (k : Nat) :
    parentN k ⟨i, renderC cs⟩ = ⟨i, renderC (cs.take (cs.length - k))⟩ := by
  induction k generalizing cs with
  | zero => simp [parentN]
  | succ k ih =>
    simp only [parentN, PathVal.parent]
    rw [parentInternal_renderC cs h, ih _ (fun c hc => h c (List.dropLast_subset _ hc))]
    congr 2
    rw [List.dropLast_eq_take, List.take_take, List.length_take]
    congr 1
    omega

/-- exactly `cs.length` applications of parent reach the root … -/
theorem parent_iter_reaches_root (i : Nat) (cs : List Str) (h : ∀ c ∈ cs, '/' ∉ c) :
    parentN cs.length ⟨i, renderC cs⟩ = ⟨i, []⟩ := by
  rw [parent_iter i cs h]; simp

/-- … and no fewer do -/
theorem parent_iter_not_root_before (i : Nat) (cs : List Str) (h : ∀ c ∈ cs, '/' ∉ c)
    (k : Nat) (hk : k < cs.length) : (parentN k ⟨i, renderC cs⟩).isRoot = false := by
  rw [parent_iter i cs h]
  cases hb : (PathVal.mk i (renderC (cs.take (cs.length - k)))).isRoot with
  | false => rfl
  | true =>
    rw [is_root_iff_comps] at hb
    have := congrArg List.length hb
    simp at this
    omega

/-! ## 4. chains -/

inductive Step where
  | join (arg : Str)
  | parent
  | root
  deriving DecidableEq, Repr

def step (p : PathVal) : Step → Res PathVal
  | .join a => p.join a
  | .parent => .ok p.parent
  | .root => .ok p.root

def runChain (p : PathVal) : List Step → Res PathVal
  | [] => .ok p
  | s :: rest =>
    match step p s with
    | .ok q => runChain q rest
    | .err k e => .err k e
    | .panic => .panic

/-! the independent specification: a character-level scanner over the argument, driving a stack
of components (push / pop / clear) -/

/-- what one finished component does to the stack -/
def applyComp (st : List Str) (c : Str) : List Str :=
  if c = [] ∨ c = ['.'] then st
  else if c = ['.', '.'] then st.dropLast
  else st ++ [c]

/-- scan the argument: `cur` is the component being read; '/' finishes it -/
def lexGo (st : List Str) (cur : Str) : Str → List Str
  | [] => applyComp st cur
  | c :: rest => if c = '/' then lexGo (applyComp st cur) [] rest else lexGo st (cur ++ [c]) rest

/-- lexical meaning of `join arg` on a component stack; `error arg` = rejected argument -/
def specJoin (st : List Str) (arg : Str) : Except Str (List Str) :=
  if arg.length > 1 ∧ arg.getLast? = some '/' then .error arg
  else .ok (lexGo (if arg.head? = some '/' then [] else st) [] arg)

deriving instance DecidableEq for Except

def specStep (st : List Str) : Step → Except Str (List Str)
  | .join a => specJoin st a
  | .parent => .ok st.dropLast
  | .root => .ok []

def specChain (st : List Str) : List Step → Except Str (List Str)
  | [] => .ok st
  | s :: rest =>
    match specStep st s with
    | .ok st' => specChain st' rest
    | .error a => .error a

theorem resolve_cons_applyComp (st : List Str) (c : Str) (t : List Str) :
    resolve st (c :: t) = resolve (applyComp st c) t := by
  unfold applyComp
  rw [resolve]
  by_cases h1 : c = ['.'] ∨ c = []
  · have : c = [] ∨ c = ['.'] := h1.symm
    simp only [if_pos h1, if_pos this]
  · have : ¬ (c = [] ∨ c = ['.']) := fun h => h1 h.symm
    simp only [if_neg h1, if_neg this]
    split <;> rfl

theorem lexGo_spec (st : List Str) (cur s : Str) :
    ∃ h t, splitOnC '/' s = h :: t ∧ lexGo st cur s = resolve st ((cur ++ h) :: t) := by
  induction s generalizing st cur with
  | nil =>
    refine ⟨[], [], rfl, ?_⟩
    rw [List.append_nil, resolve_cons_applyComp, lexGo, resolve]
  | cons c cs ih =>
    by_cases hc : c = '/'
    · obtain ⟨h, t, h1, h2⟩ := ih (applyComp st cur) []
      refine ⟨[], h :: t, ?_, ?_⟩
      · rw [splitOnC, if_pos hc, h1]
      · rw [lexGo, if_pos hc, h2, List.append_nil, resolve_cons_applyComp st cur]
        rfl
    · obtain ⟨h, t, h1, h2⟩ := ih st (cur ++ [c])
      refine ⟨c :: h, t, ?_, ?_⟩
      · rw [splitOnC, if_neg hc, h1]
      · rw [lexGo, if_neg hc, h2]; simp

theorem lexGo_eq_resolve (st : List Str) (s : Str) :
    lexGo st [] s = resolve st (splitSlash s) := by
  obtain ⟨h, t, h1, h2⟩ := lexGo_spec st [] s
  rw [h2, splitSlash, h1]; rfl

/-- one join against the specification -/
theorem join_spec (i : Nat) (cs : List Str) (hcs : ∀ c ∈ cs, '/' ∉ c) (arg : Str) :
    (PathVal.mk i (renderC cs)).join arg =
      match specJoin cs arg with
      | .ok cs' => .ok ⟨i, renderC cs'⟩
      | .error a => .err .invalidPath (some a) := by
  unfold PathVal.join specJoin
  by_cases hts : trailingSlash arg
  · have := (join_err_iff (renderC cs) arg .invalidPath (some arg)).2 ⟨hts, rfl, rfl⟩
    have hts' : arg.length > 1 ∧ arg.getLast? = some '/' := hts
    simp only [this, Res.map]
    rw [if_pos hts']
  · have hts' : ¬ (arg.length > 1 ∧ arg.getLast? = some '/') := hts
    rw [if_neg hts']
    by_cases hne : arg = []
    · subst hne
      simp [joinInternal, Res.map, lexGo, applyComp]
    · simp only [join_resolve cs arg hcs hne hts, Res.map, lexGo_eq_resolve, startStack]

theorem specJoin_good (cs : List Str) (hcs : ∀ c ∈ cs, GoodComp c) (arg : Str) (cs' : List Str)
    (h : specJoin cs arg = .ok cs') : ∀ c ∈ cs', GoodComp c := by
  unfold specJoin at h
  split at h
  · cases h
  · injection h with h; subst h
    rw [lexGo_eq_resolve]
    apply resolve_good
    · split
      · simp
      · exact hcs
    · exact splitOnC_no_delim '/' arg

theorem specStep_good (cs : List Str) (hcs : ∀ c ∈ cs, GoodComp c) (s : Step) (cs' : List Str)
    (h : specStep cs s = .ok cs') : ∀ c ∈ cs', GoodComp c := by
  cases s with
  | join a => exact specJoin_good cs hcs a cs' h
  | parent =>
    simp only [specStep] at h; injection h with h; subst h
    exact fun c hc => hcs c (List.dropLast_subset _ hc)
  | root => simp only [specStep] at h; injection h with h; subst h; simp

theorem specChain_good (cs : List Str) (hcs : ∀ c ∈ cs, GoodComp c) (steps : List Step)
    (cs' : List Str) (h : specChain cs steps = .ok cs') : ∀ c ∈ cs', GoodComp c := by
  induction steps generalizing cs with
  | nil => simp only [specChain] at h; injection h with h; subst h; exact hcs
  | cons s rest ih =>
    simp only [specChain] at h
    cases hs : specStep cs s with
    | ok st' => rw [hs] at h; exact ih st' (specStep_good cs hcs s st' hs) h
    | error a => rw [hs] at h; cases h

/-- a rejected chain was rejected by one of its joins, whose argument ends in '/' -/
theorem specChain_error (cs : List Str) (steps : List Step) (a : Str)
    (h : specChain cs steps = .error a) : Step.join a ∈ steps ∧ trailingSlash a := by
  induction steps generalizing cs with
  | nil => cases h
  | cons s rest ih =>
    simp only [specChain] at h
    cases hs : specStep cs s with
    | ok st' =>
      rw [hs] at h
      obtain ⟨h1, h2⟩ := ih st' h
      exact ⟨List.mem_cons_of_mem _ h1, h2⟩
    | error b =>
      rw [hs] at h; injection h with h; subst h
      cases s with
      | join x =>
        simp only [specStep, specJoin] at hs
        split at hs
        · rename_i hts; injection hs with hs; subst hs; exact ⟨by simp, hts⟩
        · cases hs
      | parent => cases hs
      | root => cases hs

def specResult (i : Nat) : Except Str (List Str) → Res PathVal
  | .ok cs' => .ok ⟨i, renderC cs'⟩
  | .error a => .err .invalidPath (some a)

/-- every chain from a canonical path computes the lexical resolution of the chain -/
theorem chain_resolves (i : Nat) (cs : List Str) (hcs : ∀ c ∈ cs, GoodComp c) (steps : List Step) :
    runChain ⟨i, renderC cs⟩ steps = specResult i (specChain cs steps) := by
  induction steps generalizing cs with
  | nil => rfl
  | cons s rest ih =>
    have hstep : step ⟨i, renderC cs⟩ s = specResult i (specStep cs s) := by
      cases s with
      | join a =>
        simp only [step, specStep, join_spec i cs (good_noslash hcs) a]
        cases specJoin cs a <;> rfl
      | parent =>
        simp only [step, specStep, specResult, PathVal.parent,
          parentInternal_renderC cs (good_noslash hcs)]
      | root => rfl
    simp only [runChain, specChain, hstep]
    cases hs : specStep cs s with
    | ok st' => simp only [specResult]; exact ih st' (specStep_good cs hcs s st' hs)
    | error a => rfl

/-- from a canonical path every chain yields a canonical path on the same filesystem instance,
or `InvalidPath` labelled with the argument of a join of the chain that ends in '/' -/
theorem chain_canonical (p : PathVal) (hp : Canon p.path) (steps : List Step) :
    (∃ q, runChain p steps = .ok q ∧ Canon q.path ∧ q.fsId = p.fsId) ∨
    (∃ a, runChain p steps = .err .invalidPath (some a) ∧ Step.join a ∈ steps ∧ trailingSlash a) := by
  obtain ⟨i, s⟩ := p
  obtain ⟨cs, hgood, rfl⟩ := hp
  rw [chain_resolves i cs hgood steps]
  cases h : specChain cs steps with
  | ok cs' => exact .inl ⟨_, rfl, ⟨cs', specChain_good cs hgood steps cs' h, rfl⟩, rfl⟩
  | error a => exact .inr ⟨a, rfl, specChain_error cs steps a h⟩

theorem chain_total (p : PathVal) (hp : Canon p.path) (steps : List Step) :
    runChain p steps ≠ .panic := by
  rcases chain_canonical p hp steps with ⟨q, h, _⟩ | ⟨a, h, _⟩ <;> rw [h] <;> simp

/-! ## 5. extension is a function of the filename -/

theorem split_last (d : Char) (s : Str) (h : d ∈ s) :
    s = beforeLast d s ++ d :: afterLast d s ∧ d ∉ afterLast d s := by
  induction s with
  | nil => simp at h
  | cons c cs ih =>
    by_cases hin : d ∈ cs
    · obtain ⟨h1, h2⟩ := ih hin
      simp only [beforeLast, afterLast, if_pos hin]
      exact ⟨by rw [List.cons_append, ← h1], h2⟩
    · have hc : c = d := by
        simp at h; rcases h with h | h
        · exact h.symm
        · exact absurd h hin
      simp only [beforeLast, afterLast, if_neg hin, if_pos hc]
      subst hc
      exact ⟨rfl, hin⟩

/-- every file name is of exactly one of three shapes (the cases of `extension`) -/
theorem ext_cases (name : Str) :
    ('.' ∉ name) ∨ (∃ b, name = '.' :: b ∧ '.' ∉ b) ∨
    (∃ a b, a ≠ [] ∧ name = a ++ '.' :: b ∧ '.' ∉ b) := by
  by_cases h : '.' ∈ name
  · obtain ⟨h1, h2⟩ := split_last '.' name h
    by_cases ha : beforeLast '.' name = []
    · rw [ha] at h1; exact .inr (.inl ⟨_, h1, h2⟩)
    · exact .inr (.inr ⟨_, _, ha, h1, h2⟩)
  · exact .inl h

/-- the specification of the extension of a file name, by shape -/
inductive ExtSpec : Str → Option Str → Prop
  | nodot (name) : '.' ∉ name → ExtSpec name none
  | hidden (b) : '.' ∉ b → ExtSpec ('.' :: b) none
  | ext (a b) : a ≠ [] → '.' ∉ b → ExtSpec (a ++ '.' :: b) (some b)

/-- `extension p` is determined by `filename p` alone: the part after the last '.' of the
filename when that '.' is not its first character, otherwise none -/
theorem extension_of_filename (p : PathVal) : ExtSpec p.filename p.extension := by
  unfold PathVal.filename PathVal.extension extensionInternal
  generalize filenameInternal p.path = name
  rcases ext_cases name with h | ⟨b, rfl, hb⟩ | ⟨a, b, ha, rfl, hb⟩
  · simp only [if_neg h]; exact .nodot _ h
  · have := beforeLast_append_delim '.' [] b hb
    simp only [List.nil_append] at this
    simp only [List.mem_cons, true_or, if_true, this]
    exact .hidden b hb
  · have hm : '.' ∈ a ++ '.' :: b := by simp
    simp only [if_pos hm, beforeLast_append_delim '.' a b hb, afterLast_append_delim '.' a b hb,
      if_neg ha]
    exact .ext a b ha hb

/-- the specification is functional, so it pins the extension down -/
theorem ExtSpec_functional (name : Str) (x y : Option Str)
    (hx : ExtSpec name x) (hy : ExtSpec name y) : x = y := by
  have key : ∀ name x, ExtSpec name x →
      x = (if '.' ∈ name then
            if beforeLast '.' name = [] then none else some (afterLast '.' name) else none) := by
    intro name x hx
    cases hx with
    | nodot _ h => simp [h]
    | hidden b hb =>
      have := beforeLast_append_delim '.' [] b hb
      simp only [List.nil_append] at this
      simp [this]
    | ext a b ha hb =>
      simp [beforeLast_append_delim '.' a b hb, afterLast_append_delim '.' a b hb, ha]
  rw [key name x hx, key name y hy]

theorem extension_depends_on_filename (p q : PathVal) (h : p.filename = q.filename) :
    p.extension = q.extension :=
  ExtSpec_functional _ _ _ (extension_of_filename p) (h ▸ extension_of_filename q)

/-! ## 6. equality of chain results -/

theorem specResult_inj (i : Nat) (x y : Except Str (List Str))
    (hx : ∀ a, x = .ok a → ∀ c ∈ a, '/' ∉ c) (hy : ∀ a, y = .ok a → ∀ c ∈ a, '/' ∉ c)
    (h : specResult i x = specResult i y) : x = y := by
  cases x with
  | ok a =>
    cases y with
    | ok b =>
      simp only [specResult, Res.ok.injEq, PathVal.mk.injEq, true_and] at h
      rw [renderC_injective a b (hx a rfl) (hy b rfl) h]
    | error b => cases h
  | error a =>
    cases y with
    | ok b => cases h
    | error b => simp only [specResult, Res.err.injEq, Option.some.injEq, true_and] at h; rw [h]

/-- two chains from the same canonical start give equal results (as path values, or the same
error) iff their lexical resolutions agree -/
theorem eq_chain (i : Nat) (cs : List Str) (hcs : ∀ c ∈ cs, GoodComp c) (s1 s2 : List Step) :
    runChain ⟨i, renderC cs⟩ s1 = runChain ⟨i, renderC cs⟩ s2 ↔ specChain cs s1 = specChain cs s2 := by
  rw [chain_resolves i cs hcs, chain_resolves i cs hcs]
  constructor
  · exact specResult_inj i _ _
      (fun a h => good_noslash (specChain_good cs hcs s1 a h))
      (fun a h => good_noslash (specChain_good cs hcs s2 a h))
  · intro h; rw [h]

/-- the successful case: equal paths iff equal resolved component lists -/
theorem eq_chain_ok (i : Nat) (cs : List Str) (hcs : ∀ c ∈ cs, GoodComp c) (s1 s2 : List Step)
    (a b : List Str) (h1 : specChain cs s1 = .ok a) (h2 : specChain cs s2 = .ok b) :
    runChain ⟨i, renderC cs⟩ s1 = .ok ⟨i, renderC a⟩ ∧ runChain ⟨i, renderC cs⟩ s2 = .ok ⟨i, renderC b⟩ ∧
    (runChain ⟨i, renderC cs⟩ s1 = runChain ⟨i, renderC cs⟩ s2 ↔ a = b) := by
  refine ⟨by rw [chain_resolves i cs hcs, h1]; rfl, by rw [chain_resolves i cs hcs, h2]; rfl, ?_⟩
  rw [eq_chain i cs hcs, h1, h2]
  constructor
  · intro h; injection h
  · intro h; rw [h]

/-- paths of different filesystem instances are never equal, whatever the chains -/
theorem eq_chain_fs (p q : PathVal) (hp : Canon p.path) (hq : Canon q.path) (hne : p.fsId ≠ q.fsId)
    (s1 s2 : List Step) (r1 r2 : PathVal)
    (h1 : runChain p s1 = .ok r1) (h2 : runChain q s2 = .ok r2) : r1 ≠ r2 := by
  rcases chain_canonical p hp s1 with ⟨x, hx, _, hxi⟩ | ⟨a, ha, _⟩
  · rcases chain_canonical q hq s2 with ⟨y, hy, _, hyi⟩ | ⟨a, ha, _⟩
    · rw [hx] at h1; rw [hy] at h2
      injection h1 with h1; injection h2 with h2
      subst h1; subst h2
      intro h; rw [h] at hxi; exact hne (hxi.symm.trans hyi)
    · rw [ha] at h2; cases h2
  · rw [ha] at h1; cases h1

/-! ## the same chains on the model's `VPath` -/

def toVal (p : VPath) : PathVal := ⟨p.fsId, p.path⟩

def vstep (p : VPath) : Step → Res VPath
  | .join a => p.join a
  | .parent => .ok p.parent
  | .root => .ok p.root

def vrunChain (p : VPath) : List Step → Res VPath
  | [] => .ok p
  | s :: rest =>
    match vstep p s with
    | .ok q => vrunChain q rest
    | .err k e => .err k e
    | .panic => .panic

theorem vstep_toVal (p : VPath) (s : Step) : (vstep p s).map toVal = step (toVal p) s := by
  cases s with
  | join a =>
    simp only [vstep, step, VPath.join, PathVal.join, toVal]
    cases joinInternal p.path a <;> rfl
  | parent => rfl
  | root => rfl

/-- a chain on `VPath` is the chain on its path value; `fs` and `fsId` never change -/
theorem vpath_chain (p : VPath) (steps : List Step) :
    (vrunChain p steps).map toVal = runChain (toVal p) steps ∧
    ∀ q, vrunChain p steps = .ok q → q = { p with path := q.path } := by
  induction steps generalizing p with
  | nil =>
    refine ⟨rfl, ?_⟩
    intro q h; simp only [vrunChain] at h; injection h with h; subst h; rfl
  | cons s rest ih =>
    have hs := vstep_toVal p s
    simp only [vrunChain, runChain]
    cases hv : vstep p s with
    | ok q =>
      rw [hv] at hs; simp only [Res.map] at hs
      rw [← hs]
      have hq : q = { p with path := q.path } := by
        cases s with
        | join a =>
          simp only [vstep, VPath.join] at hv
          cases hj : joinInternal p.path a with
          | ok r => rw [hj] at hv; simp only [Res.map] at hv; injection hv with hv; subst hv; rfl
          | err k e => rw [hj] at hv; cases hv
          | panic => rw [hj] at hv; cases hv
        | parent => simp only [vstep] at hv; injection hv with hv; subst hv; rfl
        | root => simp only [vstep] at hv; injection hv with hv; subst hv; rfl
      refine ⟨(ih q).1, ?_⟩
      intro r hr
      have h3 := (ih q).2 r hr
      rw [h3, hq]
    | err k e =>
      rw [hv] at hs; simp only [Res.map] at hs
      rw [← hs]
      exact ⟨rfl, fun q h => by cases h⟩
    | panic =>
      rw [hv] at hs; simp only [Res.map] at hs
      rw [← hs]
      exact ⟨rfl, fun q h => by cases h⟩

/-! ## 7. non-vacuity -/

def s (x : String) : Str := x.toList

example : ∀ c ∈ [s "a", s "né", s "日本"], GoodComp c := by decide

/-- a chain with "..", ".", a leading '/', multi-byte components, parent and root -/
example :
    runChain ⟨7, renderC [s "a", s "né"]⟩
      [.join (s "../日本/./x.tar.gz"), .parent, .join (s "ü"), .join (s ".."), .join (s "/€/b"), .parent]
      = .ok ⟨7, s "/€"⟩ := by decide
example :
    specChain [s "a", s "né"]
      [.join (s "../日本/./x.tar.gz"), .parent, .join (s "ü"), .join (s ".."), .join (s "/€/b"), .parent]
      = .ok [s "€"] := by decide
example : runChain ⟨7, s "/a"⟩ [.join (s "b"), .root, .join (s "../.."), .parent] = .ok ⟨7, []⟩ := by
  decide
example : runChain ⟨7, s "/a"⟩ [.join (s "b"), .join (s "c/"), .root]
    = .err .invalidPath (some (s "c/")) := by decide
example : specChain [s "a"] [.join (s "b"), .join (s "c/"), .root] = .error (s "c/") := by decide
/-- two different chains, same location -/
example : runChain ⟨1, s "/a"⟩ [.join (s "日/../b")] = runChain ⟨1, s "/a"⟩ [.parent, .join (s "/a/./b")] := by
  decide
example : specChain [s "a"] [.join (s "日/../b")] = specChain [s "a"] [.parent, .join (s "/a/./b")] := by
  decide
/-- same string, other filesystem instance: different -/
example : runChain ⟨1, s "/a"⟩ [.join (s "b")] ≠ runChain ⟨2, s "/a"⟩ [.join (s "b")] := by decide
example : parentN 3 ⟨0, renderC [s "a", s "é", s "c"]⟩ = ⟨0, []⟩ := by decide
example : (parentN 2 ⟨0, renderC [s "a", s "é", s "c"]⟩).isRoot = false := by decide
example : (PathVal.mk 0 (s "/a/日本.tar.gz")).filename = s "日本.tar.gz" := by decide
example : (PathVal.mk 0 (s "/a/日本.tar.gz")).extension = some (s "gz") := by decide
example : (PathVal.mk 0 (s "/a.d/.hidden")).extension = none := by decide
example : (PathVal.mk 0 (s "/a.d/plain")).extension = none := by decide
example : joinInternal (parentInternal (s "/a/né")) (filenameInternal (s "/a/né")) = .ok (s "/a/né") := by
  decide

#print axioms chain_resolves
#print axioms chain_canonical
#print axioms eq_chain
#print axioms eq_chain_fs
#print axioms extension_of_filename
#print axioms join_parent_filename
#print axioms parent_iter_not_root_before
#print axioms filename_join_name
#print axioms vpath_chain

end Vfs.C06
