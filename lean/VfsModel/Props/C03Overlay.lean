/-
  C03 for the overlay's VIEW — the merged view of an overlay over n ≥ 1 in-memory layers is a
  well-formed tree in every reachable state (Props/C03Stack.lean speaks about the LEAVES only and
  says explicitly that it does not cover the computed union).

  SETTING: `OWN w (u :: is) (idu :: ids) (mu :: ms)` (n ≥ 1 pairwise distinct memory leaves whose
  roots are the layers), the overlay `Overlay.fs (layersN (u :: is) (idu :: ids))`, its view
  `oview (mu :: ms)` (Proofs/OverlayContractLemmas.lean), histories `runOverlay fs ops w` of the
  five mutators `C02.Mut` (create_dir | write session | append session | remove_file |
  remove_dir) at the level of the trait `FileSystem` (Props/C09Refine.lean).

  PROVED (propext, Classical.choice, Quot.sound only)
  * `overlay_history_invariants`: from a state with `OInv` and `ViewWF`, after EVERY finite
    history of mutators on disciplined paths (`OpOK`: canonical, non-root, outside ".whiteout", no
    component ending in "_wo") that respects the O3 discipline (`ViewO3Free`: at the moment of a
    `remove_file p`, `p` is not a directory of the overlay's own view — read off the overlay's
    run, no reference tree needed): the final world is again in the setting, lower maps unchanged
    up to access stamps, `OInv` and `ViewWF` hold, no call panicked.
  * `overlay_view_wf_history` (the C03 statement): the same from the INITIAL hypotheses — every
    layer map `WF`, the layers type-consistent, no markers in the upper map —: `ViewWF` of the
    final view and `WF` of every final layer map.
  * `viewWF_no_orphan`, `viewWF_ancestors`: what `ViewWF` says, spelled out — every present
    canonical path outside ".whiteout" has a DIRECTORY parent IN THE VIEW (also at top level), and
    so has every proper ancestor.
  * `overlay_no_orphan_observed`: the same through the overlay's own observers on the final
    world: if `exists(p)` answers true then `exists(parent p)` answers true and
    `metadata(parent p)` reports a directory.
  * `overlay_view_wf_history_ref`: variant with the discipline read off a reference tree
    (`RefO3Free`), a direct corollary of `C09.overlay_refines_reference`.
  * non-vacuity: the 3-layer world and the 12-call history of Props/C09Refine.lean (`decide`).

  HYPOTHESES: the setting; path discipline `OpOK` for every call; O3 discipline for `remove_file`
  (open defect O3: `remove_file` on a lower-only directory orphans its children — without the
  discipline the statement is FALSE, `C10.remove_file_on_lower_dir_orphansN`).
  NOT PROVED: histories containing the `VfsPath`-level operations (create_dir_all, copy, move,
  remove_dir_all), the time setters, open handles kept across calls; layers that are not roots
  of memory leaves; paths inside ".whiteout" (outside the view by design).
-/
import VfsModel.Props.C09Refine
set_option linter.unusedSimpArgs false
set_option linter.unusedVariables false
namespace Vfs.C03
open Vfs Vfs.Overlay Vfs.C02 Vfs.C01 Vfs.C09
open Vfs.C10 (mapsOfN)

/-! ### what `ViewWF` says -/

/-- **no orphan in the view**: a present canonical path outside ".whiteout" has a directory
parent in the view (the root for a top-level name) -/
theorem viewWF_no_orphan {v : View} (hv : ViewWF v) {cs : List Str} (hne : cs ≠ [])
    (hcs : ∀ c ∈ cs, GoodComp c) (hhead : cs.head? ≠ some woDir) (hpres : v (renderC cs) ≠ none) :
    VIsDir v (parentInternal (renderC cs)) := by
  rcases List.eq_nil_or_concat cs with rfl | ⟨ds, n, rfl⟩
  · exact absurd rfl hne
  · rw [List.concat_eq_append] at hcs hhead hpres ⊢
    obtain ⟨hds, hn⟩ := good_of_snoc hcs
    rw [parent_snoc ds n hds hn]
    by_cases hd : ds = []
    · subst hd; exact hv.1
    · refine hv.2 ds n hd hds hn.noSlash ?_ (by rw [← renderC_snoc]; exact hpres)
      intro h0; apply hhead
      cases ds with
      | nil => exact absurd rfl hd
      | cons d ds => simpa using h0

/-- … and every proper ancestor is a directory of the view -/
theorem viewWF_ancestors {v : View} (hv : ViewWF v) {cs : List Str}
    (hcs : ∀ c ∈ cs, GoodComp c) (hhead : cs.head? ≠ some woDir) (hpres : v (renderC cs) ≠ none)
    (j : Nat) (hj : j < cs.length) : VIsDir v (renderC (cs.take j)) := by
  have key : ∀ k j, j + k + 1 = cs.length → VIsDir v (renderC (cs.take j)) := by
    intro k
    induction k with
    | zero =>
      intro j hj
      have hne : cs ≠ [] := by intro h0; rw [h0] at hj; simp at hj
      have := viewWF_no_orphan hv hne hcs hhead hpres
      rcases List.eq_nil_or_concat cs with rfl | ⟨ds, n, rfl⟩
      · exact absurd rfl hne
      · rw [List.concat_eq_append] at hcs this hj ⊢
        obtain ⟨hds, hn⟩ := good_of_snoc hcs
        rw [parent_snoc ds n hds hn] at this
        have hjd : j = ds.length := by simp at hj; omega
        rw [hjd, List.take_left']
        · exact this
        · rfl
    | succ k ih =>
      intro j hj
      have hdir := ih (j + 1) (by omega)
      have hlt : j < cs.length := by omega
      have htake : cs.take (j + 1) = cs.take j ++ [cs[j]] := by
        rw [List.take_add_one, List.getElem?_eq_getElem hlt]; rfl
      by_cases hj0 : j = 0
      · subst hj0; simp only [List.take_zero, renderC_nil]; exact hv.1
      · have hne : cs.take j ≠ [] := by
          intro h0
          have := congrArg List.length h0
          rw [List.length_take, List.length_nil] at this; omega
        refine hv.2 (cs.take j) cs[j] hne (fun c hc => hcs c (List.mem_of_mem_take hc))
          (hcs _ (List.getElem_mem _)).noSlash (C10.take_head_ne (by omega) hhead) ?_
        rw [← renderC_snoc, ← htake]
        obtain ⟨e, he, _⟩ := hdir
        rw [he]; simp
  exact key (cs.length - j - 1) j (by omega)

/-! ### the O3 discipline, read off the overlay's own run -/

theorem mapsOfN_of_OWN {w : World} {is ids : List Nat} {ms : List FMap} (h : OWN w is ids ms) :
    mapsOfN w is = ms := by
  induction h with
  | nil => rfl
  | @cons i id m is ids ms h0 hni ht ih =>
    unfold mapsOfN at ih ⊢
    unfold MemLeafAt at h0
    simp only [List.filterMap_cons, h0, Option.map_some, ih]

instance (v : View) (op : Mut) : Decidable (O3Free v op) := by
  cases op with
  | removeFile p =>
    exact decidable_of_iff (¬ VIsDir v p)
      ⟨fun h q hq => by injection hq with hq; subst hq; exact h, fun h => h p rfl⟩
  | createDir p => exact isTrue (fun q hq => by cases hq)
  | write p bs => exact isTrue (fun q hq => by cases hq)
  | append p bs => exact isTrue (fun q hq => by cases hq)
  | removeDir p => exact isTrue (fun q hq => by cases hq)

/-- the type discipline of the open defect O3 along a history of the overlay over the leaves
`ls`, read off the overlay's OWN view: at the moment of `remove_file p`, `p` is not a directory of
the view -/
def ViewO3Free (fs : FS) (ls : List Nat) : List Mut → World → Prop
  | [], _ => True
  | op :: rest, w => O3Free (oview (mapsOfN w ls)) op ∧ ViewO3Free fs ls rest (ostep fs op w).2

instance (fs : FS) (ls : List Nat) : (ops : List Mut) → (w : World) →
    Decidable (ViewO3Free fs ls ops w)
  | [], _ => isTrue trivial
  | op :: rest, w =>
    have := instDecidableViewO3Free fs ls rest (ostep fs op w).2
    by unfold ViewO3Free; exact inferInstance

/-! ### the invariants along every history -/

/-- **the invariants hold in every reachable state.** From a state of the n-layer setting with
the hidden state in order (`OInv`) and a well-formed view (`ViewWF`): after EVERY finite history
of mutators on disciplined paths, `remove_file` never applied to a directory of the view, the
world is again in the setting (lower maps unchanged up to access stamps), both invariants hold
again, and no call panicked. -/
theorem overlay_history_invariants (ops : List Mut) (hops : ∀ op ∈ ops, OpOK op)
    {w : World} {u idu : Nat} {mu : FMap} {is ids : List Nat} {ms : List FMap}
    (h : OWN w (u :: is) (idu :: ids) (mu :: ms)) (inv : OInv mu ms)
    (hv : ViewWF (oview (mu :: ms)))
    (hdisc : ViewO3Free (Overlay.fs (layersN (u :: is) (idu :: ids))) (u :: is) ops w) :
    ∃ mu' ms',
      OWN (runOverlay (Overlay.fs (layersN (u :: is) (idu :: ids))) ops w).2
        (u :: is) (idu :: ids) (mu' :: ms') ∧
      LowerSame ms ms' ∧ OInv mu' ms' ∧ ViewWF (oview (mu' :: ms')) ∧
      (∀ r ∈ (runOverlay (Overlay.fs (layersN (u :: is) (idu :: ids))) ops w).1, r ≠ .panic) := by
  induction ops generalizing w mu ms with
  | nil => exact ⟨mu, ms, h, LowerSame.refl ms, inv, hv, by simp [runOverlay]⟩
  | cons op rest ih =>
    have hop := hops op (by simp)
    have hd3 : O3Free (oview (mu :: ms)) op := by
      have := hdisc.1; rwa [mapsOfN_of_OWN h] at this
    obtain ⟨r, w', mu1, ms1, hrun, hown1, hls1, _, inv1, hv1, hc⟩ :=
      overlay_contractN h inv hv op hop hd3
    have h1 : (ostep (Overlay.fs (layersN (u :: is) (idu :: ids))) op w).1 = r := by rw [hrun]
    have h2 : (ostep (Overlay.fs (layersN (u :: is) (idu :: ids))) op w).2 = w' := by rw [hrun]
    have hdisc' := hdisc.2
    rw [h2] at hdisc'
    obtain ⟨mu', ms', hown', hls', inv', hv', hnp⟩ :=
      ih (fun o ho => hops o (by simp [ho])) hown1 inv1 hv1 hdisc'
    simp only [runOverlay, h1, h2]
    refine ⟨mu', ms', hown', hls1.trans hls', inv', hv', ?_⟩
    intro x hx
    rcases List.mem_cons.1 hx with rfl | hx
    · exact hc.no_panic
    · exact hnp x hx

/-- **overlay_view_wf_history (C03 for the merged view).** Well-formed, type-consistent layer
maps without markers; then after every finite history of contract-disciplined mutators (O3
discipline for `remove_file`) the view of the overlay is a well-formed tree — its root is a
directory and every present path has a directory parent IN THE VIEW — and every layer map is
still `WF` (the statement of C03Stack for the leaves, re-derived on the way). -/
theorem overlay_view_wf_history (ops : List Mut) (hops : ∀ op ∈ ops, OpOK op)
    {w : World} {u idu : Nat} {mu : FMap} {is ids : List Nat} {ms : List FMap}
    (h : OWN w (u :: is) (idu :: ids) (mu :: ms)) (hwf : ∀ m ∈ mu :: ms, WF m)
    (hnw : NoWhiteout mu) (htc : TypeConsistent (mu :: ms))
    (hdisc : ViewO3Free (Overlay.fs (layersN (u :: is) (idu :: ids))) (u :: is) ops w) :
    ∃ mu' ms',
      OWN (runOverlay (Overlay.fs (layersN (u :: is) (idu :: ids))) ops w).2
        (u :: is) (idu :: ids) (mu' :: ms') ∧
      ViewWF (oview (mu' :: ms')) ∧ (∀ m ∈ mu' :: ms', WF m) ∧
      (∀ cs : List Str, cs ≠ [] → (∀ c ∈ cs, GoodComp c) → cs.head? ≠ some woDir →
        oview (mu' :: ms') (renderC cs) ≠ none →
        VIsDir (oview (mu' :: ms')) (parentInternal (renderC cs))) := by
  obtain ⟨mu', ms', hown, _, inv', hv', _⟩ :=
    overlay_history_invariants ops hops h (OInv.initial hwf hnw) (ViewWF.initial hwf hnw htc) hdisc
  exact ⟨mu', ms', hown, hv', inv'.wf, fun cs hne hcs hhead hp => viewWF_no_orphan hv' hne hcs hhead hp⟩

/-- the variant with the O3 discipline read off a reference tree (corollary of
`C09.overlay_refines_reference`) -/
theorem overlay_view_wf_history_ref (ops : List Mut) (hops : ∀ op ∈ ops, OpOK op)
    {w : World} {u idu : Nat} {mu : FMap} {is ids : List Nat} {ms : List FMap}
    (h : OWN w (u :: is) (idu :: ids) (mu :: ms)) (hwf : ∀ m ∈ mu :: ms, WF m)
    (hnw : NoWhiteout mu) (htc : TypeConsistent (mu :: ms))
    (m0 : FMap) (href : Refines (oview (mu :: ms)) m0) (hdisc : RefO3Free ops m0) :
    ∃ mu' ms',
      OWN (runOverlay (Overlay.fs (layersN (u :: is) (idu :: ids))) ops w).2
        (u :: is) (idu :: ids) (mu' :: ms') ∧
      ViewWF (oview (mu' :: ms')) ∧ (∀ m ∈ mu' :: ms', WF m) := by
  obtain ⟨mu', ms', hown, _, inv', hv', _⟩ :=
    overlay_refines_reference ops hops h (OInv.initial hwf hnw) (ViewWF.initial hwf hnw htc) m0
      href hdisc
  exact ⟨mu', ms', hown, hv', inv'.wf⟩

/-! ### the same through the overlay's observers -/

/-- **no orphan, as observed**: in a state with a well-formed view, if the overlay's `exists`
answers true for a canonical non-root path outside ".whiteout", then it answers true for the
parent, and `metadata` of the parent reports a directory; nothing changes in the world. -/
theorem overlay_no_orphan_observed
    {w : World} {u idu : Nat} {mu : FMap} {is ids : List Nat} {ms : List FMap}
    (h : OWN w (u :: is) (idu :: ids) (mu :: ms)) (inv : OInv mu ms)
    (hv : ViewWF (oview (mu :: ms))) (ds : List Str) (n : Str)
    (hcs : ∀ c ∈ ds ++ [n], GoodComp c) (hhead : (ds ++ [n]).head? ≠ some woDir)
    (hex : ((Overlay.fs (layersN (u :: is) (idu :: ids))).exists_ (renderC (ds ++ [n])) w).1
      = .ok true) :
    (Overlay.fs (layersN (u :: is) (idu :: ids))).exists_ (renderC ds) w = (.ok true, w) ∧
    (ds ≠ [] → ∃ md, (Overlay.fs (layersN (u :: is) (idu :: ids))).metadata (renderC ds) w
      = (.ok md, w) ∧ md.ftype = .dir) := by
  have hne : ds ++ [n] ≠ [] := by simp
  rw [exists_is_viewN h _ hne hcs] at hex
  have hpres : oview (mu :: ms) (renderC (ds ++ [n])) ≠ none := by
    rw [oview_ne (renderC_ne_nil hne)]
    intro h0; rw [h0] at hex; simp at hex
  have hpar := viewWF_no_orphan hv hne hcs hhead hpres
  obtain ⟨hds, hn⟩ := good_of_snoc hcs
  rw [parent_snoc ds n hds hn] at hpar
  by_cases hd : ds = []
  · subst hd
    exact ⟨exists_rootN h inv.root, fun h0 => absurd rfl h0⟩
  · obtain ⟨e, he, hdir⟩ := hpar
    rw [oview_ne (renderC_ne_nil hd)] at he
    refine ⟨by rw [exists_is_viewN h ds hd hds, he]; rfl, fun _ => ⟨e.meta, ?_, hdir⟩⟩
    rw [metadata_is_viewN h ds hd hds, he]

/-! ### non-vacuity: the 3-layer world and the 12-call history of Props/C09Refine.lean -/

section example3

theorem xOps_viewO3 : ViewO3Free xfs [2, 0, 1] xOps xw := by decide +kernel

/-- all hypotheses of `overlay_view_wf_history` hold on the concrete world -/
theorem x_view_wf :
    ∃ mu' ms',
      OWN (runOverlay xfs xOps xw).2 [2, 0, 1] [7, 8, 9] (mu' :: ms') ∧
      ViewWF (oview (mu' :: ms')) ∧ (∀ m ∈ mu' :: ms', WF m) ∧
      (∀ cs : List Str, cs ≠ [] → (∀ c ∈ cs, GoodComp c) → cs.head? ≠ some woDir →
        oview (mu' :: ms') (renderC cs) ≠ none →
        VIsDir (oview (mu' :: ms')) (parentInternal (renderC cs))) :=
  overlay_view_wf_history xOps xOps_ok xw_setting xw_wf (noWhiteout_of_keys (by decide))
    (typeConsistent_of_keys (by decide)) xOps_viewO3

example := overlay_history_invariants xOps xOps_ok xw_setting xw_inv xw_viewWF xOps_viewO3

/-- the observer form on the initial world: "/d/x" exists, so "/d" exists and is a directory -/
example : xfs.exists_ "/d".toList xw = (.ok true, xw) :=
  (overlay_no_orphan_observed xw_setting xw_inv xw_viewWF ["d".toList] "x".toList (by decide)
    (by decide) (by decide)).1

end example3

end Vfs.C03

section audit
open Vfs.C03
#print axioms viewWF_no_orphan
#print axioms viewWF_ancestors
#print axioms overlay_history_invariants
#print axioms overlay_view_wf_history
#print axioms overlay_view_wf_history_ref
#print axioms overlay_no_orphan_observed
#print axioms x_view_wf
end audit
