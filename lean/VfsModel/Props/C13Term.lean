/-
  C13 (termination) — the recursive operations of `VfsPath` terminate on in-memory filesystems:
  the out-of-fuel sentinel of the model is unreachable with an explicit, computable fuel.

  Background. In the model every Rust panic site is the explicit outcome `.panic`. The recursive
  functions of PathOps.lean (`walkAll` = collecting `WalkDirIterator`, `removeDirAll`, `copyItems` /
  `copyDir`, `moveDir`) take a `fuel` argument, and running out of fuel is ALSO rendered as
  `.panic` — a sentinel of the model for "does not terminate", not a Rust panic site.
  Props/C13.lean proves, for every filesystem whose methods do not panic, that a `.panic` of these
  functions can only be that sentinel (`removeDirAll_panic_is_fuel`, `walkAll_panic_is_fuel`,
  `copyItems_panic_is_fuel`, `copyDir_panic_is_fuel`, `moveDir_panic_is_fuel`) — but not that the
  sentinel is unreachable. This file proves the missing half for in-memory filesystems, using the
  exact-result theorems of Props/C05Walk.lean, Props/C11.lean, Props/C11Nested.lean.
  Together: on in-memory filesystems (finite, well-formed trees) none of these operations panics
  and none of them runs forever. For the other backends (overlay, altroot, physical, embedded)
  the state is still only "panic ⇒ fuel sentinel" (C13.lean).

  Setting. Leaf `i` of the world is a memory leaf holding the flat map `m` (`MemLeafAt w i m`);
  `WF m` (the root is a directory, every other key has its parent present as a directory);
  `FMap.NodupKeys m`. `IsDirOf m p` / `IsFileOf m p` / `m.find? p = none`: the three kinds of path.
  `descCount m p` = `descendants m p` = number of keys strictly below `p`.
  `walkCollect fuel P` = `P.walk_dir()?` then collecting the iterator (C05Walk.lean).

  PROVED (no sorry; axioms: propext, Classical.choice, Quot.sound only)
   1. walk_dir — ANY path string `p` (directory, file, absent, root), any listing order:
        `walk_never_panics`: (1) `walkCollect m.length …` (fuel = number of entries) is not the
          sentinel; (2) nor is any fuel > `descCount m p`; (3) the sentinel is the outcome IFF
          `p` is a directory and fuel ≤ `descCount m p` — it is reachable only by starving the
          fuel, never by the tree; (4) the world is unchanged whatever the fuel.
        `walk_sentinel_iff` (= (3)), `walk_outcome` (absent ⇒ `FileNotFound`, file ⇒ `Other`,
          directory with enough fuel ⇒ `Ok` list), `walkAll_never_panics` (iterator level),
          `descCount_lt_length_any`.
   2. remove_dir_all — ANY path string `p`, the root included (which `C11.removeDirAll_exact`
      excludes), fuel ≥ 1 and `∀ key k, |k| < |p| + fuel` (the bound of the exact theorem: it bounds
      the nesting depth below `p`):
        `removeDirAll_outcome`: absent ⇒ `Ok`, world unchanged; FILE ⇒ `Err(Other)` with the path
          filled in, world unchanged (the model, like the code, finds that the path exists, lists
          it, and the listing of a file fails); directory ⇒ `Ok` and the new map is the old one
          minus exactly the keys at or below `p`.
        `removeDirAll_never_panics` (that bound), `removeDirAll_never_panics_fuel` (fuel > longest
          key length), `removeDirAll_never_panics_keyFuel` (the computed fuel
          `keyFuel m` = longest key length + 1), `removeDirAll_on_root` (`""`: `Ok`, NO key is
          left — the model's MemoryFS erases the root entry too), `removeDirAll_on_file`,
          `removeDirAll_on_absent`.
   3. copy_dir / move_dir between memory leaves `i` (map `ms`) and `j` (map `md`), `i = j` or not,
      any `Arc` identities. `copyDir_outcome` / `moveDir_outcome` give the result case by case:
        (a) destination exists (file or directory) ⇒ `Err(Other)`, nothing changes — ANY
            destination string, ANY source, ANY fuel (`transfer_dest_exists`);
        (b) destination absent, its parent missing or a file ⇒ `Err(Other)`, nothing changes —
            any strings, any fuel (`transfer_bad_parent`);
        (c) destination fresh, source absent or a FILE ⇒ `Err(FileNotFound / Other)`, and the
            EMPTY DESTINATION DIRECTORY STAYS BEHIND (copy_dir / move_dir are not atomic) — any
            strings, any fuel (`transfer_src_not_dir`);
        (d) source = destination = one absent path of one filesystem ⇒ `Ok(0)` / `Ok`
            (`copyDir_same_absent`, `moveDir_same_absent`);
        (e) the hypotheses of `C11.copyDir_exact` / `C11.moveDir_exact` ⇒ `Ok`.
      `copyDir_never_panics`, `moveDir_never_panics`: for the canonical destination
      `D = renderC bs`, EVERY state of the destination and EVERY kind of source, with
      `descendants ms S < fuel` (move: also the two length bounds of `moveDir_exact`), the outcome
      is not the sentinel — provided that, when the copy actually runs (`S` a directory), the keys
      at or below `S` are canonical, on one leaf `D` is not at or below `S`, and for move `S ≠ ""`.
   4. the predicates of C13.lean are exactly "sentinel", and are refuted:
        `walkAllOut_panics`, `copyItemsOut_panics`, `childrenOut_panics`, `removeDirAllOut_panics`,
        `copyDirOut_panics` — converses of C13's `*_panic_is_fuel`, on EVERY world and filesystem;
        `fuel_branch_unreachable`, `copyDir_fuel_branch_unreachable` — on memory leaves with
        sufficient fuel `RemoveDirAllOut` / `WalkAllOut` / the witness of `copyDir_panic_is_fuel`
        do not hold: the `0 =>` branch is not reached.
   5. `recursive_ops_terminate`: 1.–3. in one statement.
   6. the divergence that IS real: `copyDir_into_own_subtree_diverges` — copy_dir of a directory
      into its own subtree on one filesystem is out of fuel although the source has 0 descendants
      (kernel-evaluated; C11.lean has more instances). This input violates "D not at or below S",
      is a caller error outside the property, and the real code loops until it fails for another
      reason. It shows that hypothesis cannot be dropped.
   7. non-vacuity: `C05.sampleW` and `C11.wN` (depth 4, empty directory, empty file, siblings
      a / ab / a.b, unsorted storage): every theorem instantiated with its hypotheses discharged
      by `decide`, every case (a)–(e) evaluated by the kernel, the sentinel reached by starving
      the fuel (walk: 6 vs 7; remove_dir_all: 3 vs 4).

  NOT PROVED
   * Other backends (overlay, altroot, physical, embedded) and stacks of them: termination of
     the recursive operations is not proved; C13.lean's "panic ⇒ fuel sentinel" is all there is.
   * copy_dir / move_dir when the copy runs with a non-canonical destination string or
     non-canonical keys below the source (`VfsPath::join` would resolve them; such keys cannot be
     created through `VfsPath`), and move_dir with the ROOT of a filesystem as source.
   * That copy_dir into the own subtree diverges for EVERY fuel (only instances are evaluated).
   * For remove_dir_all the fuel bound is sufficient, not exact (it is stated in key lengths, an
     upper bound of the nesting depth); for the walk the bound is exact.
   * The async iterator (Props/C15) and concurrent mutation during the operation.
-/
import VfsModel.Props.C11Nested
import VfsModel.Props.C05Walk
import VfsModel.Props.C13
namespace Vfs.C13
open Vfs.C05 (walkCollect descCount okItems)
open Vfs.Wk (mk below)
open Vfs.C11 (descendants)

/-! ## 0. vocabulary -/

/-- `p` is a directory of the map -/
def IsDirOf (m : FMap) (p : Str) : Prop := ∃ e, m.find? p = some e ∧ e.ftype = .dir

/-- `p` is a file of the map -/
def IsFileOf (m : FMap) (p : Str) : Prop := ∃ e, m.find? p = some e ∧ e.ftype = .file

/-- every path is absent, a file or a directory -/
theorem path_cases (m : FMap) (p : Str) : m.find? p = none ∨ IsFileOf m p ∨ IsDirOf m p := by
  cases h : m.find? p with
  | none => exact Or.inl rfl
  | some e =>
    cases hf : e.ftype with
    | file => exact Or.inr (Or.inl ⟨e, h, hf⟩)
    | dir => exact Or.inr (Or.inr ⟨e, h, hf⟩)

theorem contains_true {m : FMap} {k : Str} {e : Entry} (h : m.find? k = some e) :
    m.contains k = true := (FMap.contains_iff m k).2 ⟨e, h⟩

theorem contains_false {m : FMap} {k : Str} (h : m.find? k = none) : m.contains k = false := by
  unfold FMap.contains; rw [h]; rfl

/-- the count of C11.lean is the count of C05Walk.lean -/
theorem descendants_eq_descCount (m : FMap) (p : Str) : descendants m p = descCount m p :=
  C11.descendants_eq m p

/-- the length of the longest key, plus one: a fuel that is enough for `remove_dir_all` -/
def keyFuel (m : FMap) : Nat := (m.keys.map List.length).foldr max 0 + 1

theorem keyFuel_bound (m : FMap) : ∀ k e, m.find? k = some e → k.length < keyFuel m := by
  intro k e hk
  have hmem : k ∈ m.keys := (FMap.mem_keys_iff m k).2 ⟨e, hk⟩
  have : ∀ (l : List Str), k ∈ l → k.length ≤ (l.map List.length).foldr max 0 := by
    intro l
    induction l with
    | nil => intro h; cases h
    | cons a rest ih =>
      intro h
      simp only [List.map_cons, List.foldr_cons]
      rcases List.mem_cons.1 h with h | h
      · subst h; exact Nat.le_max_left _ _
      · exact Nat.le_trans (ih h) (Nat.le_max_right _ _)
  have := this m.keys hmem
  unfold keyFuel
  omega

/-! ## 1. `walk_dir` -/

section walk
variable {w : World} {i : Nat} {m : FMap} (h : MemLeafAt w i m) (hwf : WF m)
  (hk : FMap.NodupKeys m) (id : Nat) (p : Str)
include h

/-- what the collected walk returns, by the kind of `p`; the world is never changed -/
theorem walk_outcome (fuel : Nat) :
    (m.find? p = none →
      walkCollect fuel (mk i id p) w = (.err .fileNotFound (some p), w)) ∧
    (IsFileOf m p → walkCollect fuel (mk i id p) w = (.err .other (some p), w)) ∧
    (WF m → FMap.NodupKeys m → IsDirOf m p → descCount m p < fuel →
      ∃ L : List Str, walkCollect fuel (mk i id p) w = (.ok (okItems i id L), w)) := by
  refine ⟨?_, ?_, ?_⟩
  · intro hp
    have := (C05.walk_dir_not_dir h id p (by intro e he; rw [hp] at he; cases he) fuel).2
    rw [this, contains_false hp]; rfl
  · rintro ⟨e, he, hf⟩
    have := (C05.walk_dir_not_dir h id p
      (by intro e' he'; rw [he] at he'; cases he'; rw [hf]; decide) fuel).2
    rw [this, contains_true he]; rfl
  · rintro hwf hk ⟨e, he, hd⟩ hf
    exact C05.walk_terminates h hwf hk id p e he hd fuel hf

include hwf hk

/-- the sentinel is the outcome iff `p` is a directory AND the fuel does not exceed the number
of its descendants: it is reached only by starving the fuel, never by the tree -/
theorem walk_sentinel_iff (fuel : Nat) :
    (walkCollect fuel (mk i id p) w).1 = .panic ↔ IsDirOf m p ∧ fuel ≤ descCount m p := by
  by_cases hd : IsDirOf m p
  · obtain ⟨e, he, hdir⟩ := hd
    rw [C05.walk_panic_iff h hwf hk id p e he hdir fuel]
    exact ⟨fun hle => ⟨⟨e, he, hdir⟩, hle⟩, fun hle => hle.2⟩
  · have := (C05.walk_dir_not_dir h id p
      (by intro e he hdir; exact hd ⟨e, he, hdir⟩) fuel).2
    rw [this]
    constructor
    · intro hpan; cases hpan
    · intro hc; exact absurd hc.1 hd

omit h hk in
/-- the number of descendants of any path is smaller than the number of entries (the root is an
entry and is below nothing) -/
theorem descCount_lt_length_any : descCount m p < m.length := by
  obtain ⟨e, he, _⟩ := hwf.1
  have hroot : ([] : Str) ∈ m.keys := (FMap.mem_keys_iff m []).2 ⟨e, he⟩
  have : (m.keys.filter (below p)).length < m.keys.length :=
    List.length_filter_lt_length_iff_exists.2 ⟨[], hroot, by simp [below]⟩
  simpa [descCount, FMap.keys] using this

/-- **`walk_dir` terminates**: on a memory leaf holding a well-formed map with unique keys, for
EVERY path `p` (directory, file or absent): (1) fuel = number of entries is enough; (2) so is
every fuel above the number of descendants; (3) the sentinel is the outcome iff `p` is a
directory and fuel ≤ #descendants; (4) the walk does not change the world, whatever the fuel -/
theorem walk_never_panics :
    (walkCollect m.length (mk i id p) w).1 ≠ .panic ∧
    (∀ fuel, descCount m p < fuel → (walkCollect fuel (mk i id p) w).1 ≠ .panic) ∧
    (∀ fuel, (walkCollect fuel (mk i id p) w).1 = .panic ↔ IsDirOf m p ∧ fuel ≤ descCount m p) ∧
    (∀ fuel, (walkCollect fuel (mk i id p) w).2 = w) := by
  have h2 : ∀ fuel, descCount m p < fuel → (walkCollect fuel (mk i id p) w).1 ≠ .panic := by
    intro fuel hf hpan
    have := ((walk_sentinel_iff h hwf hk id p fuel).1 hpan).2
    omega
  refine ⟨h2 _ (descCount_lt_length_any hwf p), h2, walk_sentinel_iff h hwf hk id p, ?_⟩
  intro fuel
  exact (C05.walk_observes_only h).2.2.2 fuel (mk i id p) rfl

/-- the iterator level: from the state right after `walk_dir` on a directory, `walkAll` with
enough fuel ends with `.ok` — the iterator is finite -/
theorem walkAll_never_panics (e : Entry) (he : m.find? p = some e) (hd : e.ftype = .dir)
    (fuel : Nat) (hf : descCount m p < fuel) :
    ∃ s, VPath.walkDir (mk i id p) w = (.ok s, w) ∧ (VPath.walkAll fuel s w).1 ≠ .panic := by
  refine ⟨_, Wk.run_walkDir h id p e he hd, ?_⟩
  rw [← C05.walkCollect_eq h id p e he hd fuel]
  exact (walk_never_panics h hwf hk id p).2.1 fuel hf

end walk

/-! ## 2. `remove_dir_all` -/

section remove
variable {w : World} {i : Nat} {m : FMap} (h : MemLeafAt w i m)
include h

/-- an absent path: `Ok`, nothing happens (any fuel but 0) -/
theorem removeDirAll_on_absent (id fuel : Nat) (p : Str) (hp : m.find? p = none) :
    VPath.removeDirAll (fuel + 1) { fs := leafFS i, fsId := id, path := p } w = (.ok (), w) :=
  C11.removeDirAll_absent _ fuel w (by simp [VPath.exists_, run_exists h, contains_false hp])

/-- a FILE: `remove_dir_all` finds that the path exists, lists it, and the listing of a file
fails — the error `Other` with the path filled in; nothing is removed (any fuel but 0) -/
theorem removeDirAll_on_file (id fuel : Nat) (p : Str) (hp : IsFileOf m p) :
    VPath.removeDirAll (fuel + 1) { fs := leafFS i, fsId := id, path := p } w =
      (.err .other (some p), w) := by
  obtain ⟨e, he, hf⟩ := hp
  rw [VPath.removeDirAll.eq_2]
  simp [bind, M.bind, VPath.exists_, run_exists h, contains_true he, VPath.readDir, M.withPath,
    run_readDir h, Mem.readDir, he, hf, fail, Res.withPath]

/-- the ROOT (`p = ""`, which `removeDirAll_exact` excludes): the children go one after the other,
then the model's `MemoryFS::remove_dir("")` finds the root empty and erases its entry too — `Ok`,
and no key is left. Fuel: more than the longest key is long. -/
theorem removeDirAll_on_root (hwf : WF m) (hnd : FMap.NodupKeys m) (id fuel : Nat)
    (hfuel : ∀ k e', m.find? k = some e' → k.length < fuel) :
    ∃ m', VPath.removeDirAll fuel { fs := leafFS i, fsId := id, path := [] } w =
        (.ok (), w.setLeafFiles i m') ∧ ∀ k, m'.find? k = none := by
  obtain ⟨e, he, hd⟩ := hwf.1
  cases fuel with
  | zero => exact absurd (hfuel [] e he) (by simp)
  | succ fuel =>
    obtain ⟨m1, hrun, hwf1, hnd1, hfind⟩ := rc_of_rd i id fuel (rd_all i id fuel) []
      (m.keys.filterMap (childName [])) w m h hwf hnd (filterMap_childName_nodup m [] hnd)
      (fun n hn => (listing_spec m [] n hn).1) (fun n hn => (listing_spec m [] n hn).2)
      (fun k e' hk => by have := hfuel k e' hk; simp only [List.length_nil]; omega)
    have hP1 : m1.find? [] = some e := by
      rw [hfind []]
      have : (m.keys.filterMap (childName [])).any (fun n => under ([] ++ '/' :: n) []) = false := by
        rw [Bool.eq_false_iff]
        intro hany
        rw [List.any_eq_true] at hany
        obtain ⟨n, _, hu⟩ := hany
        exact (under_child [] n [] hu).2 rfl
      rw [this]; exact he
    -- every key but the root lies below a listed child: it is gone
    have hgone : ∀ k, k ≠ [] → m1.find? k = none := by
      intro k hk
      rw [hfind k]
      cases hf : m.find? k with
      | none => split <;> rfl
      | some e' =>
        obtain ⟨t, rfl⟩ := (Wk.below_iff [] k).1 (Wk.below_root hwf k.length k (Nat.le_refl _) ⟨e', hf⟩ hk)
        obtain ⟨n, hn, ⟨en, hen⟩, hun⟩ := hwf.below_via_child [] t e' hf
        have : (m.keys.filterMap (childName [])).any
            (fun n => under ([] ++ '/' :: n) ([] ++ '/' :: t)) = true := by
          rw [List.any_eq_true]
          exact ⟨n, mem_listing m [] n hn en hen, hun⟩
        rw [this]; rfl
    have hempty : m1.keys.filterMap (childName []) = [] := by
      apply List.eq_nil_iff_forall_not_mem.2
      intro n hn
      obtain ⟨_, e', he'⟩ := listing_spec m1 [] n hn
      rw [hgone _ (by simp)] at he'
      cases he'
    have hrd : Mem.removeDir m1 [] = (.ok (), m1.erase []) := by
      simp [Mem.removeDir, Mem.readDir_dir m1 [] e hP1 hd, hempty, contains_true hP1]
    refine ⟨m1.erase [], ?_, ?_⟩
    · rw [VPath.removeDirAll.eq_2]
      have hl : (List.map (fun n => VPath.withStr { fs := leafFS i, fsId := id, path := [] } ([] ++ '/' :: n))
          (m.keys.filterMap (childName []))) =
          (List.map (fun n => ({ fs := leafFS i, fsId := id, path := [] ++ '/' :: n } : VPath))
          (m.keys.filterMap (childName []))) := rfl
      simp only [bind, M.bind, VPath.exists_, run_exists h, contains_true he, Bool.not_true,
        Bool.false_eq_true, ↓reduceIte, VPath.readDir, M.withPath, run_readDir h,
        Mem.readDir_dir m [] e he hd, Res.withPath, pure, M.pure, hl, hrun,
        run_pRemoveDir (h.set m1), Mem.pRemoveDir, hrd, World.setLeafFiles_twice]
    · intro k
      rw [FMap.find?_erase]
      by_cases hk : k = []
      · rw [if_pos hk]
      · rw [if_neg hk]; exact hgone k hk

/-- what `remove_dir_all` returns, by the kind of `p` — ANY path string, the root included.
Fuel: at least 1, and more than the length difference between `p` and the longest key (the
bound of `C11.removeDirAll_exact`; it bounds the nesting depth below `p`). -/
theorem removeDirAll_outcome (hwf : WF m) (hnd : FMap.NodupKeys m) (id fuel : Nat) (p : Str)
    (hf0 : 0 < fuel) (hfuel : ∀ k e', m.find? k = some e' → k.length < p.length + fuel) :
    (m.find? p = none →
      VPath.removeDirAll fuel { fs := leafFS i, fsId := id, path := p } w = (.ok (), w)) ∧
    (IsFileOf m p →
      VPath.removeDirAll fuel { fs := leafFS i, fsId := id, path := p } w =
        (.err .other (some p), w)) ∧
    (IsDirOf m p →
      ∃ m', VPath.removeDirAll fuel { fs := leafFS i, fsId := id, path := p } w =
          (.ok (), w.setLeafFiles i m') ∧
        ∀ k, m'.find? k = if under p k then none else m.find? k) := by
  obtain ⟨f, rfl⟩ : ∃ f, fuel = f + 1 := ⟨fuel - 1, by omega⟩
  refine ⟨removeDirAll_on_absent h id f p, removeDirAll_on_file h id f p, ?_⟩
  rintro ⟨e, he, hd⟩
  by_cases hp : p = []
  · subst hp
    obtain ⟨m', hrun, hnone⟩ := removeDirAll_on_root h hwf hnd id (f + 1)
      (fun k e' hk => by have := hfuel k e' hk; simpa using this)
    refine ⟨m', hrun, fun k => ?_⟩
    rw [hnone k]
    split
    · rfl
    · rename_i hu
      cases hf : m.find? k with
      | none => rfl
      | some e' =>
        exfalso
        apply hu
        by_cases hk : k = []
        · subst hk; exact under_self _
        · obtain ⟨t, rfl⟩ := (Wk.below_iff [] k).1
            (Wk.below_root hwf k.length k (Nat.le_refl _) ⟨e', hf⟩ hk)
          exact (under_iff [] _).2 (Or.inr ⟨t, rfl⟩)
  · obtain ⟨m', hrun, _, _, hfind⟩ :=
      C11.removeDirAll_exact h hwf hnd id (f + 1) p e hp he hd hfuel
    exact ⟨m', hrun, hfind⟩

/-- **`remove_dir_all` terminates**: on a memory leaf holding a well-formed map with unique keys,
for EVERY path `p` (absent, file, directory, root), with fuel ≥ 1 exceeding the length difference
between `p` and the longest key, the outcome is not the sentinel -/
theorem removeDirAll_never_panics (hwf : WF m) (hnd : FMap.NodupKeys m) (id fuel : Nat) (p : Str)
    (hf0 : 0 < fuel) (hfuel : ∀ k e', m.find? k = some e' → k.length < p.length + fuel) :
    (VPath.removeDirAll fuel { fs := leafFS i, fsId := id, path := p } w).1 ≠ .panic := by
  obtain ⟨h1, h2, h3⟩ := removeDirAll_outcome h hwf hnd id fuel p hf0 hfuel
  rcases path_cases m p with hp | hp | hp
  · rw [h1 hp]; intro hc; cases hc
  · rw [h2 hp]; intro hc; cases hc
  · obtain ⟨m', hrun, _⟩ := h3 hp
    rw [hrun]; intro hc; cases hc

/-- the plain bound: more fuel than the longest key is long -/
theorem removeDirAll_never_panics_fuel (hwf : WF m) (hnd : FMap.NodupKeys m) (id fuel : Nat)
    (p : Str) (hfuel : ∀ k e', m.find? k = some e' → k.length < fuel) :
    (VPath.removeDirAll fuel { fs := leafFS i, fsId := id, path := p } w).1 ≠ .panic := by
  obtain ⟨e, he, _⟩ := hwf.1
  exact removeDirAll_never_panics h hwf hnd id fuel p
    (by have := hfuel [] e he; simp only [List.length_nil] at this; exact this)
    (fun k e' hk => by have := hfuel k e' hk; omega)

/-- an explicit fuel computed from the map: `keyFuel m` = longest key length + 1 -/
theorem removeDirAll_never_panics_keyFuel (hwf : WF m) (hnd : FMap.NodupKeys m) (id : Nat)
    (p : Str) :
    (VPath.removeDirAll (keyFuel m) { fs := leafFS i, fsId := id, path := p } w).1 ≠ .panic :=
  removeDirAll_never_panics_fuel h hwf hnd id (keyFuel m) p (keyFuel_bound m)

end remove

/-! ## 3. `copy_dir` / `move_dir` -/

/-- `create_dir` on an absent path that is not a fresh destination (no parent part, parent
missing, or parent a file) fails and changes nothing -/
theorem pCreateDir_not_fresh (md : FMap) (D : Str) (habs : md.find? D = none)
    (hnf : ¬ FreshDest md D) : Mem.pCreateDir md D = (.err .other (some D), md) := by
  unfold Mem.pCreateDir
  by_cases hpo : Mem.parentOk md D = true
  · rw [if_pos hpo]
    have hns : '/' ∉ D := fun hs => hnf ⟨habs, hs, Mem.parentOk_spec md D hpo⟩
    simp [Mem.createDir, Mem.ensureHasParent, hns, fail, Res.withPath]
  · rw [if_neg hpo]

section transfer
variable {w : World} {i j : Nat} {ms md : FMap} (hi : MemLeafAt w i ms) (hj : MemLeafAt w j md)
  (sid did fuel : Nat) (S D : Str)
include hi hj

omit hi in
/-- the world after `create_dir` of a fresh destination -/
theorem run_createDir_fresh (hfresh : FreshDest md D) :
    VPath.createDir { fs := leafFS j, fsId := did, path := D } w =
      (.ok (), w.setLeafFiles j (md.insert D dirEntryNow)) := by
  rw [run_pCreateDir hj, hfresh.pCreateDir]

omit hi in
/-- the source leaf after `create_dir` of the destination -/
theorem srcLeaf_after (hi' : MemLeafAt w i ms) :
    ∃ m1, MemLeafAt (w.setLeafFiles j (md.insert D dirEntryNow)) i m1 ∧
      ∀ k, m1.find? k = if i = j ∧ k = D then some dirEntryNow else ms.find? k := by
  by_cases hij : i = j
  · subst hij
    have := hi'.unique hj; subst this
    refine ⟨_, hj.set _, fun k => ?_⟩
    rw [FMap.find?_insert]
    by_cases hk : k = D <;> simp [hk]
  · exact ⟨ms, hi'.set_ne (fun e => hij e.symm) _, fun k => by simp [hij]⟩

omit hi in
/-- the walk-and-copy body, destination absent but NOT a fresh destination: `create_dir` fails,
nothing changes -/
theorem copyDirBody_bad_parent (habs : md.find? D = none) (hnf : ¬ FreshDest md D) :
    VPath.copyDirBody fuel { fs := leafFS i, fsId := sid, path := S }
      { fs := leafFS j, fsId := did, path := D } w = (.err .other (some D), w) := by
  unfold VPath.copyDirBody
  simp only [bind, M.bind, run_pCreateDir hj, pCreateDir_not_fresh md D habs hnf, hj.same]

/-- fresh destination, the source is NOT a directory (absent or a file) and is not the
destination path itself: the destination directory is created, then `walk_dir` fails — an error,
and the empty destination directory stays behind -/
theorem copyDirBody_src_not_dir (hfresh : FreshDest md D) (hsrc : ¬ IsDirOf ms S)
    (hne : ¬ (i = j ∧ S = D)) :
    VPath.copyDirBody fuel { fs := leafFS i, fsId := sid, path := S }
      { fs := leafFS j, fsId := did, path := D } w =
      (.err (if ms.contains S then .other else .fileNotFound) (some S),
        w.setLeafFiles j (md.insert D dirEntryNow)) := by
  obtain ⟨m1, hm1, hfind⟩ := srcLeaf_after hj D hi
  have hS : m1.find? S = ms.find? S := by
    rw [hfind S, if_neg hne]
  have hfail := Wk.run_walkDir_fail hm1 sid S (by
    intro e he hd
    rw [hS] at he
    exact hsrc ⟨e, he, hd⟩)
  have hc : m1.contains S = ms.contains S := by unfold FMap.contains; rw [hS]
  unfold VPath.copyDirBody
  simp only [bind, M.bind, run_createDir_fresh hj did D hfresh]
  have : ({ fs := leafFS i, fsId := sid, path := S } : VPath) = mk i sid S := rfl
  rw [this, hfail, hc]

omit hi in
/-- the corner left: source and destination are the SAME absent path of one filesystem. The
destination directory is created, is then walked as the source, is empty: `Ok(0)` -/
theorem copyDirBody_same_absent (hwfd : WF md) (hfresh : FreshDest md D) (hij : i = j) :
    VPath.copyDirBody (fuel + 1) { fs := leafFS i, fsId := sid, path := D }
      { fs := leafFS j, fsId := did, path := D } w =
      (.ok 0, w.setLeafFiles j (md.insert D dirEntryNow)) := by
  subst hij
  have hm1 : MemLeafAt (w.setLeafFiles i (md.insert D dirEntryNow)) i (md.insert D dirEntryNow) :=
    hj.set _
  have hempty : (md.insert D dirEntryNow).keys.filterMap (childName D) = [] := by
    apply List.eq_nil_iff_forall_not_mem.2
    intro n hn
    obtain ⟨_, e', he'⟩ := listing_spec _ D n hn
    rw [FMap.find?_insert, if_neg (by
      intro hc
      have := congrArg List.length hc
      simp at this), hfresh.child_absent hwfd n] at he'
    cases he'
  have hwalk := Wk.run_walkDir hm1 sid D dirEntryNow (by simp) rfl
  unfold Wk.children at hwalk
  rw [hempty] at hwalk
  unfold VPath.copyDirBody
  simp only [bind, M.bind, run_createDir_fresh hj did D hfresh]
  have : ({ fs := leafFS i, fsId := sid, path := D } : VPath) = mk i sid D := rfl
  rw [this, hwalk]
  exact copyItems_done fuel _ _ 0 _

end transfer

section outcomes
variable {w : World} {i j : Nat} {ms md : FMap} (hi : MemLeafAt w i ms) (hj : MemLeafAt w j md)
  (sid did fuel : Nat) (S D : Str)
include hi hj

omit hi in
theorem dst_exists_eq :
    VPath.exists_ { fs := leafFS j, fsId := did, path := D } w = (.ok (md.contains D), w) := by
  simp [VPath.exists_, run_exists hj]

/-- `move_dir` on memory leaves takes the generic route (MemoryFS answers NotSupported to the
fast path) -/
theorem moveDir_route_mem (habs : md.find? D = none) :
    VPath.moveDir fuel { fs := leafFS i, fsId := sid, path := S }
      { fs := leafFS j, fsId := did, path := D } w =
    M.withPath S (M.bind (VPath.copyDirBody fuel { fs := leafFS i, fsId := sid, path := S }
        { fs := leafFS j, fsId := did, path := D })
      (fun _ => VPath.removeDirAll fuel { fs := leafFS i, fsId := sid, path := S })) w := by
  rw [moveDir_route fuel _ _ w (by rw [dst_exists_eq hj, contains_false habs])
    (fun _ => ⟨none, run_moveDir_mem hi S D⟩), moveDirBody_eq]

omit hi in
/-- (a) the destination EXISTS (file or directory): refused, nothing changes -/
theorem transfer_dest_exists (hex : md.contains D = true) :
    VPath.copyDir fuel { fs := leafFS i, fsId := sid, path := S }
      { fs := leafFS j, fsId := did, path := D } w = (.err .other (some S), w) ∧
    VPath.moveDir fuel { fs := leafFS i, fsId := sid, path := S }
      { fs := leafFS j, fsId := did, path := D } w = (.err .other (some S), w) := by
  have := C11.existing_destination_refused { fs := leafFS i, fsId := sid, path := S }
    { fs := leafFS j, fsId := did, path := D } fuel w (by rw [dst_exists_eq hj, hex])
  exact ⟨this.2.2.1, this.2.2.2⟩

/-- (b) the destination is absent and its parent is missing or a file: `create_dir` fails,
nothing changes -/
theorem transfer_bad_parent (habs : md.find? D = none) (hnf : ¬ FreshDest md D) :
    VPath.copyDir fuel { fs := leafFS i, fsId := sid, path := S }
      { fs := leafFS j, fsId := did, path := D } w = (.err .other (some S), w) ∧
    VPath.moveDir fuel { fs := leafFS i, fsId := sid, path := S }
      { fs := leafFS j, fsId := did, path := D } w = (.err .other (some S), w) := by
  constructor
  · rw [copyDir_route _ _ _ w (by rw [dst_exists_eq hj, contains_false habs])]
    simp only [M.withPath, copyDirBody_bad_parent hj sid did fuel S D habs hnf, Res.withPath]
  · rw [moveDir_route_mem hi hj sid did fuel S D habs]
    simp only [M.withPath, M.bind, copyDirBody_bad_parent hj sid did fuel S D habs hnf,
      Res.withPath]

/-- (c) fresh destination, the source is absent or a file (and not the destination path itself):
an error — `FileNotFound` / `Other` with the source path — and the EMPTY DESTINATION DIRECTORY
STAYS BEHIND (copy_dir / move_dir are not atomic) -/
theorem transfer_src_not_dir (hfresh : FreshDest md D) (hsrc : ¬ IsDirOf ms S)
    (hne : ¬ (i = j ∧ S = D)) :
    VPath.copyDir fuel { fs := leafFS i, fsId := sid, path := S }
      { fs := leafFS j, fsId := did, path := D } w =
      (.err (if ms.contains S then .other else .fileNotFound) (some S),
        w.setLeafFiles j (md.insert D dirEntryNow)) ∧
    VPath.moveDir fuel { fs := leafFS i, fsId := sid, path := S }
      { fs := leafFS j, fsId := did, path := D } w =
      (.err (if ms.contains S then .other else .fileNotFound) (some S),
        w.setLeafFiles j (md.insert D dirEntryNow)) := by
  constructor
  · rw [copyDir_route _ _ _ w (by rw [dst_exists_eq hj, contains_false hfresh.absent])]
    simp only [M.withPath, copyDirBody_src_not_dir hi hj sid did fuel S D hfresh hsrc hne,
      Res.withPath]
  · rw [moveDir_route_mem hi hj sid did fuel S D hfresh.absent]
    simp only [M.withPath, M.bind, copyDirBody_src_not_dir hi hj sid did fuel S D hfresh hsrc hne,
      Res.withPath]

omit hi in
/-- (d) the corner: source = destination = one absent path of one filesystem: `copy_dir` creates
it, walks it, finds it empty: `Ok(0)`, the new empty directory stays -/
theorem copyDir_same_absent (hwfd : WF md) (hfresh : FreshDest md D) (hij : i = j) :
    VPath.copyDir (fuel + 1) { fs := leafFS i, fsId := sid, path := D }
      { fs := leafFS j, fsId := did, path := D } w =
      (.ok 0, w.setLeafFiles j (md.insert D dirEntryNow)) := by
  rw [copyDir_route _ _ _ w (by rw [dst_exists_eq hj, contains_false hfresh.absent])]
  simp only [M.withPath, copyDirBody_same_absent hj sid did fuel D hwfd hfresh hij, Res.withPath]

end outcomes

section main
variable {w : World} {i j : Nat} {ms md : FMap} (hi : MemLeafAt w i ms) (hj : MemLeafAt w j md)
  (hwfs : WF ms) (hwfd : WF md) (hnd : FMap.NodupKeys ms) (sid did fuel : Nat) (S : Str)
include hi hj hwfs hwfd hnd

/-- (d') the corner for `move_dir`: source = destination = one absent path of one filesystem:
the directory is created, walked (empty), and removed again: `Ok` -/
theorem moveDir_same_absent (D : Str) (hfresh : FreshDest md D) (hij : i = j) (hf0 : 0 < fuel)
    (hb1 : ∀ k e, ms.find? k = some e → k.length < D.length + fuel) :
    ∃ w', VPath.moveDir fuel { fs := leafFS i, fsId := sid, path := D }
      { fs := leafFS j, fsId := did, path := D } w = (.ok (), w') := by
  obtain ⟨f, rfl⟩ : ∃ f, fuel = f + 1 := ⟨fuel - 1, by omega⟩
  rw [moveDir_route_mem hi hj sid did (f + 1) D D hfresh.absent]
  subst hij
  have := hi.unique hj; subst this
  have hm1 : MemLeafAt (w.setLeafFiles i (ms.insert D dirEntryNow)) i (ms.insert D dirEntryNow) :=
    hj.set _
  have hwf1 : WF (ms.insert D dirEntryNow) := by
    have := hwfs.pCreateDir D
    rwa [hfresh.pCreateDir] at this
  obtain ⟨m', hrun, _⟩ := (removeDirAll_outcome hm1 hwf1 (FMap.nodup_insert _ _ _ hnd) sid (f + 1) D
    (by omega) (fun k e' hk => by
      rw [FMap.find?_insert] at hk
      by_cases hkd : k = D
      · subst hkd; omega
      · rw [if_neg hkd] at hk; exact hb1 k e' hk)).2.2 ⟨dirEntryNow, by simp, rfl⟩
  refine ⟨(w.setLeafFiles i (ms.insert D dirEntryNow)).setLeafFiles i m', ?_⟩
  simp only [M.withPath, M.bind, copyDirBody_same_absent hj sid did f D hwfs hfresh rfl, hrun,
    Res.withPath]

/-- **`copy_dir`, every case.** Memory leaves `i` (source map `ms`) and `j` (destination map
`md`), equal or not; `S` ANY source path string, `D` the destination.
 (a) `D` exists ⇒ `Err(Other)`, nothing changes — any `D`, any fuel (0 included);
 (b) `D` absent, parent missing or a file ⇒ `Err(Other)`, nothing changes — any `D`, any fuel;
 (c) `D` fresh, `S` absent or a file, not `S = D` on one leaf ⇒ `Err`, the empty directory `D`
     stays behind — any `D`, any fuel;
 (d) `D` fresh, `S = D` on one leaf ⇒ `Ok(0)` (fuel ≥ 1);
 (e) `D = renderC bs` canonical and fresh, `S` a directory whose subtree has canonical keys, on one
     leaf `D` not at or below `S`, `descendants ms S < fuel` ⇒ `Ok(descendants ms S)`
     (`C11.copyDir_exact` says what the maps are).
 Not covered: on one leaf `D` fresh and strictly below the directory `S` (the real divergence,
 §5); non-canonical `D` or non-canonical keys below `S` when the copy actually runs. -/
theorem copyDir_outcome (D : Str) :
    (md.contains D = true →
      VPath.copyDir fuel { fs := leafFS i, fsId := sid, path := S }
        { fs := leafFS j, fsId := did, path := D } w = (.err .other (some S), w)) ∧
    (md.find? D = none → ¬ FreshDest md D →
      VPath.copyDir fuel { fs := leafFS i, fsId := sid, path := S }
        { fs := leafFS j, fsId := did, path := D } w = (.err .other (some S), w)) ∧
    (FreshDest md D → ¬ IsDirOf ms S → ¬ (i = j ∧ S = D) →
      VPath.copyDir fuel { fs := leafFS i, fsId := sid, path := S }
        { fs := leafFS j, fsId := did, path := D } w =
        (.err (if ms.contains S then .other else .fileNotFound) (some S),
          w.setLeafFiles j (md.insert D dirEntryNow))) ∧
    (FreshDest md D → i = j → S = D → 0 < fuel →
      VPath.copyDir fuel { fs := leafFS i, fsId := sid, path := S }
        { fs := leafFS j, fsId := did, path := D } w =
        (.ok 0, w.setLeafFiles j (md.insert D dirEntryNow))) ∧
    (∀ bs : List Str, D = renderC bs → (∀ c ∈ bs, GoodComp c) → FreshDest md D → IsDirOf ms S →
      (∀ k e, ms.find? k = some e → under S k = true → Canon k) →
      (i = j → under S D = false) → descendants ms S < fuel →
      ∃ w', VPath.copyDir fuel { fs := leafFS i, fsId := sid, path := S }
        { fs := leafFS j, fsId := did, path := D } w = (.ok (descendants ms S), w')) := by
  refine ⟨fun hex => (transfer_dest_exists hj sid did fuel S D hex).1,
    fun habs hnf => (transfer_bad_parent hi hj sid did fuel S D habs hnf).1,
    fun hfresh hsrc hne => (transfer_src_not_dir hi hj sid did fuel S D hfresh hsrc hne).1, ?_, ?_⟩
  · intro hfresh hij hSD hf0
    obtain ⟨f, rfl⟩ : ∃ f, fuel = f + 1 := ⟨fuel - 1, by omega⟩
    subst hSD
    exact copyDir_same_absent hj sid did f S hwfd hfresh hij
  · rintro bs rfl hbs hfresh hdir hcanon hout hfuel
    obtain ⟨w', _, _, hrun, _⟩ := C11.copyDir_exact hi hj hwfs hwfd hnd sid did fuel S bs hbs hdir
      hcanon hfresh hout hfuel
    exact ⟨w', hrun⟩

/-- **`copy_dir` terminates.** For EVERY state of the destination `D = renderC bs` (exists /
absent with a bad parent / fresh) and EVERY kind of source `S` (absent / file / directory): with
`descendants ms S < fuel` the outcome is not the sentinel — provided that, when the copy actually
runs (`S` a directory), the keys below `S` are canonical and on one leaf `D` is not at or below
`S`. -/
theorem copyDir_never_panics (bs : List Str) (hbs : ∀ c ∈ bs, GoodComp c)
    (hsrc : IsDirOf ms S → (∀ k e, ms.find? k = some e → under S k = true → Canon k) ∧
      (i = j → under S (renderC bs) = false))
    (hfuel : descendants ms S < fuel) :
    (VPath.copyDir fuel { fs := leafFS i, fsId := sid, path := S }
      { fs := leafFS j, fsId := did, path := renderC bs } w).1 ≠ .panic := by
  obtain ⟨ha, hb, hc, hd, he⟩ := copyDir_outcome hi hj hwfs hwfd hnd sid did fuel S (renderC bs)
  cases hD : md.find? (renderC bs) with
  | some e => rw [ha (contains_true hD)]; intro h; cases h
  | none =>
    by_cases hfresh : FreshDest md (renderC bs)
    · by_cases hdir : IsDirOf ms S
      · obtain ⟨w', hrun⟩ := he bs rfl hbs hfresh hdir (hsrc hdir).1 (hsrc hdir).2 hfuel
        rw [hrun]; intro h; cases h
      · by_cases hne : i = j ∧ S = renderC bs
        · rw [hd hfresh hne.1 hne.2 (by omega)]; intro h; cases h
        · rw [hc hfresh hdir hne]; intro h; cases h
    · rw [hb hD hfresh]; intro h; cases h

/-- **`move_dir`, every case** — as `copyDir_outcome`; in (e) additionally `S ≠ ""` and the two
length bounds of `C11.moveDir_exact` (fuel is also the recursion depth of `remove_dir_all`).
Not covered beyond what `copyDir_outcome` leaves out: the ROOT of a filesystem as the source. -/
theorem moveDir_outcome (D : Str) :
    (md.contains D = true →
      VPath.moveDir fuel { fs := leafFS i, fsId := sid, path := S }
        { fs := leafFS j, fsId := did, path := D } w = (.err .other (some S), w)) ∧
    (md.find? D = none → ¬ FreshDest md D →
      VPath.moveDir fuel { fs := leafFS i, fsId := sid, path := S }
        { fs := leafFS j, fsId := did, path := D } w = (.err .other (some S), w)) ∧
    (FreshDest md D → ¬ IsDirOf ms S → ¬ (i = j ∧ S = D) →
      VPath.moveDir fuel { fs := leafFS i, fsId := sid, path := S }
        { fs := leafFS j, fsId := did, path := D } w =
        (.err (if ms.contains S then .other else .fileNotFound) (some S),
          w.setLeafFiles j (md.insert D dirEntryNow))) ∧
    (FreshDest md D → i = j → S = D → 0 < fuel →
      (∀ k e, ms.find? k = some e → k.length < S.length + fuel) →
      ∃ w', VPath.moveDir fuel { fs := leafFS i, fsId := sid, path := S }
        { fs := leafFS j, fsId := did, path := D } w = (.ok (), w')) ∧
    (∀ bs : List Str, D = renderC bs → (∀ c ∈ bs, GoodComp c) → FreshDest md D → IsDirOf ms S →
      S ≠ [] → (∀ k e, ms.find? k = some e → under S k = true → Canon k) →
      (i = j → under S D = false) → descendants ms S < fuel →
      (∀ k e, ms.find? k = some e → k.length < S.length + fuel) →
      (i = j → ∀ k e, ms.find? k = some e → under S k = true →
        D.length + k.length < 2 * S.length + fuel) →
      ∃ w', VPath.moveDir fuel { fs := leafFS i, fsId := sid, path := S }
        { fs := leafFS j, fsId := did, path := D } w = (.ok (), w')) := by
  refine ⟨fun hex => (transfer_dest_exists hj sid did fuel S D hex).2,
    fun habs hnf => (transfer_bad_parent hi hj sid did fuel S D habs hnf).2,
    fun hfresh hsrc hne => (transfer_src_not_dir hi hj sid did fuel S D hfresh hsrc hne).2, ?_, ?_⟩
  · intro hfresh hij hSD hf0 hb1
    subst hSD
    exact moveDir_same_absent hi hj hwfs hwfd hnd sid did fuel S hfresh hij hf0 hb1
  · rintro bs rfl hbs hfresh hdir hS hcanon hout hfuel hb1 hb2
    obtain ⟨w', _, _, hrun, _⟩ := C11.moveDir_exact hi hj hwfs hwfd hnd sid did fuel S bs hS hbs
      hdir hcanon hfresh hout hfuel hb1 hb2
    exact ⟨w', hrun⟩

/-- **`move_dir` terminates** — for every state of the destination and every kind of source, under
the fuel bounds of `C11.moveDir_exact`; when the move actually runs (`S` a directory): `S ≠ ""`,
canonical keys below `S`, on one leaf `D` not at or below `S`. -/
theorem moveDir_never_panics (bs : List Str) (hbs : ∀ c ∈ bs, GoodComp c)
    (hsrc : IsDirOf ms S → S ≠ [] ∧
      (∀ k e, ms.find? k = some e → under S k = true → Canon k) ∧
      (i = j → under S (renderC bs) = false) ∧
      (i = j → ∀ k e, ms.find? k = some e → under S k = true →
        (renderC bs).length + k.length < 2 * S.length + fuel))
    (hfuel : descendants ms S < fuel)
    (hb1 : ∀ k e, ms.find? k = some e → k.length < S.length + fuel) :
    (VPath.moveDir fuel { fs := leafFS i, fsId := sid, path := S }
      { fs := leafFS j, fsId := did, path := renderC bs } w).1 ≠ .panic := by
  obtain ⟨ha, hb, hc, hd, he⟩ := moveDir_outcome hi hj hwfs hwfd hnd sid did fuel S (renderC bs)
  cases hD : md.find? (renderC bs) with
  | some e => rw [ha (contains_true hD)]; intro h; cases h
  | none =>
    by_cases hfresh : FreshDest md (renderC bs)
    · by_cases hdir : IsDirOf ms S
      · obtain ⟨h1, h2, h3, h4⟩ := hsrc hdir
        obtain ⟨w', hrun⟩ := he bs rfl hbs hfresh hdir h1 h2 h3 hfuel hb1 h4
        rw [hrun]; intro h; cases h
      · by_cases hne : i = j ∧ S = renderC bs
        · obtain ⟨w', hrun⟩ := hd hfresh hne.1 hne.2 (by omega) hb1
          rw [hrun]; intro h; cases h
        · rw [hc hfresh hdir hne]; intro h; cases h
    · rw [hb hD hfresh]; intro h; cases h

end main

/-! ## 4. closing the gap of C13.lean

C13.lean proves, for every filesystem whose methods do not panic: a `.panic` of the recursive
operations implies the predicate `RemoveDirAllOut` / `WalkAllOut` / `CopyItemsOut` ("the run
follows successful steps down to the `0 =>` branch"). The converses hold on EVERY world, so these
predicates say exactly "the outcome is the sentinel"; on in-memory filesystems they are refuted
by the theorems above: the `0 =>` branch is unreachable with sufficient fuel. -/

theorem walkAllOut_panics : ∀ (fuel : Nat) (s : VPath.Walk) (w : World),
    VPath.WalkAllOut fuel s w → (VPath.walkAll fuel s w).1 = .panic
  | 0, s, w, _ => by unfold VPath.walkAll; rfl
  | fuel + 1, s, w, hout => by
    unfold VPath.WalkAllOut at hout
    obtain ⟨it, s', w', hn, hout'⟩ := hout
    have ih := walkAllOut_panics fuel s' w' hout'
    rw [VPath.walkAll]
    simp only [bind, M.bind, hn]
    rcases hr : VPath.walkAll fuel s' w' with ⟨r, w''⟩
    rw [hr] at ih
    simp only at ih
    subst ih
    rfl

theorem copyItemsOut_panics (src dst : VPath) : ∀ (fuel : Nat) (s : VPath.Walk) (count : Nat)
    (w : World), VPath.CopyItemsOut src dst fuel s w →
      (VPath.copyItems fuel src dst s count w).1 = .panic
  | 0, s, count, w, _ => by unfold VPath.copyItems; rfl
  | fuel + 1, s, count, w, hout => by
    unfold VPath.CopyItemsOut at hout
    obtain ⟨x, s', w1, d, md, w2, w3, hn, hrel, hmd, hstep, hout'⟩ := hout
    have ih := copyItemsOut_panics src dst fuel s' (count + 1) w3 hout'
    rw [VPath.copyItems]
    rcases hstep with ⟨hft, hcd⟩ | ⟨hft, hcf⟩
    · simp only [bind, M.bind, hn, hrel, M.ret, hmd, hft, hcd]
      rcases hr : VPath.copyItems fuel src dst s' (count + 1) w3 with ⟨r, w''⟩
      rw [hr] at ih
      simp only at ih
      subst ih
      rfl
    · simp only [bind, M.bind, hn, hrel, M.ret, hmd, hft, hcf]
      rcases hr : VPath.copyItems fuel src dst s' (count + 1) w3 with ⟨r, w''⟩
      rw [hr] at ih
      simp only at ih
      subst ih
      rfl

theorem childrenOut_panics (fuel : Nat)
    (hrec : ∀ (c : VPath) (w : World), VPath.RemoveDirAllOut fuel c w →
      (VPath.removeDirAll fuel c w).1 = .panic) :
    ∀ (cs : List VPath) (w : World),
      VPath.ChildrenOut (VPath.removeDirAll fuel) (VPath.RemoveDirAllOut fuel) cs w →
      (VPath.removeChildren fuel cs w).1 = .panic
  | [], w, hout => by unfold VPath.ChildrenOut at hout; exact hout.elim
  | c :: rest, w, hout => by
    unfold VPath.ChildrenOut at hout
    obtain ⟨md, w1, hmd, hcase⟩ := hout
    rw [VPath.removeChildren]
    rcases hcase with ⟨hft, hR⟩ | ⟨hft, w2, hact, hrest⟩ | ⟨hft, w2, hrm, hrest⟩
    · have := hrec c w1 hR
      simp only [bind, M.bind, hmd, hft]
      rcases hr : VPath.removeDirAll fuel c w1 with ⟨r, w''⟩
      rw [hr] at this
      simp only at this
      subst this
      rfl
    · have ih := childrenOut_panics fuel hrec rest w2 hrest
      simp only [bind, M.bind, hmd, hft, hact]
      exact ih
    · have ih := childrenOut_panics fuel hrec rest w2 hrest
      simp only [bind, M.bind, hmd, hft, hrm]
      exact ih

theorem removeDirAllOut_panics : ∀ (fuel : Nat) (p : VPath) (w : World),
    VPath.RemoveDirAllOut fuel p w → (VPath.removeDirAll fuel p w).1 = .panic
  | 0, p, w, _ => by unfold VPath.removeDirAll; rfl
  | fuel + 1, p, w, hout => by
    unfold VPath.RemoveDirAllOut at hout
    obtain ⟨w1, children, w2, hex, hrd, hch⟩ := hout
    have := childrenOut_panics fuel (removeDirAllOut_panics fuel) children w2 hch
    rw [VPath.removeDirAll]
    simp only [bind, M.bind, hex, Bool.not_true, Bool.false_eq_true, ↓reduceIte, hrd]
    rcases hr : VPath.removeChildren fuel children w2 with ⟨r, w''⟩
    rw [hr] at this
    simp only at this
    subst this
    rfl

/-- the witness `C13.copyDir_panic_is_fuel` extracts from a `.panic` of `copy_dir` does make
`copy_dir` return the sentinel (every world, every filesystem) -/
theorem copyDirOut_panics (fuel : Nat) (src dst : VPath) (w : World)
    (hout : ∃ w1 w2 s w3, dst.exists_ w = (.ok false, w1) ∧ dst.createDir w1 = (.ok (), w2) ∧
      src.walkDir w2 = (.ok s, w3) ∧ VPath.CopyItemsOut src dst fuel s w3) :
    (src.copyDir fuel dst w).1 = .panic := by
  obtain ⟨w1, w2, s, w3, hex, hcd, hwd, hout'⟩ := hout
  have := copyItemsOut_panics src dst fuel s 0 w3 hout'
  unfold VPath.copyDir
  simp only [M.withPath, bind, M.bind, hex, Bool.false_eq_true, ↓reduceIte, hcd, hwd]
  rcases hr : VPath.copyItems fuel src dst s 0 w3 with ⟨r, w''⟩
  rw [hr] at this
  simp only at this
  subst this
  rfl

/-- **the `0 =>` branch is unreachable** on an in-memory filesystem with sufficient fuel: the
predicates that C13.lean derives from a `.panic` are all refuted -/
theorem fuel_branch_unreachable {w : World} {i : Nat} {m : FMap} (h : MemLeafAt w i m) (hwf : WF m)
    (hk : FMap.NodupKeys m) (id : Nat) (p : Str) :
    (∀ fuel, 0 < fuel → (∀ k e', m.find? k = some e' → k.length < p.length + fuel) →
      ¬ VPath.RemoveDirAllOut fuel { fs := leafFS i, fsId := id, path := p } w) ∧
    (∀ e, m.find? p = some e → e.ftype = .dir → ∀ fuel, descCount m p < fuel →
      ¬ VPath.WalkAllOut fuel (Wk.st i id (Wk.children m p) []) w) := by
  constructor
  · intro fuel hf0 hfuel hout
    exact removeDirAll_never_panics h hwf hk id fuel p hf0 hfuel (removeDirAllOut_panics _ _ _ hout)
  · intro e he hd fuel hf hout
    have := walkAllOut_panics _ _ _ hout
    rw [← C05.walkCollect_eq h id p e he hd fuel] at this
    exact (walk_never_panics h hwf hk id p).2.1 fuel hf this

/-- the same for `copy_dir` between memory leaves, under the hypotheses of
`copyDir_never_panics` -/
theorem copyDir_fuel_branch_unreachable {w : World} {i j : Nat} {ms md : FMap}
    (hi : MemLeafAt w i ms) (hj : MemLeafAt w j md) (hwfs : WF ms) (hwfd : WF md)
    (hnd : FMap.NodupKeys ms) (sid did fuel : Nat) (S : Str) (bs : List Str)
    (hbs : ∀ c ∈ bs, GoodComp c)
    (hsrc : IsDirOf ms S → (∀ k e, ms.find? k = some e → under S k = true → Canon k) ∧
      (i = j → under S (renderC bs) = false))
    (hfuel : descendants ms S < fuel) :
    ¬ ∃ w1 w2 s w3,
      VPath.exists_ { fs := leafFS j, fsId := did, path := renderC bs } w = (.ok false, w1) ∧
      VPath.createDir { fs := leafFS j, fsId := did, path := renderC bs } w1 = (.ok (), w2) ∧
      VPath.walkDir { fs := leafFS i, fsId := sid, path := S } w2 = (.ok s, w3) ∧
      VPath.CopyItemsOut { fs := leafFS i, fsId := sid, path := S }
        { fs := leafFS j, fsId := did, path := renderC bs } fuel s w3 :=
  fun hout => copyDir_never_panics hi hj hwfs hwfd hnd sid did fuel S bs hbs hsrc hfuel
    (copyDirOut_panics fuel _ _ w hout)

/-! ## 5. summary -/

/-- **the recursive operations terminate on in-memory filesystems.** On memory leaves holding
well-formed maps with unique keys, with the stated (explicit, computable) fuel, none of
`walk_dir`+iteration, `remove_dir_all`, `copy_dir`, `move_dir` ends in the model's out-of-fuel
sentinel — for every path (absent / file / directory; for walk and remove also the root) and every
state of the destination; for the walk the sentinel is characterised exactly. -/
theorem recursive_ops_terminate :
    -- walk_dir + collecting the iterator: fuel = number of entries; exact characterisation
    (∀ (w : World) (i : Nat) (m : FMap), MemLeafAt w i m → WF m → FMap.NodupKeys m →
      ∀ (id : Nat) (p : Str),
        (walkCollect m.length (mk i id p) w).1 ≠ .panic ∧
        (∀ fuel, (walkCollect fuel (mk i id p) w).1 = .panic ↔
          IsDirOf m p ∧ fuel ≤ descCount m p)) ∧
    -- remove_dir_all: fuel = longest key length + 1, or any fuel ≥ 1 above the length difference
    (∀ (w : World) (i : Nat) (m : FMap), MemLeafAt w i m → WF m → FMap.NodupKeys m →
      ∀ (id : Nat) (p : Str),
        (VPath.removeDirAll (keyFuel m) { fs := leafFS i, fsId := id, path := p } w).1 ≠ .panic ∧
        (∀ fuel, 0 < fuel → (∀ k e', m.find? k = some e' → k.length < p.length + fuel) →
          (VPath.removeDirAll fuel { fs := leafFS i, fsId := id, path := p } w).1 ≠ .panic)) ∧
    -- copy_dir: fuel > number of descendants of the source
    (∀ (w : World) (i j : Nat) (ms md : FMap), MemLeafAt w i ms → MemLeafAt w j md → WF ms →
      WF md → FMap.NodupKeys ms → ∀ (sid did fuel : Nat) (S : Str) (bs : List Str),
        (∀ c ∈ bs, GoodComp c) →
        (IsDirOf ms S → (∀ k e, ms.find? k = some e → under S k = true → Canon k) ∧
          (i = j → under S (renderC bs) = false)) →
        descendants ms S < fuel →
        (VPath.copyDir fuel { fs := leafFS i, fsId := sid, path := S }
          { fs := leafFS j, fsId := did, path := renderC bs } w).1 ≠ .panic) ∧
    -- move_dir: additionally the length bounds (fuel is also the depth of remove_dir_all)
    (∀ (w : World) (i j : Nat) (ms md : FMap), MemLeafAt w i ms → MemLeafAt w j md → WF ms →
      WF md → FMap.NodupKeys ms → ∀ (sid did fuel : Nat) (S : Str) (bs : List Str),
        (∀ c ∈ bs, GoodComp c) →
        (IsDirOf ms S → S ≠ [] ∧
          (∀ k e, ms.find? k = some e → under S k = true → Canon k) ∧
          (i = j → under S (renderC bs) = false) ∧
          (i = j → ∀ k e, ms.find? k = some e → under S k = true →
            (renderC bs).length + k.length < 2 * S.length + fuel)) →
        descendants ms S < fuel →
        (∀ k e, ms.find? k = some e → k.length < S.length + fuel) →
        (VPath.moveDir fuel { fs := leafFS i, fsId := sid, path := S }
          { fs := leafFS j, fsId := did, path := renderC bs } w).1 ≠ .panic) := by
  refine ⟨?_, ?_, ?_, ?_⟩
  · intro w i m h hwf hk id p
    have := walk_never_panics h hwf hk id p
    exact ⟨this.1, this.2.2.1⟩
  · intro w i m h hwf hk id p
    exact ⟨removeDirAll_never_panics_keyFuel h hwf hk id p,
      fun fuel hf0 hfuel => removeDirAll_never_panics h hwf hk id fuel p hf0 hfuel⟩
  · intro w i j ms md hi hj hwfs hwfd hnd sid did fuel S bs hbs hsrc hfuel
    exact copyDir_never_panics hi hj hwfs hwfd hnd sid did fuel S bs hbs hsrc hfuel
  · intro w i j ms md hi hj hwfs hwfd hnd sid did fuel S bs hbs hsrc hfuel hb1
    exact moveDir_never_panics hi hj hwfs hwfd hnd sid did fuel S bs hbs hsrc hfuel hb1

/-! ## 6. the divergence that IS real (outside the property)

`copy_dir` of a directory into its own subtree on one filesystem: the walk of the source lists
the destination directory it has just created, copies it into itself, lists that copy, … . In the
model the run is out of fuel for every fuel tried, although the source has NO descendants at
all (so `descendants < fuel` holds by a wide margin): the hypothesis "on one leaf the destination
is not at or below the source" of `copyDir_never_panics` cannot be dropped. The real code
loops until it fails for another reason (path length, memory). This input is a caller error
outside C13; nothing here claims termination for it. -/

/-- the empty directory `/r/a/e` of `wN` copied to `/r/a/e/s`: 0 descendants, fuel 15, sentinel -/
theorem copyDir_into_own_subtree_diverges :
    descendants C11.mN "/r/a/e".toList = 0 ∧
    under "/r/a/e".toList (renderC ["r".toList, "a".toList, "e".toList, "s".toList]) = true ∧
    ((C11.at_ 0 "/r/a/e").copyDir 15 (C11.at_ 0 "/r/a/e/s") C11.wN).1 = .panic := by
  refine ⟨by decide, by decide, by decide +kernel⟩

/-- the instances of C11.lean, restated -/
theorem copyDir_into_own_subtree_diverges' :
    ((C11.at_ 0 "/d").copyDir 12 (C11.at_ 0 "/d/sub") C11.w2).1 = .panic ∧
    ((C11.at_ 0 "/e").copyDir 20 (C11.at_ 0 "/e/sub") C11.w2).1 = .panic :=
  ⟨C11.copyDir_into_itself_diverges_12, C11.copyDir_into_itself_diverges_20⟩

/-! ## 7. non-vacuity: the theorems instantiated on concrete nested trees

`C05.sampleW` (depth 4, siblings a / ab / a.b, unsorted storage) for the walk; `C11.wN` (leaf 0:
depth-4 tree below `/r` with an empty directory, an empty file, siblings; leaf 1: `/keep`) for
the others. Hypotheses discharged by `decide`; outcomes also evaluated by the kernel. -/

open C05 (sampleW worldW sampleW_leaf sampleW_wf sampleW_nodup pathsOf) in
/-- walk: a directory, a file, an absent path, the root — fuel = 12 = number of entries -/
example :
    (walkCollect sampleW.length (mk 0 0 "/a".toList) worldW).1 ≠ .panic ∧
    (walkCollect sampleW.length (mk 0 0 "/a/f".toList) worldW).1 ≠ .panic ∧
    (walkCollect sampleW.length (mk 0 0 "/a/q".toList) worldW).1 ≠ .panic ∧
    (walkCollect sampleW.length (mk 0 0 []) worldW).1 ≠ .panic :=
  ⟨(walk_never_panics sampleW_leaf sampleW_wf sampleW_nodup 0 _).1,
   (walk_never_panics sampleW_leaf sampleW_wf sampleW_nodup 0 _).1,
   (walk_never_panics sampleW_leaf sampleW_wf sampleW_nodup 0 _).1,
   (walk_never_panics sampleW_leaf sampleW_wf sampleW_nodup 0 _).1⟩

open C05 (sampleW worldW sampleW_leaf sampleW_wf sampleW_nodup) in
/-- the sentinel IS reachable, by starving the fuel only: `/a` has 6 descendants; fuel 6 ends in
the sentinel, fuel 7 does not; on the file `/a/f` even fuel 0 does not -/
example :
    (walkCollect 6 (mk 0 0 "/a".toList) worldW).1 = .panic ∧
    (walkCollect 7 (mk 0 0 "/a".toList) worldW).1 ≠ .panic ∧
    (walkCollect 0 (mk 0 0 "/a/f".toList) worldW).1 ≠ .panic :=
  ⟨(walk_sentinel_iff sampleW_leaf sampleW_wf sampleW_nodup 0 _ 6).2
      ⟨⟨dirEntryNow, by decide, rfl⟩, by decide⟩,
   (walk_never_panics sampleW_leaf sampleW_wf sampleW_nodup 0 _).2.1 7 (by decide),
   fun hpan => by
     have := ((walk_sentinel_iff sampleW_leaf sampleW_wf sampleW_nodup 0 "/a/f".toList 0).1 hpan).1
     obtain ⟨e, he, hd⟩ := this
     revert he hd
     simp only [show sampleW.find? "/a/f".toList = some fileEntryNow by decide, Option.some.injEq]
     rintro rfl hd
     cases hd⟩

open C05 (worldW pathsOf) in
/-- the same by evaluation -/
example : pathsOf (walkCollect 12 (mk 0 0 "/a/f".toList) worldW) = .err .other (some "/a/f".toList) ∧
    pathsOf (walkCollect 0 (mk 0 0 "/a/q".toList) worldW) = .err .fileNotFound (some "/a/q".toList) := by
  decide

open C11 (mN wN wN_leaf0 wN_leaf1 mN_wf mN_nodup mK mK_wf at_ view) in
/-- remove_dir_all with the computed fuel `keyFuel mN = 11`: a nested directory, a file, an
absent path, the root -/
example : keyFuel mN = 11 ∧
    ((at_ 0 "/r/a").removeDirAll (keyFuel mN) wN).1 ≠ .panic ∧
    ((at_ 0 "/r/ab").removeDirAll (keyFuel mN) wN).1 ≠ .panic ∧
    ((at_ 0 "/zz/y").removeDirAll (keyFuel mN) wN).1 ≠ .panic ∧
    ((at_ 0 "").removeDirAll (keyFuel mN) wN).1 ≠ .panic :=
  ⟨by decide,
   removeDirAll_never_panics_keyFuel wN_leaf0 mN_wf mN_nodup 0 _,
   removeDirAll_never_panics_keyFuel wN_leaf0 mN_wf mN_nodup 0 _,
   removeDirAll_never_panics_keyFuel wN_leaf0 mN_wf mN_nodup 0 _,
   removeDirAll_never_panics_keyFuel wN_leaf0 mN_wf mN_nodup 0 _⟩

open C11 (mN wN at_ view) in
/-- what the model computes: the file gives `Other`, the absent path `Ok` and no change, the root
`Ok` and an empty map; `/r` has four levels of directories (`/r`, `a`, `b`, `c`) and needs fuel 4:
with 3 the sentinel is reached (by starving), with 4 not -/
example :
    ((at_ 0 "/r/ab").removeDirAll 11 wN).1 = .err .other (some "/r/ab".toList) ∧
    ((at_ 0 "/zz/y").removeDirAll 11 wN).1 = .ok () ∧
    ((at_ 0 "/zz/y").removeDirAll 11 wN).2.leaves = wN.leaves ∧
    ((at_ 0 "").removeDirAll 11 wN).1 = .ok () ∧ view ((at_ 0 "").removeDirAll 11 wN).2 0 = [] ∧
    ((at_ 0 "/r").removeDirAll 3 wN).1 = .panic ∧
    ((at_ 0 "/r").removeDirAll 4 wN).1 = .ok () := by
  simp only [← rmAll_eq]; decide +kernel

open C11 (mN wN wN_leaf0 wN_leaf1 mN_wf mN_nodup mK mK_wf at_ mN_canon) in
/-- copy_dir of the depth-4 tree `/r` (8 descendants, fuel 9) to leaf 1: every state of the
destination — fresh `/c`, existing `/keep`, `/nope/c` without parent, `/keep/c` below a file —
and the other kinds of source: the file `/r/ab`, the absent `/zz` -/
example :
    (VPath.copyDir 9 (at_ 0 "/r") { fs := leafFS 1, fsId := 1, path := renderC ["c".toList] } wN).1
      ≠ .panic ∧
    (VPath.copyDir 9 (at_ 0 "/r") { fs := leafFS 1, fsId := 1, path := renderC ["keep".toList] } wN).1
      ≠ .panic ∧
    (VPath.copyDir 9 (at_ 0 "/r")
      { fs := leafFS 1, fsId := 1, path := renderC ["nope".toList, "c".toList] } wN).1 ≠ .panic ∧
    (VPath.copyDir 9 (at_ 0 "/r")
      { fs := leafFS 1, fsId := 1, path := renderC ["keep".toList, "c".toList] } wN).1 ≠ .panic ∧
    (VPath.copyDir 1 (at_ 0 "/r/ab") { fs := leafFS 1, fsId := 1, path := renderC ["c".toList] } wN).1
      ≠ .panic ∧
    (VPath.copyDir 1 (at_ 0 "/zz") { fs := leafFS 1, fsId := 1, path := renderC ["c".toList] } wN).1
      ≠ .panic := by
  have hsrc : ∀ (S : Str) (bs : List Str), IsDirOf mN S →
      (∀ k e, mN.find? k = some e → under S k = true → Canon k) ∧
      ((0 : Nat) = 1 → under S (renderC bs) = false) :=
    fun S bs _ => ⟨mN_canon S, fun h => absurd h (by decide)⟩
  exact ⟨
    copyDir_never_panics wN_leaf0 wN_leaf1 mN_wf mK_wf mN_nodup 0 1 9 _ _ (by decide) (hsrc _ _)
      (by decide),
    copyDir_never_panics wN_leaf0 wN_leaf1 mN_wf mK_wf mN_nodup 0 1 9 _ _ (by decide) (hsrc _ _)
      (by decide),
    copyDir_never_panics wN_leaf0 wN_leaf1 mN_wf mK_wf mN_nodup 0 1 9 _ _ (by decide) (hsrc _ _)
      (by decide),
    copyDir_never_panics wN_leaf0 wN_leaf1 mN_wf mK_wf mN_nodup 0 1 9 _ _ (by decide) (hsrc _ _)
      (by decide),
    copyDir_never_panics wN_leaf0 wN_leaf1 mN_wf mK_wf mN_nodup 0 1 1 _ _ (by decide) (hsrc _ _)
      (by decide),
    copyDir_never_panics wN_leaf0 wN_leaf1 mN_wf mK_wf mN_nodup 0 1 1 _ _ (by decide) (hsrc _ _)
      (by decide)⟩

open C11 (wN at_ view) in
/-- the same runs evaluated: `Ok(8)`; refused; refused; refused; a file as source: `Other`, and
the empty `/c` stays behind on leaf 1; an absent source: `FileNotFound`, likewise -/
example :
    ((at_ 0 "/r").copyDir 9 (at_ 1 "/c") wN).1 = .ok 8 ∧
    ((at_ 0 "/r").copyDir 9 (at_ 1 "/keep") wN).1 = .err .other (some "/r".toList) ∧
    ((at_ 0 "/r").copyDir 9 (at_ 1 "/keep") wN).2.leaves = wN.leaves ∧
    ((at_ 0 "/r").copyDir 9 (at_ 1 "/nope/c") wN).1 = .err .other (some "/r".toList) ∧
    ((at_ 0 "/r").copyDir 9 (at_ 1 "/nope/c") wN).2.leaves = wN.leaves ∧
    ((at_ 0 "/r").copyDir 9 (at_ 1 "/keep/c") wN).1 = .err .other (some "/r".toList) ∧
    ((at_ 0 "/r").copyDir 9 (at_ 1 "/keep/c") wN).2.leaves = wN.leaves ∧
    ((at_ 0 "/r/ab").copyDir 1 (at_ 1 "/c") wN).1 = .err .other (some "/r/ab".toList) ∧
    view ((at_ 0 "/r/ab").copyDir 1 (at_ 1 "/c") wN).2 1 =
      [("/c", .dir, []), ("/keep", .file, [107]), ("", .dir, [])] ∧
    ((at_ 0 "/zz").copyDir 1 (at_ 1 "/c") wN).1 = .err .fileNotFound (some "/zz".toList) ∧
    ((at_ 0 "/zz").copyDir 1 (at_ 0 "/zz") wN).1 = .ok 0 := by decide +kernel

open C11 (mN wN wN_leaf0 mN_wf mN_nodup at_ mN_canon) in
/-- copy_dir inside ONE leaf: `/r/a` (5 descendants, fuel 6) to the fresh `/r/a2`, to the
existing sibling `/r/ab`, and onto itself (`/r/a` exists: refused) -/
example :
    (VPath.copyDir 6 (at_ 0 "/r/a")
      { fs := leafFS 0, fsId := 0, path := renderC ["r".toList, "a2".toList] } wN).1 ≠ .panic ∧
    (VPath.copyDir 6 (at_ 0 "/r/a")
      { fs := leafFS 0, fsId := 0, path := renderC ["r".toList, "ab".toList] } wN).1 ≠ .panic ∧
    (VPath.copyDir 6 (at_ 0 "/r/a")
      { fs := leafFS 0, fsId := 0, path := renderC ["r".toList, "a".toList] } wN) =
        (.err .other (some "/r/a".toList), wN) :=
  ⟨copyDir_never_panics wN_leaf0 wN_leaf0 mN_wf mN_wf mN_nodup 0 0 6 _ _ (by decide)
      (fun _ => ⟨mN_canon _, fun _ => by decide⟩) (by decide),
   copyDir_never_panics wN_leaf0 wN_leaf0 mN_wf mN_wf mN_nodup 0 0 6 _ _ (by decide)
      (fun _ => ⟨mN_canon _, fun _ => by decide⟩) (by decide),
   (copyDir_outcome wN_leaf0 wN_leaf0 mN_wf mN_wf mN_nodup 0 0 6 _ _).1 (by decide)⟩

open C11 (mN wN wN_leaf0 wN_leaf1 mN_wf mN_nodup mK mK_wf at_ mN_canon) in
/-- move_dir of `/r` (fuel 12) to leaf 1: fresh, existing, parentless destination; a file as
source; and inside leaf 0 to the fresh `/r2` -/
example :
    (VPath.moveDir 12 (at_ 0 "/r") { fs := leafFS 1, fsId := 1, path := renderC ["c".toList] } wN).1
      ≠ .panic ∧
    (VPath.moveDir 12 (at_ 0 "/r") { fs := leafFS 1, fsId := 1, path := renderC ["keep".toList] } wN).1
      ≠ .panic ∧
    (VPath.moveDir 12 (at_ 0 "/r")
      { fs := leafFS 1, fsId := 1, path := renderC ["nope".toList, "c".toList] } wN).1 ≠ .panic ∧
    (VPath.moveDir 12 (at_ 0 "/r/ab") { fs := leafFS 1, fsId := 1, path := renderC ["c".toList] } wN).1
      ≠ .panic ∧
    (VPath.moveDir 12 (at_ 0 "/r") { fs := leafFS 0, fsId := 0, path := renderC ["r2".toList] } wN).1
      ≠ .panic := by
  have hsrc : ∀ (S : Str) (bs : List Str), IsDirOf mN S → S ≠ [] → IsDirOf mN S → S ≠ [] ∧
      (∀ k e, mN.find? k = some e → under S k = true → Canon k) ∧
      ((0 : Nat) = 1 → under S (renderC bs) = false) ∧
      ((0 : Nat) = 1 → ∀ k e, mN.find? k = some e → under S k = true →
        (renderC bs).length + k.length < 2 * S.length + 12) :=
    fun S bs _ hS _ => ⟨hS, mN_canon S, fun h => absurd h (by decide), fun h => absurd h (by decide)⟩
  have hb : ∀ (S : Str) k e, mN.find? k = some e → k.length < S.length + 12 :=
    fun S k e hk => by have := keys_bound mN 12 (by decide) k e hk; omega
  exact ⟨
    moveDir_never_panics wN_leaf0 wN_leaf1 mN_wf mK_wf mN_nodup 0 1 12 _ _ (by decide)
      (fun hd => hsrc _ _ hd (by decide) hd) (by decide) (hb _),
    moveDir_never_panics wN_leaf0 wN_leaf1 mN_wf mK_wf mN_nodup 0 1 12 _ _ (by decide)
      (fun hd => hsrc _ _ hd (by decide) hd) (by decide) (hb _),
    moveDir_never_panics wN_leaf0 wN_leaf1 mN_wf mK_wf mN_nodup 0 1 12 _ _ (by decide)
      (fun hd => hsrc _ _ hd (by decide) hd) (by decide) (hb _),
    moveDir_never_panics wN_leaf0 wN_leaf1 mN_wf mK_wf mN_nodup 0 1 12 _ _ (by decide)
      (fun hd => hsrc _ _ hd (by decide) hd) (by decide) (hb _),
    moveDir_never_panics wN_leaf0 wN_leaf0 mN_wf mN_wf mN_nodup 0 0 12 _ _ (by decide)
      (fun _ => ⟨by decide, mN_canon _, fun _ => by decide, fun _ k e hk _ => by
        have := keys_bound mN 12 (by decide) k e hk
        show 3 + k.length < 2 * 2 + 12
        omega⟩) (by decide) (hb _)⟩

open C11 (wN at_ view) in
/-- evaluated: the move succeeds; an existing destination is refused without a change; a file as
source fails with `Other` and leaves the empty `/c` behind -/
example :
    ((at_ 0 "/r").moveDir 12 (at_ 1 "/c") wN).1 = .ok () ∧
    ((at_ 0 "/r").moveDir 12 (at_ 1 "/keep") wN).1 = .err .other (some "/r".toList) ∧
    ((at_ 0 "/r").moveDir 12 (at_ 1 "/keep") wN).2.leaves = wN.leaves ∧
    ((at_ 0 "/r/ab").moveDir 12 (at_ 1 "/c") wN).1 = .err .other (some "/r/ab".toList) ∧
    view ((at_ 0 "/r/ab").moveDir 12 (at_ 1 "/c") wN).2 1 =
      [("/c", .dir, []), ("/keep", .file, [107]), ("", .dir, [])] ∧
    ((at_ 0 "/zz").moveDir 12 (at_ 0 "/zz") wN).1 = .ok () := by
  unfold VPath.moveDir; simp only [← rmAll_eq]; decide +kernel

open C11 (mN wN wN_leaf0 mN_wf mN_nodup) in
/-- the `0 =>` branch is unreachable on `wN`: the predicate of C13.lean is refuted -/
example : ¬ VPath.RemoveDirAllOut 11 { fs := leafFS 0, fsId := 0, path := "/r".toList } wN :=
  (fuel_branch_unreachable wN_leaf0 mN_wf mN_nodup 0 "/r".toList).1 11 (by decide)
    (fun k e hk => by have := keys_bound mN 11 (by decide) k e hk; omega)

end Vfs.C13
