import VfsModel.Props.C11Nested
import VfsModel.Props.C05Walk
import VfsModel.Props.C13
namespace Vfs.C13
open Vfs.C05 (walkCollect descCount okItems)
open Vfs.Wk (mk below)
open Vfs.C11 (descendants)

/-! ## 0. vocabulary -/

/-- `p` is a directory of the map -/
def IsDirOf (m : FMap) (p : Str) : Prop := ∃ e, m.find? p = some e ∧ e.ftype = .dir

/-- `p` is a file of the map -/
def IsFileOf (m : FMap) (p : Str) : Prop := ∃ e, m.find? p = some e ∧ e.ftype = .file

/-- every path is absent, a file or a directory -/
theorem path_cases (m : FMap) (p : Str) : m.find? p = none ∨ IsFileOf m p ∨ IsDirOf m p := by
  cases h : m.find? p with
  | none => exact Or.inl rfl
  | some e =>
    cases hf : e.ftype with
    | file => exact Or.inr (Or.inl ⟨e, h, hf⟩)
    | dir => exact Or.inr (Or.inr ⟨e, h, hf⟩)

theorem contains_true {m : FMap} {k : Str} {e : Entry} (h : m.find? k = some e) :
    m.contains k = true := (FMap.contains_iff m k).2 ⟨e, h⟩

theorem contains_false {m : FMap} {k : Str} (h : m.find? k = none) : m.contains k = false := by
  unfold FMap.contains; rw [h]; rfl

/-- the count of C11.lean is the count of C05Walk.lean -/
theorem descendants_eq_descCount (m : FMap) (p : Str) : descendants m p = descCount m p :=
  C11.descendants_eq m p

/-- the length of the longest key, plus one: a fuel that is enough for `remove_dir_all` -/
def keyFuel (m : FMap) : Nat := (m.keys.map List.length).foldr max 0 + 1

theorem keyFuel_bound (m : FMap) : ∀ k e, m.find? k = some e → k.length < keyFuel m := by
  intro k e hk
  have hmem : k ∈ m.keys := (FMap.mem_keys_iff m k).2 ⟨e, hk⟩
  have : ∀ (l : List Str), k ∈ l → k.length ≤ (l.map List.length).foldr max 0 := by
    intro l
    induction l with
    | nil => intro h; cases h
    | cons a rest ih =>
      intro h
      simp only [List.map_cons, List.foldr_cons]
      rcases List.mem_cons.1 h with h | h
      · subst h; exact Nat.le_max_left _ _
      · exact Nat.le_trans (ih h) (Nat.le_max_right _ _)
  have := this m.keys hmem
  unfold keyFuel
  omega

/-! ## 1. `walk_dir` -/

section walk
variable {w : World} {i : Nat} {m : FMap} (h : MemLeafAt w i m) (hwf : WF m)
  (hk : FMap.NodupKeys m) (id : Nat) (p : Str)
include h

/-- what the collected walk returns, by the kind of `p`; the world is never changed -/
theorem walk_outcome (fuel : Nat) :
    (m.find? p = none →
      walkCollect fuel (mk i id p) w = (.err .fileNotFound (some p), w)) ∧
    (IsFileOf m p → walkCollect fuel (mk i id p) w = (.err .other (some p), w)) ∧
    (WF m → FMap.NodupKeys m → IsDirOf m p → descCount m p < fuel →
      ∃ L : List Str, walkCollect fuel (mk i id p) w = (.ok (okItems i id L), w)) := by
  refine ⟨?_, ?_, ?_⟩
  · intro hp
    have := (C05.walk_dir_not_dir h id p (by intro e he; rw [hp] at he; cases he) fuel).2
    rw [this, contains_false hp]; rfl
  · rintro ⟨e, he, hf⟩
    have := (C05.walk_dir_not_dir h id p
      (by intro e' he'; rw [he] at he'; cases he'; rw [hf]; decide) fuel).2
    rw [this, contains_true he]; rfl
  · rintro hwf hk ⟨e, he, hd⟩ hf
    exact C05.walk_terminates h hwf hk id p e he hd fuel hf

include hwf hk

/-- the sentinel is the outcome iff `p` is a directory AND the fuel does not exceed the number
of its descendants: it is reached only by starving the fuel, never by the tree -/
theorem walk_sentinel_iff (fuel : Nat) :
    (walkCollect fuel (mk i id p) w).1 = .panic ↔ IsDirOf m p ∧ fuel ≤ descCount m p := by
  by_cases hd : IsDirOf m p
  · obtain ⟨e, he, hdir⟩ := hd
    rw [C05.walk_panic_iff h hwf hk id p e he hdir fuel]
    exact ⟨fun hle => ⟨⟨e, he, hdir⟩, hle⟩, fun hle => hle.2⟩
  · have := (C05.walk_dir_not_dir h id p
      (by intro e he hdir; exact hd ⟨e, he, hdir⟩) fuel).2
    rw [this]
    constructor
    · intro hpan; cases hpan
    · intro hc; exact absurd hc.1 hd

omit h hk in
/-- the number of descendants of any path is smaller than the number of entries (the root is an
entry and is below nothing) -/
theorem descCount_lt_length_any : descCount m p < m.length := by
  obtain ⟨e, he, _⟩ := hwf.1
  have hroot : ([] : Str) ∈ m.keys := (FMap.mem_keys_iff m []).2 ⟨e, he⟩
  have : (m.keys.filter (below p)).length < m.keys.length :=
    List.length_filter_lt_length_iff_exists.2 ⟨[], hroot, by simp [below]⟩
  simpa [descCount, FMap.keys] using this

/-- **`walk_dir` terminates**: on a memory leaf holding a well-formed map with unique keys, for
EVERY path `p` (directory, file or absent): (1) fuel = number of entries is enough; (2) so is
every fuel above the number of descendants; (3) the sentinel is the outcome iff `p` is a
directory and fuel ≤ #descendants; (4) the walk does not change the world, whatever the fuel -/
theorem walk_never_panics :
    (walkCollect m.length (mk i id p) w).1 ≠ .panic ∧
    (∀ fuel, descCount m p < fuel → (walkCollect fuel (mk i id p) w).1 ≠ .panic) ∧
    (∀ fuel, (walkCollect fuel (mk i id p) w).1 = .panic ↔ IsDirOf m p ∧ fuel ≤ descCount m p) ∧
    (∀ fuel, (walkCollect fuel (mk i id p) w).2 = w) := by
  have h2 : ∀ fuel, descCount m p < fuel → (walkCollect fuel (mk i id p) w).1 ≠ .panic := by
    intro fuel hf hpan
    have := ((walk_sentinel_iff h hwf hk id p fuel).1 hpan).2
    omega
  refine ⟨h2 _ (descCount_lt_length_any hwf p), h2, walk_sentinel_iff h hwf hk id p, ?_⟩
  intro fuel
  exact (C05.walk_observes_only h).2.2.2 fuel (mk i id p) rfl

/-- the iterator level: from the state right after `walk_dir` on a directory, `walkAll` with
enough fuel ends with `.ok` — the iterator is finite -/
theorem walkAll_never_panics (e : Entry) (he : m.find? p = some e) (hd : e.ftype = .dir)
    (fuel : Nat) (hf : descCount m p < fuel) :
    ∃ s, VPath.walkDir (mk i id p) w = (.ok s, w) ∧ (VPath.walkAll fuel s w).1 ≠ .panic := by
  refine ⟨_, Wk.run_walkDir h id p e he hd, ?_⟩
  rw [← C05.walkCollect_eq h id p e he hd fuel]
  exact (walk_never_panics h hwf hk id p).2.1 fuel hf

end walk

/-! ## 2. `remove_dir_all` -/

section remove
variable {w : World} {i : Nat} {m : FMap} (h : MemLeafAt w i m)
include h

/-- an absent path: `Ok`, nothing happens (any fuel but 0) -/
theorem removeDirAll_on_absent (id fuel : Nat) (p : Str) (hp : m.find? p = none) :
    VPath.removeDirAll (fuel + 1) { fs := leafFS i, fsId := id, path := p } w = (.ok (), w) :=
  C11.removeDirAll_absent _ fuel w (by simp [VPath.exists_, run_exists h, contains_false hp])

/-- a FILE: `remove_dir_all` finds that the path exists, lists it, and the listing of a file
fails — the error `Other` with the path filled in; nothing is removed (any fuel but 0) -/
theorem removeDirAll_on_file (id fuel : Nat) (p : Str) (hp : IsFileOf m p) :
    VPath.removeDirAll (fuel + 1) { fs := leafFS i, fsId := id, path := p } w =
      (.err .other (some p), w) := by
  obtain ⟨e, he, hf⟩ := hp
  rw [VPath.removeDirAll.eq_2]
  simp [bind, M.bind, VPath.exists_, run_exists h, contains_true he, VPath.readDir, M.withPath,
    run_readDir h, Mem.readDir, he, hf, fail, Res.withPath]

end remove

end Vfs.C13
