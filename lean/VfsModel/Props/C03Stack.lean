/-
  C03 through EVERY STACKING of adapters — the namespace of every in-memory leaf stays a
  well-formed tree whatever is called on whatever filesystem value is built on top of it.

  Props/C03.lean proves `WF` preservation for the path-layer primitives run DIRECTLY on one
  in-memory leaf. Here the filesystem is ANY value of the inductive family `Stack`:
      leaf i | AltrootFS over a path of a Stack | OverlayFS over ≥ 1 layers, each a path of a Stack
             | the harness wrappers RecordingFs / FaultFs over a Stack | EmbeddedFS
  — any nesting, any number of layers, layers and altroot roots at any sub-path (any path
  string at all: existing, missing, a file, with `..`), several adapters sharing one leaf, the
  same leaf appearing as several layers of one overlay, physical and memory leaves mixed.

  THE INVARIANT  `Inv w` (Proofs/StackLemmas.lean):
      every memory leaf of the world holds a map `m` with  `WF m ∨ m = []`.
  `WF m` is C03's invariant (the root is a directory; every other key has a '/', and its parent
  is a directory). The alternative `m = []` is exactly the case the property sets aside: the
  code lets `remove_dir` remove the leaf's OWN root when it lists nothing (src/impls/memory.rs
  `remove_dir` has no root check), the map is then EMPTY — there is no orphan in it — and it
  stays empty for ever (`stack_history_empty_absorbing`). The root of the *leaf* is meant: through
  an altroot rooted at P, `remove_dir("")` reaches the inner directory P, an ordinary removal.
  No hypothesis "this call does not reach the leaf root" is needed: the disjunctive invariant
  holds with NO restriction on the calls. The strict form is recovered by `LeafOK.wf_of_root` /
  `stack_history_wf_of_root`: while the leaf's root entry still exists, `WF` holds in full; and the
  no-orphan half of C03 holds unconditionally (`stack_history_no_orphan`).

  WHAT IS PROVED (every theorem depends on propext, Classical.choice, Quot.sound at most)
    * `stack_all_preserve`   : `Stack fs → fs.AllPreserve Inv` — each of the 15 trait methods of the
      stacked filesystem, on every path string, successful / failed / panicking, and every write
      handle it returns (under write, flush, drop) keeps `Inv`. Generic form
      `stack_all_preserveP` for every `MemClosed` predicate on leaf maps.
    * `stack_op_wf`          : each public `VfsPath` operation (`Op`, 22 constructors: exists,
      metadata, is_file, is_dir, read_dir, open_file, read_to_string, walk_dir (whole iteration),
      create_dir, create_dir_all, remove_file, remove_dir, remove_dir_all, the three time setters,
      copy_file, move_file, copy_dir, move_dir — source and destination on possibly DIFFERENT
      stacked filesystems — and complete write / append sessions: create_file or append_file, any
      list of write / flush / seek, drop) keeps `Inv`, whatever the outcome.
    * `stack_step_wf`, `stack_history_wf` : a client program is a list of `Step`s over one world and a
      table of open write handles: path operations, opening a handle (create_file / append_file)
      and keeping it open, writing / flushing / seeking through ANY open handle at any later time
      (after the file was removed, replaced by a directory, its parent removed, …), dropping or
      leaking it. Every such program, on any stacked filesystems sharing the world, from any
      state satisfying `Inv` (in particular `initWorld`) ends in a state satisfying `Inv`.
    * consequences for the observable tree of a memory leaf after any history
      (`stack_history_no_orphan`, `stack_history_listed`, `stack_history_reachable`,
      `stack_history_root`).
    * non-vacuity: concrete stackings (`exStack…`) and the initial world.

  WHAT IS NOT PROVED / NOT CLAIMED
    * This is about the LEAVES (the stored state). The overlay's own merged VIEW is a computed
      union; it can still show an entry whose parent the view does not show (known finding O3 in
      known_findings.json: a whiteout on a directory hides the directory but the lower layers'
      children are still found by `read_path`). Nothing here contradicts O3: O3 is a statement
      about what `Overlay.readDir/exists_` answer, this theorem is about what the leaves hold.
      The view of an *altroot* over a memory leaf is a subtree of that leaf (C07), so there the
      leaf statement transfers; for overlays see C09/C10.
    * Physical leaves: `Inv` says nothing about them (their tree shape is the host's business).
    * Strict `WF` (root always present) is not an invariant of the code: see above. No theorem
      here says which stacked calls reach `remove_dir` on a leaf root (e.g. an altroot at "/up"
      reaches it with the path "/.."); instead nothing is assumed about it.
    * The sequential semantics of the model (`M`); interleavings are C16/C17.
    * `Stack` does not include user-defined `FileSystem` implementations (nothing is known about
      them). For such a value `fs`, `op_pres` still applies once `fs.AllPreserve Inv` is shown.
-/
import VfsModel.Proofs.StackLemmas
import VfsModel.Props.C03
import VfsModel.Props.C08
namespace Vfs.C03
open Vfs.Stk Vfs.VPath

/-! ### the family of stacked filesystems -/

/-- every filesystem value that can be built from the leaves of the world by the adapters of the
crate (and the two harness wrappers), in any nesting -/
inductive Stack : FS → Prop where
  /-- leaf `i` of the world: MemoryFS or PhysicalFS (or no such leaf: every call panics) -/
  | leaf (i : Nat) : Stack (leafFS i)
  /-- `AltrootFS::new(root)`, `root` any path of a stacked filesystem -/
  | alt (root : VPath) (h : Stack root.fs) : Stack (Altroot.fs root)
  /-- `OverlayFS::new(layers)`, at least one layer, each any path of a stacked filesystem -/
  | ovl (layers : List VPath) (hne : layers ≠ []) (h : ∀ l ∈ layers, Stack l.fs) :
      Stack (Overlay.fs layers)
  /-- `RecordingFs` (harness) -/
  | record (tag : Nat) (inner : FS) (h : Stack inner) : Stack (recordFS tag inner)
  /-- `FaultFs` (harness): injected I/O failures in front of any layer -/
  | fault (inner : FS) (h : Stack inner) : Stack (faultFS inner)
  /-- `EmbeddedFS` (read-only; typically a lower layer of an overlay) -/
  | embedded (s : Embedded.State) : Stack (Embedded.fs s)

/-- **every method of every stacked filesystem keeps the invariant of every memory leaf**, for
every predicate on leaf maps that the raw MemoryFS steps keep -/
theorem stack_all_preserveP {P : Nat → FMap → Prop} (hP : MemClosed P) {fs : FS} (h : Stack fs) :
    fs.AllPreserve (InvP P) := by
  induction h with
  | leaf i => exact leafFS_all_preserveP hP i
  | alt root _ ih => exact Altroot.all_preserve root ih
  | ovl layers hne _ ih =>
    apply C08.overlay_all_preserve
    exact { nonempty := hne
            observers := fun l hl => (ih l hl).obs
            upper := ih _ (C08.writeLayer_mem layers hne)
            same := fun l hl _ => ih l hl }
  | record tag inner _ ih => exact recordFS_all_preserve (invP_leavesOnly P) tag inner ih
  | fault inner _ ih => exact faultFS_all_preserve (invP_leavesOnly P) inner ih
  | embedded s => exact embedded_all_preserve s

/-- **stack_all_preserve**: each of the 15 trait methods of a stacked filesystem, and every write
handle it returns, keeps every memory leaf of the world well-formed (or emptied by the removal
of its own bare root) — on every path string, whether the call succeeds, fails or panics -/
theorem stack_all_preserve {fs : FS} (h : Stack fs) : fs.AllPreserve Inv :=
  stack_all_preserveP leafOK_closed h

/-! ### the public operations of `VfsPath` -/

/-- what a client does with an open write handle -/
inductive HAct where
  | write (bs : Bytes)
  | flush
  | seek (s : SeekFrom)

/-- one action through a handle: the handle afterwards (unchanged when the call fails) and the
world afterwards -/
def HAct.apply (a : HAct) (h : WHandle) (w : World) : WHandle × World :=
  match a with
  | .write bs =>
    match h.write bs w with
    | (.ok (_, h'), w') => (h', w')
    | (_, w') => (h, w')
  | .flush => (h, (h.flush w).2)
  | .seek s =>
    match h.seek s w with
    | (.ok (_, h'), w') => (h', w')
    | (_, w') => (h, w')

/-- any actions through the handle (errors ignored or not: a failed action leaves the handle as
it was, and the list may stop anywhere), then `drop` -/
def runActs (h : WHandle) : List HAct → M Unit
  | [] => h.drop
  | a :: rest => fun w => runActs (a.apply h w).1 rest (a.apply h w).2

/-- the public path operations; every path carries its own filesystem value, so source and
destination of a transfer may live on different stacked filesystems -/
inductive Op where
  | exists_ (p : VPath)
  | metadata (p : VPath)
  | isFile (p : VPath)
  | isDir (p : VPath)
  | readDir (p : VPath)
  | openFile (p : VPath)                       -- stamps the access time of a memory file
  | readToString (p : VPath)
  | walk (fuel : Nat) (p : VPath)              -- walk_dir, iterated to the end
  | createDir (p : VPath)
  | createDirAll (p : VPath)
  | removeFile (p : VPath)
  | removeDir (p : VPath)
  | removeDirAll (fuel : Nat) (p : VPath)
  | setCreationTime (p : VPath) (t : Int)
  | setModificationTime (p : VPath) (t : Int)
  | setAccessTime (p : VPath) (t : Int)
  | copyFile (src dst : VPath)
  | moveFile (src dst : VPath)
  | copyDir (fuel : Nat) (src dst : VPath)
  | moveDir (fuel : Nat) (src dst : VPath)
  | writeSession (p : VPath) (acts : List HAct)   -- create_file, acts, drop
  | appendSession (p : VPath) (acts : List HAct)  -- append_file, acts, drop

/-- run an operation, forgetting its value -/
def Op.run : Op → M Unit
  | .exists_ p => do let _ ← p.exists_; pure ()
  | .metadata p => do let _ ← p.metadata; pure ()
  | .isFile p => do let _ ← p.isFile; pure ()
  | .isDir p => do let _ ← p.isDir; pure ()
  | .readDir p => do let _ ← p.readDir; pure ()
  | .openFile p => do let _ ← p.openFile; pure ()
  | .readToString p => do let _ ← p.readToEndChecked; pure ()
  | .walk fuel p => do
    let s ← p.walkDir
    let _ ← walkAll fuel s
    pure ()
  | .createDir p => p.createDir
  | .createDirAll p => p.createDirAll
  | .removeFile p => p.removeFile
  | .removeDir p => p.removeDir
  | .removeDirAll fuel p => p.removeDirAll fuel
  | .setCreationTime p t => p.setCreationTime t
  | .setModificationTime p t => p.setModificationTime t
  | .setAccessTime p t => p.setAccessTime t
  | .copyFile s d => s.copyFile d
  | .moveFile s d => s.moveFile d
  | .copyDir fuel s d => do let _ ← s.copyDir fuel d; pure ()
  | .moveDir fuel s d => s.moveDir fuel d
  | .writeSession p acts => do let h ← p.createFile; runActs h acts
  | .appendSession p acts => do let h ← p.appendFile; runActs h acts

/-- every path of the operation lives on a stacked filesystem (nothing is asked of the path
strings, the filesystem ids, the fuel, the bytes) -/
def Op.OnStack : Op → Prop
  | .exists_ p | .metadata p | .isFile p | .isDir p | .readDir p | .openFile p | .readToString p
  | .walk _ p | .createDir p | .createDirAll p | .removeFile p | .removeDir p | .removeDirAll _ p
  | .setCreationTime p _ | .setModificationTime p _ | .setAccessTime p _
  | .writeSession p _ | .appendSession p _ => Stack p.fs
  | .copyFile s d | .moveFile s d | .copyDir _ s d | .moveDir _ s d => Stack s.fs ∧ Stack d.fs

section generic
variable {I : World → Prop}

theorem HAct.apply_ok (a : HAct) (h : WHandle) (hk : HandleOK I h) (w : World) (hw : I w) :
    HandleOK I (a.apply h w).1 ∧ I (a.apply h w).2 := by
  cases a with
  | write bs =>
    have h1 := (hk.write bs).pres w hw
    have h2 := (write_handleOK h hk bs).post w
    have : (HAct.write bs).apply h w =
        (match h.write bs w with
          | (.ok (_, h'), w') => (h', w')
          | (_, w') => (h, w')) := rfl
    rw [this]
    cases hres : h.write bs w with
    | mk r w' =>
      rw [hres] at h1 h2
      cases r with
      | ok a => obtain ⟨n, h'⟩ := a; exact ⟨h2 (n, h') rfl, h1⟩
      | err k p => exact ⟨hk, h1⟩
      | panic => exact ⟨hk, h1⟩
  | flush => exact ⟨hk, hk.flush.pres w hw⟩
  | seek s =>
    have h1 := (pres_seek (I := I) h s).pres w hw
    have h2 := (seek_handleOK h hk s).post w
    have : (HAct.seek s).apply h w =
        (match h.seek s w with
          | (.ok (_, h'), w') => (h', w')
          | (_, w') => (h, w')) := rfl
    rw [this]
    cases hres : h.seek s w with
    | mk r w' =>
      rw [hres] at h1 h2
      cases r with
      | ok a => obtain ⟨n, h'⟩ := a; exact ⟨h2 (n, h') rfl, h1⟩
      | err k p => exact ⟨hk, h1⟩
      | panic => exact ⟨hk, h1⟩

/-- a session through a handle: any writes, flushes and seeks, then drop -/
theorem pres_runActs (acts : List HAct) (h : WHandle) (hk : HandleOK I h) :
    Preserves I (runActs h acts) := by
  induction acts generalizing h with
  | nil => exact hk.drop
  | cons a rest ih =>
    refine ⟨fun w hw => ?_⟩
    obtain ⟨h1, h2⟩ := a.apply_ok h hk w hw
    exact (ih _ h1).pres _ h2

/-- each public path operation preserves `I` as soon as every method of the filesystems of its
paths (and the handles they return) does -/
theorem op_pres (o : Op) (stk : FS → Prop) (hstk : ∀ fs, stk fs → fs.AllPreserve I)
    (h : match o with
      | .exists_ p | .metadata p | .isFile p | .isDir p | .readDir p | .openFile p
      | .readToString p | .walk _ p | .createDir p | .createDirAll p | .removeFile p
      | .removeDir p | .removeDirAll _ p | .setCreationTime p _ | .setModificationTime p _
      | .setAccessTime p _ | .writeSession p _ | .appendSession p _ => stk p.fs
      | .copyFile s d | .moveFile s d | .copyDir _ s d | .moveDir _ s d => stk s.fs ∧ stk d.fs) :
    Preserves I o.run := by
  cases o with
  | exists_ p => exact Preserves.bind (pres_exists p (hstk _ h).obs) (fun _ => Preserves.pure _)
  | metadata p => exact Preserves.bind (pres_metadata p (hstk _ h).obs) (fun _ => Preserves.pure _)
  | isFile p => exact Preserves.bind (pres_isFile p (hstk _ h).obs) (fun _ => Preserves.pure _)
  | isDir p => exact Preserves.bind (pres_isDir p (hstk _ h).obs) (fun _ => Preserves.pure _)
  | readDir p => exact Preserves.bind (pres_readDir p (hstk _ h).obs) (fun _ => Preserves.pure _)
  | openFile p => exact Preserves.bind (pres_openFile p (hstk _ h).obs) (fun _ => Preserves.pure _)
  | readToString p =>
    exact Preserves.bind (pres_readToEndChecked p (hstk _ h).obs) (fun _ => Preserves.pure _)
  | walk fuel p =>
    have hg : Good I p := hstk _ h
    apply Preserves.bindQ _ (pres_walkDir p hg.obs) (walkDir_good p hg)
    intro s hs
    exact Preserves.bind (pres_walkAll fuel s hs) (fun _ => Preserves.pure _)
  | createDir p => exact pres_createDir p (hstk _ h)
  | createDirAll p => exact pres_createDirAll p (hstk _ h)
  | removeFile p => exact pres_removeFile p (hstk _ h)
  | removeDir p => exact pres_removeDir p (hstk _ h)
  | removeDirAll fuel p => exact pres_removeDirAll fuel p (hstk _ h)
  | setCreationTime p t => exact pres_setCreationTime p t (hstk _ h)
  | setModificationTime p t => exact pres_setModificationTime p t (hstk _ h)
  | setAccessTime p t => exact pres_setAccessTime p t (hstk _ h)
  | copyFile s d =>
    exact pres_copyFile s d (hstk _ h.1).obs (hstk _ h.2) (fun _ => hstk _ h.1)
  | moveFile s d => exact pres_moveFile s d (hstk _ h.1) (hstk _ h.2)
  | copyDir fuel s d =>
    exact Preserves.bind (pres_copyDir fuel s d (hstk _ h.1) (hstk _ h.2)) (fun _ => Preserves.pure _)
  | moveDir fuel s d => exact pres_moveDir fuel s d (hstk _ h.1) (hstk _ h.2)
  | writeSession p acts =>
    exact Preserves.bindQ _ (pres_createFile p (hstk _ h)) (createFile_handle p (hstk _ h))
      (fun hd hk => pres_runActs acts hd hk)
  | appendSession p acts =>
    exact Preserves.bindQ _ (pres_appendFile p (hstk _ h)) (appendFile_handle p (hstk _ h))
      (fun hd hk => pres_runActs acts hd hk)

end generic

/-- generic form of `stack_op_wf` -/
theorem stack_op_presP {P : Nat → FMap → Prop} (hP : MemClosed P) (o : Op) (h : o.OnStack) :
    Preserves (InvP P) o.run := by
  apply op_pres o Stack (fun fs hfs => stack_all_preserveP hP hfs)
  cases o <;> exact h

/-- **stack_op_wf**: every public path operation, on every path string of every stacked
filesystem, keeps every memory leaf of the world well-formed — whether the call succeeds,
fails or panics, whether the target has the right type or not. Composite operations
(create_dir_all, remove_dir_all, copy_file, move_file, copy_dir, move_dir, the walk) and whole
write / append sessions included. -/
theorem stack_op_wf (o : Op) (h : o.OnStack) : Preserves Inv o.run :=
  stack_op_presP leafOK_closed o h

/-! the operations one by one, as the statement reads for a `VfsPath` `p` with `Stack p.fs` -/

theorem stack_createDir_wf (p : VPath) (h : Stack p.fs) : Preserves Inv p.createDir :=
  stack_op_wf (.createDir p) h
theorem stack_createDirAll_wf (p : VPath) (h : Stack p.fs) : Preserves Inv p.createDirAll :=
  stack_op_wf (.createDirAll p) h
theorem stack_removeFile_wf (p : VPath) (h : Stack p.fs) : Preserves Inv p.removeFile :=
  stack_op_wf (.removeFile p) h
theorem stack_removeDir_wf (p : VPath) (h : Stack p.fs) : Preserves Inv p.removeDir :=
  stack_op_wf (.removeDir p) h
theorem stack_removeDirAll_wf (fuel : Nat) (p : VPath) (h : Stack p.fs) :
    Preserves Inv (p.removeDirAll fuel) := stack_op_wf (.removeDirAll fuel p) h
theorem stack_setCreationTime_wf (p : VPath) (t : Int) (h : Stack p.fs) :
    Preserves Inv (p.setCreationTime t) := stack_op_wf (.setCreationTime p t) h
theorem stack_setModificationTime_wf (p : VPath) (t : Int) (h : Stack p.fs) :
    Preserves Inv (p.setModificationTime t) := stack_op_wf (.setModificationTime p t) h
theorem stack_setAccessTime_wf (p : VPath) (t : Int) (h : Stack p.fs) :
    Preserves Inv (p.setAccessTime t) := stack_op_wf (.setAccessTime p t) h
theorem stack_copyFile_wf (s d : VPath) (hs : Stack s.fs) (hd : Stack d.fs) :
    Preserves Inv (s.copyFile d) := stack_op_wf (.copyFile s d) ⟨hs, hd⟩
theorem stack_moveFile_wf (s d : VPath) (hs : Stack s.fs) (hd : Stack d.fs) :
    Preserves Inv (s.moveFile d) := stack_op_wf (.moveFile s d) ⟨hs, hd⟩
theorem stack_copyDir_wf (fuel : Nat) (s d : VPath) (hs : Stack s.fs) (hd : Stack d.fs) :
    Preserves Inv (s.copyDir fuel d) :=
  pres_copyDir fuel s d (stack_all_preserve hs) (stack_all_preserve hd)
theorem stack_moveDir_wf (fuel : Nat) (s d : VPath) (hs : Stack s.fs) (hd : Stack d.fs) :
    Preserves Inv (s.moveDir fuel d) := stack_op_wf (.moveDir fuel s d) ⟨hs, hd⟩
theorem stack_openFile_wf (p : VPath) (h : Stack p.fs) : Preserves Inv p.openFile :=
  pres_openFile p (stack_all_preserve h).obs
theorem stack_exists_wf (p : VPath) (h : Stack p.fs) : Preserves Inv p.exists_ :=
  pres_exists p (stack_all_preserve h).obs
theorem stack_metadata_wf (p : VPath) (h : Stack p.fs) : Preserves Inv p.metadata :=
  pres_metadata p (stack_all_preserve h).obs
theorem stack_readDir_wf (p : VPath) (h : Stack p.fs) : Preserves Inv p.readDir :=
  pres_readDir p (stack_all_preserve h).obs
theorem stack_walkDir_wf (p : VPath) (h : Stack p.fs) : Preserves Inv p.walkDir :=
  pres_walkDir p (stack_all_preserve h).obs
/-- every step of the walk iterator obtained from a stacked filesystem -/
theorem stack_walkNext_wf (s : Walk) (h : ∀ c, c ∈ s.inner ∨ c ∈ s.todo → Stack c.fs) :
    Preserves Inv (walkNext s) :=
  pres_walkNext s ⟨fun c hc => stack_all_preserve (h c (Or.inl hc)),
    fun c hc => stack_all_preserve (h c (Or.inr hc))⟩

/-- create_file on a stacked filesystem: the call keeps `Inv`, and the handle it returns keeps
`Inv` under every later write, flush and drop -/
theorem stack_createFile_wf (p : VPath) (h : Stack p.fs) :
    Preserves Inv p.createFile ∧ Returns p.createFile (HandleOK Inv) :=
  ⟨pres_createFile p (stack_all_preserve h), createFile_handle p (stack_all_preserve h)⟩

theorem stack_appendFile_wf (p : VPath) (h : Stack p.fs) :
    Preserves Inv p.appendFile ∧ Returns p.appendFile (HandleOK Inv) :=
  ⟨pres_appendFile p (stack_all_preserve h), appendFile_handle p (stack_all_preserve h)⟩

/-- a session through a handle obtained from a stacked filesystem: any writes, flushes, seeks,
then drop -/
theorem stack_session_wf (h : WHandle) (hk : HandleOK Inv h) (acts : List HAct) :
    Preserves Inv (runActs h acts) := pres_runActs acts h hk

/-! ### histories: client programs with a table of open handles -/

/-- the state of a client program: the world and the write handles it holds open -/
structure St where
  world : World
  handles : List WHandle

/-- one step of a client program -/
inductive Step where
  /-- a path operation (complete sessions included) -/
  | op (o : Op)
  /-- `create_file`: on success the handle is kept open (appended to the table) -/
  | openCreate (p : VPath)
  /-- `append_file`: on success the handle is kept open -/
  | openAppend (p : VPath)
  /-- write / flush / seek through the open handle in `slot` -/
  | act (slot : Nat) (a : HAct)
  /-- drop the handle in `slot` (publishes the buffer of a memory handle) -/
  | drop (slot : Nat)
  /-- `mem::forget` the handle in `slot`: it leaves the table without being dropped -/
  | forget (slot : Nat)

def Step.OnStack : Step → Prop
  | .op o => o.OnStack
  | .openCreate p | .openAppend p => Stack p.fs
  | .act _ _ | .drop _ | .forget _ => True

def openWith (m : M WHandle) (st : St) : St :=
  match m st.world with
  | (.ok h, w') => { world := w', handles := st.handles ++ [h] }
  | (_, w') => { st with world := w' }

/-- run one step (outcomes are ignored: the program goes on whatever happened) -/
def Step.run : Step → St → St
  | .op o, st => { st with world := (o.run st.world).2 }
  | .openCreate p, st => openWith p.createFile st
  | .openAppend p, st => openWith p.appendFile st
  | .act slot a, st =>
    match st.handles[slot]? with
    | some h => { world := (a.apply h st.world).2, handles := st.handles.set slot (a.apply h st.world).1 }
    | none => st
  | .drop slot, st =>
    match st.handles[slot]? with
    | some h => { world := (h.drop st.world).2, handles := st.handles.eraseIdx slot }
    | none => st
  | .forget slot, st => { st with handles := st.handles.eraseIdx slot }

def runSteps : List Step → St → St
  | [], st => st
  | s :: rest, st => runSteps rest (s.run st)

theorem openWith_world {P : Nat → FMap → Prop} (m : M WHandle) (hm : Preserves (InvP P) m) (st : St)
    (hw : InvP P st.world) : InvP P (openWith m st).world := by
  have := hm.pres st.world hw
  unfold openWith
  cases hres : m st.world with
  | mk r w' =>
    rw [hres] at this
    cases r <;> exact this

/-- generic form of `stack_step_wf` -/
theorem stack_step_presP {P : Nat → FMap → Prop} (hP : MemClosed P) (s : Step) (hs : s.OnStack)
    (st : St) (hw : InvP P st.world) : InvP P (s.run st).world := by
  cases s with
  | op o => exact (stack_op_presP hP o hs).pres st.world hw
  | openCreate p => exact openWith_world _ (pres_createFile p (stack_all_preserveP hP hs)) st hw
  | openAppend p => exact openWith_world _ (pres_appendFile p (stack_all_preserveP hP hs)) st hw
  | act slot a =>
    simp only [Step.run]
    split
    · rename_i h _; exact (a.apply_ok h (handleOK_any hP h) st.world hw).2
    · exact hw
  | drop slot =>
    simp only [Step.run]
    split
    · rename_i h _; exact (handleOK_any hP h).drop.pres st.world hw
    · exact hw
  | forget slot => exact hw

/-- **one step of any client program keeps every memory leaf well-formed** — whatever handles
the table holds (fresh, stale, opened on any filesystem, or not obtained from any call at all) -/
theorem stack_step_wf (s : Step) (hs : s.OnStack) (st : St) (hw : Inv st.world) :
    Inv (s.run st).world := stack_step_presP leafOK_closed s hs st hw

theorem stack_history_presP {P : Nat → FMap → Prop} (hP : MemClosed P) (steps : List Step)
    (hs : ∀ s ∈ steps, s.OnStack) (st : St) (hw : InvP P st.world) :
    InvP P (runSteps steps st).world := by
  induction steps generalizing st with
  | nil => exact hw
  | cons s rest ih =>
    exact ih (fun x hx => hs x (by simp [hx])) _ (stack_step_presP hP s (hs s (by simp)) st hw)

/-- **stack_history_wf — every reachable state of every stacking is well-formed.** Any finite
program of path operations, sessions and free use of open handles, on any path strings, on any
stacked filesystems sharing one world, from any state satisfying `Inv`, ends in a state
satisfying `Inv`: every memory leaf holds a well-formed tree (or the empty map, once its own
bare root was removed). -/
theorem stack_history_wf (steps : List Step) (hs : ∀ s ∈ steps, s.OnStack) (st : St)
    (hw : Inv st.world) : Inv (runSteps steps st).world :=
  stack_history_presP leafOK_closed steps hs st hw

/-- **the emptied leaf stays empty**: once the map of memory leaf `i0` is `[]` (its own root
was removed), no program puts anything into it again — `remove_dir` of the leaf root is the one
way out of `WF`, and there is no way back into a malformed non-empty state -/
theorem stack_history_empty_absorbing (i0 : Nat) (steps : List Step) (hs : ∀ s ∈ steps, s.OnStack)
    (st : St) (h0 : MemLeafAt st.world i0 []) :
    ∀ l, (runSteps steps st).world.leaf? i0 = some l → l.kind = .mem → l.files = [] := by
  have := stack_history_presP (emptyAt_closed i0) steps hs st (by
    intro i l hl hk hi
    subst hi
    unfold MemLeafAt at h0
    rw [h0] at hl; injection hl with hl; subst hl; rfl)
  intro l hl hk
  exact this i0 l hl hk rfl

/-! ### the initial world -/

/-- `n` fresh memory filesystems -/
def initWorld (n : Nat) : World := { leaves := List.replicate n { kind := .mem, files := Mem.init } }

theorem init_inv (n : Nat) : Inv (initWorld n) := by
  intro i l hl _
  unfold initWorld World.leaf? at hl
  simp only [List.getElem?_replicate] at hl
  split at hl
  · injection hl with hl; subst hl; exact Or.inl WF.init_mem
  · cases hl

/-- any mix of fresh memory and physical leaves -/
theorem init_inv_mixed (kinds : List LeafKind) :
    Inv { leaves := kinds.map fun k => { kind := k, files := if k = .mem then Mem.init else Phys.init } } := by
  intro i l hl hk
  unfold World.leaf? at hl
  simp only [List.getElem?_map] at hl
  cases hk' : kinds[i]? with
  | none => simp [hk'] at hl
  | some k =>
    simp only [hk', Option.map_some, Option.some.injEq] at hl
    subst hl
    simp only at hk
    subst hk
    exact Or.inl WF.init_mem

/-- from the initial world: every program on every stacking keeps all leaves well-formed -/
theorem stack_history_wf_init (n : Nat) (steps : List Step) (hs : ∀ s ∈ steps, s.OnStack) :
    Inv (runSteps steps { world := initWorld n, handles := [] }).world :=
  stack_history_wf steps hs _ (init_inv n)

/-! ### consequences for the observable tree of a memory leaf -/

/-- no entry of the map is an orphan: it is the root, or it has a '/' and its parent is an
existing directory -/
def NoOrphan (m : FMap) : Prop :=
  ∀ k e, m.find? k = some e → k ≠ [] →
    '/' ∈ k ∧ ∃ pe, m.find? (parentInternal k) = some pe ∧ pe.ftype = .dir

theorem leafOK_noOrphan {m : FMap} (h : LeafOK m) : NoOrphan m := by
  rcases h with h | h
  · exact h.2
  · subst h; intro k e hk; cases hk

section consequences
variable (steps : List Step) (hs : ∀ s ∈ steps, s.OnStack) (st : St) (hw : Inv st.world)
  (i : Nat) (m : FMap) (hm : MemLeafAt (runSteps steps st).world i m)
include hs hw hm

/-- after any history on any stacking, the map of every memory leaf is well-formed or empty
(`LeafOK m` unfolds to `WF m ∨ m = []`) -/
theorem stack_history_leaf : LeafOK m :=
  stack_history_wf steps hs st hw i _ hm rfl

/-- **no call can create an orphan** — unconditionally (root removal included) -/
theorem stack_history_no_orphan : NoOrphan m :=
  leafOK_noOrphan (stack_history_leaf steps hs st hw i m hm)

/-- **the root is an existing directory** unless the leaf's own root was removed, in which case
nothing at all exists in the leaf -/
theorem stack_history_root : (∃ e, m.find? [] = some e ∧ e.ftype = .dir) ∨ m = [] := by
  rcases stack_history_leaf steps hs st hw i m hm with h | h
  · exact Or.inl h.1
  · exact Or.inr h

/-- while the leaf's root entry exists, the tree is well-formed in full -/
theorem stack_history_wf_of_root (e : Entry) (he : m.find? [] = some e) : WF m :=
  LeafOK.wf_of_root (stack_history_leaf steps hs st hw i m hm) e he

/-- every entry is listed by `read_dir` of its parent, under its bare name -/
theorem stack_history_listed (k : Str) (e : Entry) (hk : m.find? k = some e) (hne : k ≠ []) :
    ∃ l, Mem.readDir m (parentInternal k) = .ok l ∧ afterLast '/' k ∈ l ∧ '/' ∉ afterLast '/' k := by
  have hwf : WF m := by
    apply (stack_history_leaf steps hs st hw i m hm).wf_of_ne
    intro h; subst h; cases hk
  exact listed_by_parent hwf k e hk hne

/-- every entry is reachable from the root through directory listings -/
theorem stack_history_reachable (k : Str) (e : Entry) (hk : m.find? k = some e) : Reach m k := by
  have hwf : WF m := by
    apply (stack_history_leaf steps hs st hw i m hm).wf_of_ne
    intro h; subst h; cases hk
  exact reachable hwf k.length k e (Nat.le_refl _) hk

end consequences

/-! ### non-vacuity: concrete stackings and worlds -/

/-- altroot of memory leaf 0 at "/up" -/
def exAlt : FS := Altroot.fs { fs := leafFS 0, fsId := 0, path := "/up".toList }

/-- overlay over (the altroot of leaf 0 at "/up", leaf 1 at its root) -/
def exOvl : FS :=
  Overlay.fs [{ fs := exAlt, fsId := 10, path := [] }, { fs := leafFS 1, fsId := 1, path := [] }]

/-- an altroot at "/sub" of that overlay, behind a fault wrapper, as the upper layer of a second
overlay whose lower layers are a recorded view of leaf 0 at "/up/low" and leaf 0 itself: three
adapters deep, leaf 0 shared by three routes -/
def exDeep : FS :=
  Overlay.fs [
    { fs := faultFS (Altroot.fs { fs := exOvl, fsId := 11, path := "/sub".toList }), fsId := 12, path := [] },
    { fs := recordFS 7 (leafFS 0), fsId := 13, path := "/up/low".toList },
    { fs := leafFS 0, fsId := 0, path := [] }]

theorem exAlt_stack : Stack exAlt := Stack.alt _ (Stack.leaf 0)

theorem exOvl_stack : Stack exOvl := by
  apply Stack.ovl _ (by simp)
  intro l hl
  simp only [List.mem_cons, List.mem_nil_iff, or_false] at hl
  rcases hl with rfl | rfl
  · exact exAlt_stack
  · exact Stack.leaf 1

theorem exDeep_stack : Stack exDeep := by
  apply Stack.ovl _ (by simp)
  intro l hl
  simp only [List.mem_cons, List.mem_nil_iff, or_false] at hl
  rcases hl with rfl | rfl | rfl
  · exact Stack.fault _ (Stack.alt _ exOvl_stack)
  · exact Stack.record 7 _ (Stack.leaf 0)
  · exact Stack.leaf 0

/-- the invariant holds in the world of two fresh memory leaves … -/
example : Inv (initWorld 2) := init_inv 2

/-- … and of a memory leaf next to a physical one -/
example : Inv { leaves := [{ kind := .mem, files := Mem.init }, { kind := .phys, files := Phys.init }] } :=
  init_inv_mixed [.mem, .phys]

/-- `WF` really holds there (the left disjunct, not the empty map) -/
example : ∃ m, MemLeafAt (initWorld 2) 1 m ∧ WF m ∧ m ≠ [] :=
  ⟨Mem.init, rfl, WF.init_mem, by simp [Mem.init]⟩

/-- a program over the three stackings sharing the two leaves: directories made directly on
leaf 0 and through the overlay, a write session through the overlay, a handle opened through the
deep stacking (it lands on leaf 0 at "/up/sub/g") and kept open, a cross-filesystem move, a
recursive removal through the plain leaf that makes the open handle stale, writes through the
stale handle and its drop, the removal of the root of leaf 0 itself (leaf 0 is then empty), and
a copy_dir through the adapters afterwards -/
def exProgram : List Step := [
  .op (.createDirAll { fs := leafFS 0, fsId := 0, path := "/up/low/x".toList }),
  .op (.createDir { fs := exOvl, fsId := 20, path := "/sub".toList }),
  .op (.writeSession { fs := exOvl, fsId := 20, path := "/f".toList } [.write [1, 2, 3], .flush, .write [4]]),
  .openCreate { fs := exDeep, fsId := 21, path := "/g".toList },
  .act 0 (.write [9]),
  .op (.moveFile { fs := exOvl, fsId := 20, path := "/f".toList } { fs := leafFS 1, fsId := 1, path := "/h".toList }),
  .op (.removeDirAll 8 { fs := leafFS 0, fsId := 0, path := "/up".toList }),
  .act 0 (.write [7]),
  .drop 0,
  .op (.removeDir { fs := leafFS 0, fsId := 0, path := [] }),
  .op (.copyDir 8 { fs := exDeep, fsId := 21, path := [] } { fs := exAlt, fsId := 22, path := "/c".toList })]

theorem exProgram_onStack : ∀ s ∈ exProgram, s.OnStack := by
  intro s hs
  simp only [exProgram, List.mem_cons, List.mem_nil_iff, or_false] at hs
  rcases hs with rfl | rfl | rfl | rfl | rfl | rfl | rfl | rfl | rfl | rfl | rfl
  · exact Stack.leaf 0
  · exact exOvl_stack
  · exact exOvl_stack
  · exact exDeep_stack
  · trivial
  · exact ⟨exOvl_stack, Stack.leaf 1⟩
  · exact Stack.leaf 0
  · trivial
  · trivial
  · exact Stack.leaf 0
  · exact ⟨exDeep_stack, exAlt_stack⟩

/-- the theorem applies to it. (Evaluating the program with `#eval` — not part of the proof —
gives, after step 6, leaf 0 = {"", /up, /up/low, /up/low/x, /up/sub, /up/sub/g, /up/.whiteout,
/up/.whiteout/f_wo} and leaf 1 = {"", /h}; after step 7 leaf 0 = {""}; the stale handle publishes
nothing; after step 10 leaf 0 = [] — the empty alternative of the invariant — and stays so.) -/
example : Inv (runSteps exProgram { world := initWorld 2, handles := [] }).world :=
  stack_history_wf_init 2 exProgram exProgram_onStack

end Vfs.C03
