/-
  C05 for the overlay — existence, metadata, listings and reads THROUGH an overlay over n ≥ 1
  in-memory layers tell one story, in every reachable state. These are the counterparts of the
  five observer theorems of Props/C05.lean (which are about one in-memory map), stated through
  `Overlay.fs (layersN …)` on the WORLD.

  SETTING: `h : OWN w (u :: is) (idu :: ids) (mu :: ms)`, `inv : OInv mu ms` (hidden state of the
  upper map in order), `hv : ViewWF (oview (mu :: ms))` (needed only where said); both are
  invariants of every disciplined history (Props/C03Overlay.lean). Paths: `OpPath cs` —
  canonical, non-root, first component ≠ ".whiteout", no component ending in "_wo" — or the root.

  PROVED (propext, Classical.choice, Quot.sound only)
  * `overlay_readDir_spec`      read_dir(p) = not-found / `Other` / the listing `pListingN`,
                                according to the view's entry at p; the world is unchanged.
  * `overlay_exists_iff_listed_once`  for `OpPath (ds ++ [n])`:
        exists(ds/n) answers true  ⇔  read_dir(ds) succeeds with a listing that contains `n`
        exactly once;   and whatever read_dir(ds) lists has no name twice. (⇒ uses `ViewWF`: the
        parent of a present path is a directory of the view. No hypothesis "read_dir succeeds".)
  * `overlay_isDir_iff_listable`  p is a directory of the view ⇔ metadata(p) reports a directory
                                ⇔ read_dir(p) succeeds (the root included: `overlay_root_listable`).
  * `overlay_isFile_iff_readable` p is a file of the view ⇔ metadata(p) reports a file ⇔
                                open_file(p) succeeds; `overlay_read_returns_content`: the handle
                                holds exactly the view's bytes at position 0.
  * `overlay_metadata_iff_exists` metadata(p) succeeds ⇔ exists(p) answers true;
                                `overlay_metadata_reports`: it reports the view's entry.
  * `overlay_absent_all_fail`   p absent from the view: exists answers false; metadata, read_dir,
                                open_file fail with not-found; the world is unchanged.
  * `overlay_listed_names_bare` every listed name is a bare name of an entry of the view.
  * `overlay_observers_one_story_history`: all of the above in the state after ANY finite
    disciplined history from well-formed type-consistent layers without markers.
  * non-vacuity on the 3-layer world of Props/C09Refine.lean, before and after its 12-call
    history (`decide`).
  NOT PROVED: walk_dir through the overlay (C05Walk is in-memory only); paths with a component
  ending in "_wo" or inside ".whiteout" (read_dir consults "/.whiteout" ++ p, which for such
  paths may be a marker FILE); the `VfsPath` wrappers (`is_dir`, `is_file`) on top.
-/
import VfsModel.Props.C03Overlay
set_option linter.unusedSimpArgs false
set_option linter.unusedVariables false
namespace Vfs.C05
open Vfs Vfs.Overlay Vfs.C02 Vfs.C01 Vfs.C09

section settingN
variable {w : World} {u idu : Nat} {mu : FMap} {is ids : List Nat} {ms : List FMap}
  (h : OWN w (u :: is) (idu :: ids) (mu :: ms)) (inv : OInv mu ms)
include h inv

/-- `read_dir` through the overlay, by the view's entry at the path (root included) -/
theorem overlay_readDir_spec (cs : List Str) (hcs : ∀ c ∈ cs, GoodComp c)
    (hnw : ∀ c ∈ cs, NoWo c) :
    (Overlay.fs (layersN (u :: is) (idu :: ids))).readDir (renderC cs) w =
      (match oview (mu :: ms) (renderC cs) with
       | none => .err .fileNotFound none
       | some e => if e.ftype = .dir then .ok (pListingN (mu :: ms) (renderC cs))
                   else .err .other none, w) := by
  show Overlay.readDir _ _ w = _
  rw [run_oreadDirN h cs hcs (inv.hwo hcs hnw)]
  rfl

/-- membership in the listing the overlay computes -/
theorem mem_listing (cs : List Str) (n : Str) :
    n ∈ pListingN (mu :: ms) (renderC cs) ↔
      ('/' ∉ n ∧ (viewN (mu :: ms) (renderC cs ++ '/' :: n)).isSome = true ∧
        (renderC cs = [] → n ≠ woDir)) :=
  mem_pListingN mu ms _ n (fun m hm => (inv.wf m hm).childrenHaveDir _)
    ((inv.wf mu (by simp)).childrenHaveDir _)

/-- **it is a directory iff it can be listed** (non-root path) — read off the view, off
`metadata`, and off `read_dir` -/
theorem overlay_isDir_iff_listable {cs : List Str} (hp : OpPath cs) :
    (VIsDir (oview (mu :: ms)) (renderC cs) ↔
      ((Overlay.fs (layersN (u :: is) (idu :: ids))).readDir (renderC cs) w).1.isOk = true) ∧
    ((∃ md, ((Overlay.fs (layersN (u :: is) (idu :: ids))).metadata (renderC cs) w).1 = .ok md ∧
        md.ftype = .dir) ↔
      ((Overlay.fs (layersN (u :: is) (idu :: ids))).readDir (renderC cs) w).1.isOk = true) := by
  rw [overlay_readDir_spec h inv cs hp.good hp.nowo, metadata_is_viewN h cs hp.ne hp.good]
  have hov : oview (mu :: ms) (renderC cs) = viewN (mu :: ms) (renderC cs) :=
    oview_ne (renderC_ne_nil hp.ne)
  unfold VIsDir
  rw [hov]
  cases hvw : viewN (mu :: ms) (renderC cs) with
  | none => simp [Res.isOk]
  | some e =>
    by_cases hd : e.ftype = .dir
    · simp [hd, Res.isOk, Entry.meta]
    · simp [hd, Res.isOk, Entry.meta]

/-- the root can always be listed, and `".whiteout"` is never among the names -/
theorem overlay_root_listable :
    ∃ lst, (Overlay.fs (layersN (u :: is) (idu :: ids))).readDir [] w = (.ok lst, w) ∧
      lst.Nodup ∧ woDir ∉ lst := by
  have := overlay_readDir_spec h inv [] (by simp) (by simp)
  obtain ⟨e, he, hd⟩ := rootIsDir (ms := ms) inv.root
  simp only [renderC_nil] at this
  rw [he] at this
  simp only [hd, if_true] at this
  exact ⟨_, this, nodup_pListingN _ _, woDir_not_listedN _⟩

/-- **it is a file iff it can be opened for reading** — read off the view, off `metadata`, and
off `open_file` -/
theorem overlay_isFile_iff_readable {cs : List Str} (hne : cs ≠ []) (hcs : ∀ c ∈ cs, GoodComp c) :
    (VIsFile (oview (mu :: ms)) (renderC cs) ↔
      ((Overlay.fs (layersN (u :: is) (idu :: ids))).openFile (renderC cs) w).1.isOk = true) ∧
    ((∃ md, ((Overlay.fs (layersN (u :: is) (idu :: ids))).metadata (renderC cs) w).1 = .ok md ∧
        md.ftype = .file) ↔
      ((Overlay.fs (layersN (u :: is) (idu :: ids))).openFile (renderC cs) w).1.isOk = true) := by
  rw [metadata_is_viewN h cs hne hcs]
  have hov : oview (mu :: ms) (renderC cs) = viewN (mu :: ms) (renderC cs) :=
    oview_ne (renderC_ne_nil hne)
  unfold VIsFile
  rw [hov]
  cases hvw : viewN (mu :: ms) (renderC cs) with
  | none => rw [openFile_absentN h cs hne hcs hvw]; simp [Res.isOk]
  | some e =>
    cases hd : e.ftype with
    | dir =>
      rw [openFile_dirN h cs hne hcs e hvw hd]
      simp [hd, Res.isOk, Entry.meta]
    | file =>
      obtain ⟨k, i, m, w', _, _, _, hopen, _, _⟩ := openFile_serves_viewN h cs hne hcs e hvw hd
      rw [hopen]
      simp [hd, Res.isOk, Entry.meta]

omit inv in
/-- the handle holds exactly the bytes of the view, at position 0; the world afterwards is again
in the setting (only an access stamp in the serving layer changed) -/
theorem overlay_read_returns_content {cs : List Str} (hne : cs ≠ []) (hcs : ∀ c ∈ cs, GoodComp c)
    {bs : Bytes} (hf : VHasFile (oview (mu :: ms)) (renderC cs) bs) :
    ∃ w' all', (Overlay.fs (layersN (u :: is) (idu :: ids))).openFile (renderC cs) w
        = (.ok { content := bs, pos := 0 }, w') ∧
      OWN w' (u :: is) (idu :: ids) all' := by
  obtain ⟨e, he, hfile, hc⟩ := hf
  rw [oview_ne (renderC_ne_nil hne)] at he
  obtain ⟨k, i, m, w', _, _, _, hopen, _, hown⟩ := openFile_serves_viewN h cs hne hcs e he hfile
  exact ⟨w', _, by rw [hopen, hc], hown⟩

omit inv in
/-- **metadata succeeds iff the path exists** -/
theorem overlay_metadata_iff_exists {cs : List Str} (hne : cs ≠ []) (hcs : ∀ c ∈ cs, GoodComp c) :
    ((Overlay.fs (layersN (u :: is) (idu :: ids))).metadata (renderC cs) w).1.isOk = true ↔
      ((Overlay.fs (layersN (u :: is) (idu :: ids))).exists_ (renderC cs) w).1 = .ok true := by
  rw [metadata_is_viewN h cs hne hcs, exists_is_viewN h cs hne hcs]
  cases viewN (mu :: ms) (renderC cs) <;> simp [Res.isOk]

omit inv in
/-- … and reports the entry of the view (type, length, times) -/
theorem overlay_metadata_reports {cs : List Str} (hne : cs ≠ []) (hcs : ∀ c ∈ cs, GoodComp c)
    {e : Entry} (he : oview (mu :: ms) (renderC cs) = some e) :
    (Overlay.fs (layersN (u :: is) (idu :: ids))).metadata (renderC cs) w = (.ok e.meta, w) := by
  rw [oview_ne (renderC_ne_nil hne)] at he
  rw [metadata_is_viewN h cs hne hcs, he]

/-- **absent paths fail every observer with not-found**, and nothing changes -/
theorem overlay_absent_all_fail {cs : List Str} (hp : OpPath cs)
    (ha : oview (mu :: ms) (renderC cs) = none) :
    (Overlay.fs (layersN (u :: is) (idu :: ids))).exists_ (renderC cs) w = (.ok false, w) ∧
    (Overlay.fs (layersN (u :: is) (idu :: ids))).metadata (renderC cs) w
      = (.err .fileNotFound none, w) ∧
    (Overlay.fs (layersN (u :: is) (idu :: ids))).readDir (renderC cs) w
      = (.err .fileNotFound none, w) ∧
    (Overlay.fs (layersN (u :: is) (idu :: ids))).openFile (renderC cs) w
      = (.err .fileNotFound none, w) := by
  have ha' := ha
  rw [oview_ne (renderC_ne_nil hp.ne)] at ha'
  refine ⟨?_, ?_, ?_, openFile_absentN h cs hp.ne hp.good ha'⟩
  · rw [exists_is_viewN h cs hp.ne hp.good, ha']; rfl
  · rw [metadata_is_viewN h cs hp.ne hp.good, ha']
  · rw [overlay_readDir_spec h inv cs hp.good hp.nowo, ha]

/-- every listed name is a bare name of an entry of the view, listed once -/
theorem overlay_listed_names_bare (cs : List Str) (hcs : ∀ c ∈ cs, GoodComp c)
    (hnw : ∀ c ∈ cs, NoWo c) (lst : List Str) (w' : World)
    (hl : (Overlay.fs (layersN (u :: is) (idu :: ids))).readDir (renderC cs) w = (.ok lst, w')) :
    w' = w ∧ lst.Nodup ∧ ∀ n ∈ lst, '/' ∉ n ∧ oview (mu :: ms) (renderC cs ++ '/' :: n) ≠ none := by
  rw [overlay_readDir_spec h inv cs hcs hnw] at hl
  cases hvw : oview (mu :: ms) (renderC cs) with
  | none => rw [hvw] at hl; simp at hl
  | some e =>
    rw [hvw] at hl
    by_cases hd : e.ftype = .dir
    · simp only [hd, if_true, Prod.mk.injEq, Res.ok.injEq] at hl
      obtain ⟨hl1, hl2⟩ := hl
      subst hl1
      refine ⟨hl2.symm, nodup_pListingN _ _, fun n hn => ?_⟩
      obtain ⟨hns, hsome, _⟩ := (mem_listing h inv cs n).1 hn
      refine ⟨hns, ?_⟩
      rw [oview_ne (by simp)]
      intro h0; rw [h0] at hsome; cases hsome
    · simp [hd] at hl

/-- **a path exists iff its parent lists its name — exactly once.** For a disciplined path
`ds/n`: `exists` answers true iff `read_dir` of the parent succeeds with a listing in which `n`
occurs exactly once; and no listing of the parent contains any name twice. -/
theorem overlay_exists_iff_listed_once (hv : ViewWF (oview (mu :: ms))) {ds : List Str} {n : Str}
    (hp : OpPath (ds ++ [n])) :
    (((Overlay.fs (layersN (u :: is) (idu :: ids))).exists_ (renderC (ds ++ [n])) w).1 = .ok true ↔
      ∃ lst, (Overlay.fs (layersN (u :: is) (idu :: ids))).readDir (renderC ds) w = (.ok lst, w) ∧
        lst.count n = 1) ∧
    (∀ lst w', (Overlay.fs (layersN (u :: is) (idu :: ids))).readDir (renderC ds) w = (.ok lst, w') →
      lst.Nodup ∧ lst.count n ≤ 1) := by
  have hspec := overlay_readDir_spec h inv ds hp.hds hp.nwds
  have hroot : renderC ds = [] → n ≠ woDir := by
    intro h0 hn
    have hd : ds = [] := by
      cases ds with
      | nil => rfl
      | cons d ds => simp at h0
    subst hd hn
    exact hp.head rfl
  have hmem : n ∈ pListingN (mu :: ms) (renderC ds) ↔
      (viewN (mu :: ms) (renderC (ds ++ [n]))).isSome = true := by
    rw [mem_listing h inv ds n, renderC_snoc]
    exact ⟨fun h1 => h1.2.1, fun h1 => ⟨hp.hn.noSlash, h1, hroot⟩⟩
  have hnd : ∀ lst w', (Overlay.fs (layersN (u :: is) (idu :: ids))).readDir (renderC ds) w
      = (.ok lst, w') → lst = pListingN (mu :: ms) (renderC ds) ∧ w' = w := by
    intro lst w' hl
    rw [hspec] at hl
    cases hvw : oview (mu :: ms) (renderC ds) with
    | none => rw [hvw] at hl; simp at hl
    | some e =>
      rw [hvw] at hl
      by_cases hd : e.ftype = .dir
      · simp only [hd, if_true, Prod.mk.injEq, Res.ok.injEq] at hl
        exact ⟨hl.1.symm, hl.2.symm⟩
      · simp [hd] at hl
  refine ⟨?_, ?_⟩
  · rw [exists_is_viewN h _ hp.ne hp.good]
    constructor
    · intro hex
      have hsome : (viewN (mu :: ms) (renderC (ds ++ [n]))).isSome = true := by
        simpa using hex
      have hpres : oview (mu :: ms) (renderC (ds ++ [n])) ≠ none := by
        rw [oview_NR hp.nr]; intro h0; rw [h0] at hsome; cases hsome
      have hpar := C03.viewWF_no_orphan hv hp.ne hp.good hp.head hpres
      rw [hp.parent] at hpar
      obtain ⟨e, he, hd⟩ := hpar
      refine ⟨pListingN (mu :: ms) (renderC ds), ?_, ?_⟩
      · rw [hspec, he]; simp only [hd, if_true]
      · rw [List.Nodup.count (nodup_pListingN _ _), if_pos (hmem.2 hsome)]
    · rintro ⟨lst, hl, hc⟩
      obtain ⟨rfl, _⟩ := hnd lst w hl
      have : n ∈ pListingN (mu :: ms) (renderC ds) := List.count_pos_iff.1 (by omega)
      rw [hmem.1 this]
  · intro lst w' hl
    obtain ⟨rfl, _⟩ := hnd lst w' hl
    have hnodup := nodup_pListingN (mu :: ms) (renderC ds)
    refine ⟨hnodup, ?_⟩
    rw [List.Nodup.count hnodup]
    split <;> omega

end settingN

/-! ### in every reachable state -/

/-- **the observers tell one story after every history.** Well-formed type-consistent layers
without markers; any finite history of disciplined mutators (O3 discipline for `remove_file`,
read off the overlay's own views). In the final world, for every disciplined path `ds/n`:
exists ⇔ listed exactly once by the parent; directory ⇔ listable; file ⇔ readable; metadata ⇔
exists; absent ⇒ every observer fails with not-found. -/
theorem overlay_observers_one_story_history (ops : List Mut) (hops : ∀ op ∈ ops, OpOK op)
    {w : World} {u idu : Nat} {mu : FMap} {is ids : List Nat} {ms : List FMap}
    (h : OWN w (u :: is) (idu :: ids) (mu :: ms)) (hwf : ∀ m ∈ mu :: ms, WF m)
    (hnw : NoWhiteout mu) (htc : TypeConsistent (mu :: ms))
    (hdisc : C03.ViewO3Free (Overlay.fs (layersN (u :: is) (idu :: ids))) (u :: is) ops w) :
    let fs := Overlay.fs (layersN (u :: is) (idu :: ids))
    let w' := (runOverlay fs ops w).2
    ∀ (ds : List Str) (n : Str), OpPath (ds ++ [n]) →
      ((fs.exists_ (renderC (ds ++ [n])) w').1 = .ok true ↔
        ∃ lst, fs.readDir (renderC ds) w' = (.ok lst, w') ∧ lst.count n = 1) ∧
      (∀ lst w'', fs.readDir (renderC ds) w' = (.ok lst, w'') → lst.Nodup) ∧
      ((∃ md, (fs.metadata (renderC (ds ++ [n])) w').1 = .ok md ∧ md.ftype = .dir) ↔
        (fs.readDir (renderC (ds ++ [n])) w').1.isOk = true) ∧
      ((∃ md, (fs.metadata (renderC (ds ++ [n])) w').1 = .ok md ∧ md.ftype = .file) ↔
        (fs.openFile (renderC (ds ++ [n])) w').1.isOk = true) ∧
      ((fs.metadata (renderC (ds ++ [n])) w').1.isOk = true ↔
        (fs.exists_ (renderC (ds ++ [n])) w').1 = .ok true) ∧
      ((fs.exists_ (renderC (ds ++ [n])) w').1 = .ok false →
        (fs.metadata (renderC (ds ++ [n])) w').1 = .err .fileNotFound none ∧
        (fs.readDir (renderC (ds ++ [n])) w').1 = .err .fileNotFound none ∧
        (fs.openFile (renderC (ds ++ [n])) w').1 = .err .fileNotFound none) := by
  intro fs w' ds n hp
  obtain ⟨mu', ms', hown, _, inv', hv', _⟩ :=
    C03.overlay_history_invariants ops hops h (OInv.initial hwf hnw) (ViewWF.initial hwf hnw htc)
      hdisc
  have h1 := overlay_exists_iff_listed_once hown inv' hv' hp
  refine ⟨h1.1, fun lst w'' hl => (h1.2 lst w'' hl).1, (overlay_isDir_iff_listable hown inv' hp).2,
    (overlay_isFile_iff_readable hown inv' hp.ne hp.good).2,
    overlay_metadata_iff_exists hown hp.ne hp.good, ?_⟩
  intro hex
  have hex' : (fs.exists_ (renderC (ds ++ [n])) w').1 = .ok false := hex
  have hview : oview (mu' :: ms') (renderC (ds ++ [n])) = none := by
    rw [exists_is_viewN hown _ hp.ne hp.good] at hex'
    rw [oview_NR hp.nr]
    cases hvw : viewN (mu' :: ms') (renderC (ds ++ [n])) with
    | none => rfl
    | some e => rw [hvw] at hex'; simp at hex'
  obtain ⟨_, a, b, c⟩ := overlay_absent_all_fail hown inv' hp hview
  exact ⟨by rw [a], by rw [b], by rw [c]⟩

/-! ### non-vacuity: the 3-layer world of Props/C09Refine.lean -/

section example3

/-- "/d/x" lives in layers 1 and 2: it exists, and "/d" lists "x" exactly once -/
example : (xfs.exists_ "/d/x".toList xw).1 = .ok true ∧
    ∃ lst, xfs.readDir "/d".toList xw = (.ok lst, xw) ∧ lst.count "x".toList = 1 := by
  have := (overlay_exists_iff_listed_once xw_setting xw_inv xw_viewWF
    (ds := ["d".toList]) (n := "x".toList) (by decide)).1
  have hex : (xfs.exists_ "/d/x".toList xw).1 = .ok true := by decide
  exact ⟨hex, this.1 hex⟩

example : (xfs.readDir "/d".toList xw).1 = .ok ["x".toList, "b".toList, "c".toList] := by decide

example := overlay_isDir_iff_listable xw_setting xw_inv (cs := ["e".toList]) (by decide)
example := overlay_isFile_iff_readable xw_setting xw_inv (cs := ["d".toList, "c".toList])
  (by simp) (by decide)
example := overlay_read_returns_content xw_setting (cs := ["d".toList, "x".toList]) (bs := [49])
  (by simp) (by decide) ⟨C09.fileOf [49], by decide, rfl, rfl⟩
example := overlay_absent_all_fail xw_setting xw_inv (cs := ["nope".toList]) (by decide) (by decide)
example := overlay_root_listable xw_setting xw_inv

/-- the history theorem, instantiated on the 12-call history -/
example := overlay_observers_one_story_history xOps xOps_ok xw_setting xw_wf
  (noWhiteout_of_keys (by decide)) (typeConsistent_of_keys (by decide)) C03.xOps_viewO3

/-- … and evaluated independently after the history: "/e" was emptied, removed and re-created
(layer 2 still holds "/e/z"), "/d" lists the union without the removed and with the new names -/
example : (xfs.readDir "/e".toList (runOverlay xfs xOps xw).2).1 = .ok [] := by decide +kernel
example : (xfs.exists_ "/e/z".toList (runOverlay xfs xOps xw).2).1 = .ok false := by
  decide +kernel
example : (xfs.readDir "/d".toList (runOverlay xfs xOps xw).2).1
    = .ok ["b".toList, "c".toList, "new".toList, "x".toList] := by decide +kernel

end example3

end Vfs.C05

section audit
open Vfs.C05
#print axioms overlay_readDir_spec
#print axioms overlay_exists_iff_listed_once
#print axioms overlay_isDir_iff_listable
#print axioms overlay_isFile_iff_readable
#print axioms overlay_read_returns_content
#print axioms overlay_metadata_iff_exists
#print axioms overlay_metadata_reports
#print axioms overlay_absent_all_fail
#print axioms overlay_listed_names_bare
#print axioms overlay_root_listable
#print axioms overlay_observers_one_story_history
end audit
