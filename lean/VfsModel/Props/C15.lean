/-
  C15 (streams and read handles) — async read handles and directory/walk streams deliver the
  same data as the sync readers and iterators, independently of how often futures and streams
  return Pending.

  Objects: `pollNext` (async `WalkDirIterator::poll_next`, src/async_vfs/path.rs) against
  `syncNext` (sync `WalkDirIterator::next`, src/path.rs), both of VfsModel/AsyncWalk.lean, over
  the same immutable tree; the pending oracle is an arbitrary `List Bool`.

   1. One-step stuttering simulation, for EVERY tree, async state and oracle — NO invariant on
      the async state is needed (the flags `rdFut`/`mdFut` do not steer the model, and `abs`
      puts `prev` back in front of the listing):
        `poll_pending_stutters`    Pending poll: `syncNext ∘ abs` unchanged
        `poll_ready_matches_sync`  Ready poll: it is the sync step, states correspond again
        `poll_pending_cost`, `poll_ready_cost`, `poll_ready_when_exhausted`
                                   a Pending poll eats exactly one `true` of the oracle, a Ready
                                   poll none; without `true`s left every poll is Ready
   2. Whole runs (`drive`, `syncRun`):
        `prefix_of_sync`           any schedule, any number of polls: a prefix of the sync run
        `complete_when_fair`       ≤ k pending answers: k + n polls contain n sync steps
        `exact_when_sync_terminates`  sync walk ends within n steps ⇒ any ≥ k + n polls deliver
                                   exactly the sync list
        `schedule_independent`     two oracles, enough polls each: equal lists
        `schedule_independent_prefix`  no assumptions at all: the two lists are comparable
        `walk_same_as_sync`        the above for the states `walk_dir` creates
   3. `no_item_lost_on_metadata_pending` (+ `metadata_pending_stores_next`,
      `metadata_pending_keeps`, `no_item_lost_two_polls`, `stored_path_is_delivered_first`):
      the path parked in `prev_result` while its metadata future is pending is the next item.
      Extra (not needed for 1–3): `WF`, `wf_init`, `wf_preserved` — stored futures are consistent
      (`metadata_fut` stored iff `prev_result` is; a stored `read_dir_fut` belongs to the top of
      a non-empty `todo` with the listing exhausted), which is why the model may ignore for
      which path a stored future was created.
   4. Non-vacuity: two concrete trees (nested directory; empty directory, failing listing,
      failing metadata) under several schedules, evaluated by the kernel (`decide +kernel`:
      plain kernel reduction, no axioms).
   5. The async in-memory read handle (`AsyncReadableFile`, current code) is the sync one:
        `seekA_eq_sync`, `readA_eq_sync`, `readA_no_panic`, `runA_eq_sync` (whole scripts);
      regression: `seekHist_differs_end`, `seekHist_differs_start`, `seekHist_ne_sync` — the
      historical `poll_seek` (before commit 7765d49) was not.

  Model check against the Rust (src/async_vfs/path.rs 1020-1111, src/path.rs 1015-1061): the
  control flow of `pollNext`/`findLoop`/`metaStep` and of `syncNext`/`syncFind` follows the code
  branch by branch (await points: inner stream, read_dir future of the top of `todo`, metadata
  future; pop on Ready; push of directories; `prev_result`/`metadata_fut` set and taken
  together). Assumptions built into the model, not discrepancies of control flow: listings are
  fused (a list), the tree is immutable during the walk and answers the sync and the async calls
  alike, a panic inside `read_dir`/`metadata` is encoded on both sides as the item
  `error other none` instead of an unwinding.
-/
import VfsModel.AsyncWalk
import VfsModel.Handle
namespace Vfs.C15
open Vfs.AsyncWalk

/-- the item both iterators yield for a path `x` taken from a listing -/
def mdItem (t : Tree) (x : Str) : Item :=
  match t.md x with
  | .ok _ => .path x
  | .err k p => .error k p
  | .panic => .error .other none

/-- the stack after yielding `x`: a directory is pushed -/
def mdPush (t : Tree) (x : Str) (todo : List Str) : List Str :=
  match t.md x with
  | .ok .dir => x :: todo
  | _ => todo

theorem syncNext_cons (t : Tree) (x : Str) (inner todo : List Str) :
    syncNext t { inner := x :: inner, todo := todo }
      = (some (mdItem t x), { inner := inner, todo := mdPush t x todo }) := by
  simp only [syncNext, syncFind, mdItem, mdPush]
  cases h : t.md x with
  | ok ty => cases ty <;> rfl
  | err k p => rfl
  | panic => rfl

theorem metaStep_eq (t : Tree) (s : AsyncSt) (x : Str) (o : List Bool) :
    metaStep t s x o =
      if (ask o).1 then (.pending, { s with prev := some x, mdFut := true }, (ask o).2)
      else (.ready (some (mdItem t x)),
            { s with prev := none, mdFut := false, todo := mdPush t x s.todo }, (ask o).2) := by
  simp only [metaStep, mdItem, mdPush]
  cases (ask o).1
  · cases h : t.md x with
    | ok ty => cases ty <;> simp
    | err k p => simp
    | panic => simp
  · simp

theorem syncFind_pop (t : Tree) (d : Str) (rest l : List Str) (h : t.ls d = .ok l) :
    syncFind t [] (d :: rest) = syncFind t l rest := by
  cases l with
  | nil => simp only [syncFind, h]
  | cons x inner => simp only [syncFind, h]

theorem findLoop_eq (t : Tree) (todo : List Str) (s : AsyncSt) (o : List Bool) :
    findLoop t todo s o =
      if (ask o).1 then (.pending, { s with todo := todo }, (ask o).2)
      else
        match s.inner with
        | x :: inner => metaStep t { s with inner := inner, todo := todo } x (ask o).2
        | [] =>
          match todo with
          | [] => (.ready none, { s with todo := [] }, (ask o).2)
          | d :: rest =>
            if (ask (ask o).2).1 then
              (.pending, { s with todo := d :: rest, rdFut := true }, (ask (ask o).2).2)
            else
              match t.ls d with
              | .ok l => findLoop t rest { s with inner := l, rdFut := false } (ask (ask o).2).2
              | .err k p => (.ready (some (.error k p)), { s with todo := rest, rdFut := false }, (ask (ask o).2).2)
              | .panic => (.ready (some (.error .other none)), { s with todo := rest, rdFut := false }, (ask (ask o).2).2) := by
  cases todo <;> rw [findLoop] <;> rfl

/-- the number of `Pending` answers left in an oracle -/
def pendings : List Bool → Nat
  | [] => 0
  | true :: o => pendings o + 1
  | false :: o => pendings o

/-- a `Pending` poll costs one pending answer of the oracle, a `Ready` poll none -/
def cost : Poll → Nat
  | .pending => 1
  | .ready _ => 0

theorem ask_pendings (o : List Bool) :
    pendings o = (if (ask o).1 then 1 else 0) + pendings (ask o).2 := by
  match o with
  | [] => rfl
  | true :: o => simp [ask, pendings, Nat.add_comm]
  | false :: o => simp [ask, pendings]

/-- one poll against the sync iterator standing at `a`: a `Pending` poll leaves what the sync
iterator does next unchanged, a `Ready` poll is the sync step -/
def Sim (t : Tree) (a : SyncSt) (p : Poll) (s' : AsyncSt) : Prop :=
  match p with
  | .pending => syncNext t (abs s') = syncNext t a
  | .ready item => syncNext t a = (item, abs s')

theorem metaStep_sim (t : Tree) (s : AsyncSt) (x : Str) (o : List Bool) :
    Sim t { inner := x :: s.inner, todo := s.todo } (metaStep t s x o).1 (metaStep t s x o).2.1
    ∧ pendings o = cost (metaStep t s x o).1 + pendings (metaStep t s x o).2.2 := by
  rw [metaStep_eq, ask_pendings o]
  cases (ask o).1
  · simp [Sim, cost, abs, syncNext_cons]
  · simp [Sim, cost, abs]

theorem findLoop_sim (t : Tree) (todo : List Str) (s : AsyncSt) (o : List Bool)
    (hp : s.prev = none) :
    Sim t { inner := s.inner, todo := todo } (findLoop t todo s o).1 (findLoop t todo s o).2.1
    ∧ pendings o = cost (findLoop t todo s o).1 + pendings (findLoop t todo s o).2.2 := by
  induction todo generalizing s o with
  | nil =>
    rw [findLoop_eq, ask_pendings o]
    cases (ask o).1
    · cases hi : s.inner with
      | nil => simp [Sim, cost, abs, hp, syncNext, syncFind]
      | cons x inner =>
        have := metaStep_sim t { s with inner := inner, todo := [] } x (ask o).2
        simpa using this
    · simp [Sim, cost, abs, hp]
  | cons d rest ih =>
    rw [findLoop_eq, ask_pendings o]
    cases (ask o).1
    · cases hi : s.inner with
      | nil =>
        simp only [Bool.false_eq_true, ↓reduceIte, Nat.zero_add]
        rw [ask_pendings (ask o).2]
        cases (ask (ask o).2).1
        · cases hl : t.ls d with
          | ok l =>
            have := ih { s with inner := l, rdFut := false } (ask (ask o).2).2 hp
            simp only [Bool.false_eq_true, ↓reduceIte, Nat.zero_add]
            refine ⟨?_, this.2⟩
            have h1 := this.1
            revert h1
            generalize findLoop t rest { s with inner := l, rdFut := false } (ask (ask o).2).2 = r
            cases r.1 <;> simp [Sim, syncNext, syncFind_pop t d rest l hl]
          | err k p => simp [Sim, cost, abs, hp, syncNext, syncFind, hl]
          | panic => simp [Sim, cost, abs, hp, syncNext, syncFind, hl]
        · simp [Sim, cost, abs, hp]
      | cons x inner =>
        have := metaStep_sim t { s with inner := inner, todo := d :: rest } x (ask o).2
        simpa using this
    · simp [Sim, cost, abs, hp]

theorem pollNext_sim (t : Tree) (s : AsyncSt) (o : List Bool) :
    Sim t (abs s) (pollNext t s o).1 (pollNext t s o).2.1
    ∧ pendings o = cost (pollNext t s o).1 + pendings (pollNext t s o).2.2 := by
  unfold pollNext
  cases hp : s.prev with
  | none =>
    have := findLoop_sim t s.todo s o hp
    simpa [abs, hp] using this
  | some x =>
    have := metaStep_sim t s x o
    simpa [abs, hp] using this

/-! ### 1. one-step stuttering simulation — no invariant on the async state is needed -/

/-- a `Pending` poll changes nothing observable: the sync iterator started from the abstraction
of the new state yields the same next item and reaches the same state as from the old one.
For every tree, every async state (reachable or not) and every oracle. -/
theorem poll_pending_stutters (t : Tree) (s s' : AsyncSt) (o o' : List Bool)
    (h : pollNext t s o = (.pending, s', o')) :
    syncNext t (abs s') = syncNext t (abs s) := by
  have := (pollNext_sim t s o).1
  rw [h] at this
  exact this

/-- a `Ready` poll yields exactly the item the sync iterator yields (`none` = end of the walk),
and the states correspond again. For every tree, every async state and every oracle. -/
theorem poll_ready_matches_sync (t : Tree) (s s' : AsyncSt) (o o' : List Bool) (item : Option Item)
    (h : pollNext t s o = (.ready item, s', o')) :
    syncNext t (abs s) = (item, abs s') := by
  have := (pollNext_sim t s o).1
  rw [h] at this
  exact this

/-- a `Pending` poll uses up exactly one pending answer of the oracle -/
theorem poll_pending_cost (t : Tree) (s s' : AsyncSt) (o o' : List Bool)
    (h : pollNext t s o = (.pending, s', o')) : pendings o = pendings o' + 1 := by
  have := (pollNext_sim t s o).2
  rw [h] at this
  simpa [cost, Nat.add_comm] using this

/-- a `Ready` poll uses up none -/
theorem poll_ready_cost (t : Tree) (s s' : AsyncSt) (o o' : List Bool) (item : Option Item)
    (h : pollNext t s o = (.ready item, s', o')) : pendings o = pendings o' := by
  have := (pollNext_sim t s o).2
  rw [h] at this
  simpa [cost] using this

/-- once the oracle has no pending answer left every poll is `Ready` -/
theorem poll_ready_when_exhausted (t : Tree) (s : AsyncSt) (o : List Bool) (h : pendings o = 0) :
    (pollNext t s o).1 ≠ .pending := by
  intro hp
  have := (pollNext_sim t s o).2
  rw [hp, h] at this
  simp [cost] at this
  omega

/-! ### 2. whole runs -/

/-- poll up to `fuel` times; collect the items of the `Ready(Some _)` polls; stop at
`Ready(None)` -/
def drive : Nat → Tree → AsyncSt → List Bool → List Item
  | 0, _, _, _ => []
  | fuel + 1, t, s, o =>
    match pollNext t s o with
    | (.pending, s', o') => drive fuel t s' o'
    | (.ready (some it), s', o') => it :: drive fuel t s' o'
    | (.ready none, _, _) => []

/-- call `next` up to `fuel` times, until `None` -/
def syncRun : Nat → Tree → SyncSt → List Item
  | 0, _, _ => []
  | fuel + 1, t, a =>
    match syncNext t a with
    | (some it, a') => it :: syncRun fuel t a'
    | (none, _) => []

/-- the sync run depends on the state only through what `next` does there -/
theorem syncRun_congr (t : Tree) (a b : SyncSt) (n : Nat) (h : syncNext t a = syncNext t b) :
    syncRun n t a = syncRun n t b := by
  cases n with
  | zero => rfl
  | succ n => simp only [syncRun, h]

/-- whatever the poll schedule, the items delivered so far are a prefix of the sync sequence:
same order, nothing skipped, nothing duplicated, nothing invented -/
theorem prefix_of_sync (t : Tree) (fuel : Nat) (s : AsyncSt) (o : List Bool) (fuel' : Nat)
    (hf : fuel ≤ fuel') : drive fuel t s o <+: syncRun fuel' t (abs s) := by
  induction fuel generalizing s o fuel' with
  | zero => exact List.nil_prefix
  | succ fuel ih =>
    obtain ⟨f', rfl⟩ : ∃ f', fuel' = f' + 1 := ⟨fuel' - 1, by omega⟩
    rw [drive]
    match hpoll : pollNext t s o with
    | (.pending, s', o') =>
      simp only
      rw [← syncRun_congr t (abs s') (abs s) _ (poll_pending_stutters t s s' o o' hpoll)]
      exact ih s' o' (f' + 1) (by omega)
    | (.ready (some it), s', o') =>
      simp only
      rw [syncRun, poll_ready_matches_sync t s s' o o' _ hpoll]
      simp only [List.cons_prefix_cons, true_and]
      exact ih s' o' f' (by omega)
    | (.ready none, s', o') => exact List.nil_prefix

/-- every future completes eventually: if the oracle holds at most `k` pending answers, then
`k + n` polls deliver at least everything `n` sync steps deliver -/
theorem complete_when_fair (t : Tree) (k n : Nat) (s : AsyncSt) (o : List Bool)
    (hk : pendings o ≤ k) : syncRun n t (abs s) <+: drive (k + n) t s o := by
  induction hm : k + n generalizing k n s o with
  | zero =>
    have : n = 0 := by omega
    subst this; exact List.nil_prefix
  | succ m ih =>
    cases n with
    | zero => exact List.nil_prefix
    | succ n =>
      rw [drive]
      match hpoll : pollNext t s o with
      | (.pending, s', o') =>
        simp only
        have hc := poll_pending_cost t s s' o o' hpoll
        rw [← syncRun_congr t (abs s') (abs s) _ (poll_pending_stutters t s s' o o' hpoll)]
        exact ih (k - 1) (n + 1) s' o' (by omega) (by omega)
      | (.ready (some it), s', o') =>
        simp only
        have hc := poll_ready_cost t s s' o o' _ hpoll
        rw [syncRun, poll_ready_matches_sync t s s' o o' _ hpoll]
        simp only [List.cons_prefix_cons, true_and]
        exact ih k n s' o' (by omega) (by omega)
      | (.ready none, s', o') =>
        rw [syncRun, poll_ready_matches_sync t s s' o o' _ hpoll]
        exact List.nil_prefix

/-- once `next` has returned `None` within `n` calls, more calls add nothing -/
theorem syncRun_stable (t : Tree) (n m : Nat) (a : SyncSt)
    (hterm : (syncRun n t a).length < n) (hm : n ≤ m) : syncRun m t a = syncRun n t a := by
  induction n generalizing a m with
  | zero => simp at hterm
  | succ n ih =>
    obtain ⟨m', rfl⟩ : ∃ m', m = m' + 1 := ⟨m - 1, by omega⟩
    rw [syncRun] at hterm
    rw [syncRun, syncRun]
    match hs : syncNext t a with
    | (some it, a') =>
      rw [hs] at hterm
      simp only [List.length_cons, Nat.add_lt_add_iff_right] at hterm
      simp only [List.cons.injEq, true_and]
      exact ih m' a' hterm (by omega)
    | (none, _) => rfl

/-- if the sync walk ends within `n` steps (`next` returns `None` among the first `n` calls) and
the oracle holds at most `k` pending answers, any `k + n` or more polls deliver exactly the sync
sequence -/
theorem exact_when_sync_terminates (t : Tree) (k n fuel : Nat) (s : AsyncSt) (o : List Bool)
    (hk : pendings o ≤ k) (hterm : (syncRun n t (abs s)).length < n) (hf : k + n ≤ fuel) :
    drive fuel t s o = syncRun n t (abs s) := by
  have h1 := complete_when_fair t k (fuel - k) s o hk
  rw [show k + (fuel - k) = fuel by omega,
    syncRun_stable t n (fuel - k) (abs s) hterm (by omega)] at h1
  have h2 := prefix_of_sync t fuel s o fuel (Nat.le_refl _)
  rw [syncRun_stable t n fuel (abs s) hterm (by omega)] at h2
  exact h2.eq_of_length_le h1.length_le

/-- the delivered list does not depend on the schedule: two oracles, enough polls for each -/
theorem schedule_independent (t : Tree) (k1 k2 n f1 f2 : Nat) (s : AsyncSt) (o1 o2 : List Bool)
    (h1 : pendings o1 ≤ k1) (h2 : pendings o2 ≤ k2)
    (hterm : (syncRun n t (abs s)).length < n) (hf1 : k1 + n ≤ f1) (hf2 : k2 + n ≤ f2) :
    drive f1 t s o1 = drive f2 t s o2 := by
  rw [exact_when_sync_terminates t k1 n f1 s o1 h1 hterm hf1,
    exact_when_sync_terminates t k2 n f2 s o2 h2 hterm hf2]

/-- without any assumption on termination or fairness: two runs of the same stream state under
any two schedules and any two numbers of polls never disagree — one delivered list is a prefix
of the other -/
theorem schedule_independent_prefix (t : Tree) (f1 f2 : Nat) (s : AsyncSt) (o1 o2 : List Bool) :
    drive f1 t s o1 <+: drive f2 t s o2 ∨ drive f2 t s o2 <+: drive f1 t s o1 :=
  List.prefix_or_prefix_of_prefix
    (prefix_of_sync t f1 s o1 (max f1 f2) (Nat.le_max_left _ _))
    (prefix_of_sync t f2 s o2 (max f1 f2) (Nat.le_max_right _ _))

/-- and under two fair schedules both runs contain the first `n` sync items -/
theorem schedule_independent_upto (t : Tree) (k1 k2 n : Nat) (s : AsyncSt) (o1 o2 : List Bool)
    (h1 : pendings o1 ≤ k1) (h2 : pendings o2 ≤ k2) :
    (drive (k1 + n) t s o1).take (syncRun n t (abs s)).length
      = (drive (k2 + n) t s o2).take (syncRun n t (abs s)).length := by
  have a := complete_when_fair t k1 n s o1 h1
  have b := complete_when_fair t k2 n s o2 h2
  rw [List.prefix_iff_eq_take] at a b
  rw [← a, ← b]

/-- the stream `walk_dir` creates stands for the iterator `walk_dir` creates -/
theorem abs_init (l : List Str) :
    abs { inner := l, todo := [] } = { inner := l, todo := [] } := rfl

/-- `walk_dir` on a listing `l`: if the sync walk ends within `n` steps, the async walk under any
schedule with at most `k` pending answers delivers, within `k + n` polls, exactly the sync list -/
theorem walk_same_as_sync (t : Tree) (l : List Str) (k n fuel : Nat) (o : List Bool)
    (hk : pendings o ≤ k) (hterm : (syncRun n t { inner := l, todo := [] }).length < n)
    (hf : k + n ≤ fuel) :
    drive fuel t { inner := l, todo := [] } o = syncRun n t { inner := l, todo := [] } :=
  exact_when_sync_terminates t k n fuel { inner := l, todo := [] } o hk hterm hf

/-! ### 3. the hazard named in the Rust comment: a path taken from the listing while its
metadata future is pending -/

theorem mdItem_ok (t : Tree) (x : Str) (ty : FType) (h : t.md x = .ok ty) :
    mdItem t x = .path x := by
  simp [mdItem, h]

/-- a `Pending` poll that leaves a path in `prev_result` (that is: the pending future was the
metadata future) has stored exactly the path the sync iterator yields next -/
theorem metadata_pending_stores_next (t : Tree) (s s' : AsyncSt) (o o' : List Bool) (x : Str)
    (h : pollNext t s o = (.pending, s', o')) (hx : s'.prev = some x) :
    syncNext t (abs s) = (some (mdItem t x), { inner := s'.inner, todo := mdPush t x s'.todo }) := by
  rw [← poll_pending_stutters t s s' o o' h]
  simp only [abs, hx]
  exact syncNext_cons t x s'.inner s'.todo

/-- further `Pending` polls keep the stored path, the listing and the stack -/
theorem metadata_pending_keeps (t : Tree) (s s' : AsyncSt) (o o' : List Bool) (x : Str)
    (hx : s.prev = some x) (h : pollNext t s o = (.pending, s', o')) :
    s'.prev = some x ∧ s'.inner = s.inner ∧ s'.todo = s.todo := by
  simp only [pollNext, hx, metaStep_eq] at h
  cases ha : (ask o).1 <;> simp [ha] at h
  obtain ⟨rfl, _⟩ := h
  simp

/-- the stored path is not dropped: the next `Ready` poll yields it (as `Ok(path)` when its
metadata can be read, as that metadata error otherwise), and it is then gone from `prev_result` -/
theorem no_item_lost_on_metadata_pending (t : Tree) (s s' : AsyncSt) (o o' : List Bool) (x : Str)
    (item : Option Item) (hx : s.prev = some x) (h : pollNext t s o = (.ready item, s', o')) :
    item = some (mdItem t x) ∧ s'.prev = none ∧ s'.inner = s.inner ∧ s'.todo = mdPush t x s.todo := by
  simp only [pollNext, hx, metaStep_eq] at h
  cases ha : (ask o).1 <;> simp [ha] at h
  obtain ⟨rfl, rfl, _⟩ := h
  simp

/-- the two polls together: Pending on the metadata of `x`, then Ready: the item is `x`'s, and it
is the item the sync iterator yields from the state before the Pending poll -/
theorem no_item_lost_two_polls (t : Tree) (s s1 s2 : AsyncSt) (o o1 o2 : List Bool) (x : Str)
    (item : Option Item)
    (h1 : pollNext t s o = (.pending, s1, o1)) (hx : s1.prev = some x)
    (h2 : pollNext t s1 o1 = (.ready item, s2, o2)) :
    item = some (mdItem t x) ∧ syncNext t (abs s) = (item, abs s2) := by
  refine ⟨(no_item_lost_on_metadata_pending t s1 s2 o1 o2 x item hx h2).1, ?_⟩
  rw [← poll_pending_stutters t s s1 o o1 h1]
  exact poll_ready_matches_sync t s1 s2 o1 o2 item h2

/-- any number of Pending polls later: with more polls than pending answers left, the first item
delivered is the stored path -/
theorem stored_path_is_delivered_first (t : Tree) (fuel : Nat) (s : AsyncSt) (o : List Bool)
    (x : Str) (hx : s.prev = some x) (hf : pendings o < fuel) :
    ∃ rest, drive fuel t s o = mdItem t x :: rest := by
  induction fuel generalizing s o with
  | zero => omega
  | succ fuel ih =>
    rw [drive]
    match hpoll : pollNext t s o with
    | (.pending, s', o') =>
      have hc := poll_pending_cost t s s' o o' hpoll
      exact ih s' o' (metadata_pending_keeps t s s' o o' x hx hpoll).1 (by omega)
    | (.ready item, s', o') =>
      have := (no_item_lost_on_metadata_pending t s s' o o' x item hx hpoll).1
      subst this
      exact ⟨_, rfl⟩

/-! ### the stored futures are consistent (not needed for 1–3; it justifies that the model may
ignore *which* directory/path a stored future was created for) -/

/-- `metadata_fut` is stored exactly when `prev_result` is; a stored `read_dir_fut` belongs to
the top of a non-empty `todo`, with the current listing exhausted and no `prev_result` -/
def WF (s : AsyncSt) : Prop :=
  s.mdFut = s.prev.isSome ∧ (s.rdFut = true → s.prev = none ∧ s.inner = [] ∧ s.todo ≠ [])

theorem wf_init (l : List Str) : WF { inner := l, todo := [] } := by simp [WF]

theorem findLoop_wf (t : Tree) (todo : List Str) (s : AsyncSt) (o : List Bool)
    (hp : s.prev = none) (hm : s.mdFut = false)
    (hr : s.rdFut = true → s.inner = [] ∧ todo ≠ []) : WF (findLoop t todo s o).2.1 := by
  have hcons : ∀ x inner, s.inner = x :: inner → s.rdFut = false := by
    intro x inner hi
    cases hb : s.rdFut with
    | false => rfl
    | true => have := (hr hb).1; simp [hi] at this
  induction todo generalizing s o with
  | nil =>
    have hrf : s.rdFut = false := by
      cases hb : s.rdFut with
      | false => rfl
      | true => exact absurd rfl (hr hb).2
    rw [findLoop_eq]
    cases (ask o).1
    · cases hi : s.inner with
      | nil => simp [WF, hp, hm, hrf]
      | cons x inner =>
        simp only [Bool.false_eq_true, ↓reduceIte, metaStep_eq]
        cases (ask (ask o).2).1 <;> simp [WF, hrf]
    · simp [WF, hp, hm, hrf]
  | cons d rest ih =>
    rw [findLoop_eq]
    cases (ask o).1
    · cases hi : s.inner with
      | nil =>
        simp only [Bool.false_eq_true, ↓reduceIte]
        cases (ask (ask o).2).1
        · cases hl : t.ls d with
          | ok l =>
            exact ih { s with inner := l, rdFut := false } _ hp hm (by simp) (by simp)
          | err k p => simp [WF, hp, hm]
          | panic => simp [WF, hp, hm]
        · simp [WF, hp, hm]
      | cons x inner =>
        have hrf := hcons x inner hi
        simp only [Bool.false_eq_true, ↓reduceIte, metaStep_eq]
        cases (ask (ask o).2).1 <;> simp [WF, hrf]
    · simp [WF, hp, hm]; intro h; exact (hr h).1

theorem wf_preserved (t : Tree) (s : AsyncSt) (o : List Bool) (h : WF s) :
    WF (pollNext t s o).2.1 := by
  unfold pollNext
  cases hp : s.prev with
  | none =>
    refine findLoop_wf t s.todo s o hp (by simp [h.1, hp]) (fun hr => ?_)
    exact (h.2 hr).2
  | some x =>
    have hr : s.rdFut = false := by
      cases hb : s.rdFut with
      | false => rfl
      | true => have := (h.2 hb).1; simp [hp] at this
    simp only [metaStep_eq]
    cases (ask o).1 <;> simp [WF, hr]

/-! ### 4. non-vacuity: concrete trees and schedules -/

def pa : Str := ['/', 'a']
def pb : Str := ['/', 'b']
def pax : Str := ['/', 'a', '/', 'x']

/-- root listing `[/a, /b]`; `/a` a directory holding `/a/x`; `/a/x` and `/b` files -/
def exTree : Tree where
  ls p := if p = pa then .ok [pax] else .err .other (some p)
  md p := if p = pa then .ok .dir else if p = pb ∨ p = pax then .ok .file
          else .err .fileNotFound (some p)

/-- the stream as `walk_dir` of the root creates it -/
def exInit : AsyncSt := { inner := [pa, pb], todo := [] }

/-- the sync walk: `todo` is a stack, the subdirectory is walked after its siblings -/
example : syncRun 10 exTree (abs exInit) = [.path pa, .path pb, .path pax] := by decide +kernel
/-- … and it has ended within 4 calls -/
example : (syncRun 4 exTree (abs exInit)).length < 4 := by decide +kernel

example : drive 10 exTree exInit [] = [.path pa, .path pb, .path pax] := by decide +kernel
example : drive 10 exTree exInit [true, false, true, true, false, false, true, false, false, true]
    = [.path pa, .path pb, .path pax] := by decide +kernel
example : drive 14 exTree exInit [true, true, true, true, true, true, true, true, true, true]
    = [.path pa, .path pb, .path pax] := by decide +kernel
/-- too few polls: a proper prefix, never anything else -/
example : drive 4 exTree exInit [true, false, true, true, false, false, true]
    = [.path pa] := by decide +kernel

/-- the polls really are Pending at the three kinds of await point -/
example : pollNext exTree exInit [true] = (.pending, exInit, []) := by decide +kernel
example : pollNext exTree exInit [false, true]
    = (.pending, { inner := [pb], todo := [], prev := some pa, mdFut := true }, []) := by decide +kernel
example : pollNext exTree { inner := [], todo := [pa] } [false, true]
    = (.pending, { inner := [], todo := [pa], rdFut := true }, []) := by decide +kernel
/-- the hazard: `/a` was taken from the listing, its metadata was pending; the next poll yields it -/
example : (pollNext exTree { inner := [pb], todo := [], prev := some pa, mdFut := true } []).1
    = .ready (some (.path pa)) := by decide +kernel

def pd : Str := ['/', 'd']
def pe : Str := ['/', 'e']
def pdx : Str := ['/', 'd', '/', 'x']
def pbad : Str := ['/', 'z']

/-- root listing `[/d, /e, /z]`; `/d` holds `/d/x`; `/e` is an empty directory (popped inside the
loop without yielding); `/z` is a directory whose listing fails; `/d/x` has unreadable metadata -/
def exTree2 : Tree where
  ls p := if p = pd then .ok [pdx] else if p = pe then .ok [] else .err .io (some p)
  md p := if p = pd ∨ p = pe ∨ p = pbad then .ok .dir else .err .fileNotFound (some p)

def exInit2 : AsyncSt := { inner := [pd, pe, pbad], todo := [] }

example : syncRun 10 exTree2 (abs exInit2)
    = [.path pd, .path pe, .path pbad, .error .io (some pbad), .error .fileNotFound (some pdx)] := by
  decide +kernel
example : drive 10 exTree2 exInit2 []
    = [.path pd, .path pe, .path pbad, .error .io (some pbad), .error .fileNotFound (some pdx)] := by
  decide +kernel
/-- Pending on the `read_dir` of `/d` right after the empty `/e` was popped in the same poll:
`abs` changes (the stack lost `/e`), the sync continuation does not -/
example : pollNext exTree2 { inner := [], todo := [pe, pd] } [false, false, false, true]
    = (.pending, { inner := [], todo := [pd], rdFut := true }, []) := by decide +kernel
example : drive 16 exTree2 exInit2
      [true, false, true, false, false, true, false, true, false, false, true, false, false, false, true]
    = [.path pd, .path pe, .path pbad, .error .io (some pbad), .error .fileNotFound (some pdx)] := by
  decide +kernel

/-! ### 5. the async read handle of the in-memory filesystem
(`AsyncReadableFile`, src/async_vfs/impls/memory.rs; `poll_read`/`poll_seek` never return
Pending, so one poll is the whole operation) -/

structure AsyncReader where
  content : Bytes
  cursorPos : Nat
  deriving DecidableEq, Repr

namespace AsyncReader

/-- the sync reader holding the same bytes at the same position -/
def toSync (r : AsyncReader) : RHandle := { content := r.content, pos := r.cursorPos }

/-- `poll_read` with a buffer of `n` bytes -/
def readA (r : AsyncReader) (n : Nat) : Res Bytes × AsyncReader :=
  let bytesLeft := r.content.length - r.cursorPos          -- `saturating_sub`
  let bytesRead := min n bytesLeft
  if bytesLeft = 0 then (.ok [], r)
  -- slice `content[cursor_pos .. cursor_pos + bytes_read]` out of range, or the sum overflowing
  else if r.cursorPos + bytesRead > r.content.length ∨ r.cursorPos + bytesRead ≥ u64Max then
    (.panic, r)
  else (.ok ((r.content.drop r.cursorPos).take bytesRead),
        { r with cursorPos := r.cursorPos + bytesRead })

/-- `new_pos` of `poll_seek`, an `i128` -/
def newPos (r : AsyncReader) : SeekFrom → Int
  | .start o => (o : Int)
  | .fromEnd o => (r.content.length : Int) + o
  | .cur o => (r.cursorPos : Int) + o

/-- `poll_seek` (current code) -/
def seekA (r : AsyncReader) (s : SeekFrom) : Res Nat × AsyncReader :=
  if r.newPos s < 0 ∨ r.newPos s > (u64Max : Int) - 1 then (fail .io, r)
  else (.ok (r.newPos s).toNat, { r with cursorPos := (r.newPos s).toNat })

/-- `new_pos` of the historical `poll_seek` (before commit 7765d49): `End(o)` relative to the
cursor and with the wrong sign -/
def newPosHist (r : AsyncReader) : SeekFrom → Int
  | .start o => (o : Int)
  | .fromEnd o => (r.cursorPos : Int) - o
  | .cur o => (r.cursorPos : Int) + o

/-- the historical `poll_seek`: error when `new_pos < 0 || new_pos >= len` -/
def seekHist (r : AsyncReader) (s : SeekFrom) : Res Nat × AsyncReader :=
  if r.newPosHist s < 0 ∨ r.newPosHist s ≥ (r.content.length : Int) then (fail .io, r)
  else (.ok (r.newPosHist s).toNat, { r with cursorPos := (r.newPosHist s).toNat })

end AsyncReader

/-- `SeekFrom::Start` carries a `u64` -/
def SeekInRange : SeekFrom → Prop
  | .start o => o < u64Max
  | _ => True

/-- the async seek is the sync seek: same outcome, same new position, on every input -/
theorem seekA_eq_sync (r : AsyncReader) (s : SeekFrom) (hs : SeekInRange s) :
    ((r.seekA s).1, (r.seekA s).2.toSync) = r.toSync.seek s := by
  unfold AsyncReader.seekA RHandle.seek
  cases s with
  | start o =>
    have : (o : Int) < (u64Max : Int) := by exact_mod_cast hs
    have h : ¬ ((o : Int) < 0 ∨ (o : Int) > (u64Max : Int) - 1) := by omega
    simp [AsyncReader.newPos, AsyncReader.toSync, h]
  | cur o =>
    simp only [AsyncReader.newPos, AsyncReader.toSync, RHandle.seekTarget]
    by_cases h : (r.cursorPos : Int) + o < 0 ∨ (r.cursorPos : Int) + o ≥ (u64Max : Int)
    · have h' : (r.cursorPos : Int) + o < 0 ∨ (r.cursorPos : Int) + o > (u64Max : Int) - 1 := by omega
      simp [h, h']
    · have h' : ¬ ((r.cursorPos : Int) + o < 0 ∨ (r.cursorPos : Int) + o > (u64Max : Int) - 1) := by omega
      simp [h, h']
  | fromEnd o =>
    simp only [AsyncReader.newPos, AsyncReader.toSync, RHandle.seekTarget]
    by_cases h : (r.content.length : Int) + o < 0 ∨ (r.content.length : Int) + o ≥ (u64Max : Int)
    · have h' : (r.content.length : Int) + o < 0 ∨ (r.content.length : Int) + o > (u64Max : Int) - 1 := by omega
      simp [h, h']
    · have h' : ¬ ((r.content.length : Int) + o < 0 ∨ (r.content.length : Int) + o > (u64Max : Int) - 1) := by omega
      simp [h, h']

/-- the async read is the sync read: same bytes, same new position, for every content shorter
than 2^64, every position (also past the end) and every buffer size (also 0) -/
theorem readA_eq_sync (r : AsyncReader) (n : Nat) (hlen : r.content.length < u64Max) :
    ((r.readA n).1, (r.readA n).2.toSync) = r.toSync.read n := by
  unfold AsyncReader.readA RHandle.read RHandle.amt RHandle.remaining
  simp only [AsyncReader.toSync, Bool.false_eq_true, ↓reduceIte]
  by_cases h0 : r.content.length - r.cursorPos = 0
  · simp [h0]
  · have hm : min n (r.content.length - r.cursorPos) ≤ r.content.length - r.cursorPos :=
      Nat.min_le_right _ _
    have hp : ¬ (r.cursorPos + min n (r.content.length - r.cursorPos) > r.content.length ∨
        r.cursorPos + min n (r.content.length - r.cursorPos) ≥ u64Max) := by omega
    simp only [h0, ↓reduceIte, hp]
    by_cases hn : min n (r.content.length - r.cursorPos) = 0
    · simp [hn]
    · simp [hn]

/-- hence neither async operation panics -/
theorem readA_no_panic (r : AsyncReader) (n : Nat) (hlen : r.content.length < u64Max) :
    (r.readA n).1 ≠ .panic := by
  have hm : min n (r.content.length - r.cursorPos) ≤ r.content.length - r.cursorPos :=
    Nat.min_le_right _ _
  unfold AsyncReader.readA
  simp only
  split
  · simp
  · split
    · omega
    · simp

/-- whole scripts of reads and seeks: the two handles stay in step -/
inductive ROp where
  | read (n : Nat)
  | seek (s : SeekFrom)

def ROp.InRange : ROp → Prop
  | .read _ => True
  | .seek s => SeekInRange s

def runA (r : AsyncReader) : List ROp → List (Res Bytes ⊕ Res Nat) × AsyncReader
  | [] => ([], r)
  | .read n :: ops => let (x, r') := r.readA n; let (xs, r'') := runA r' ops; (.inl x :: xs, r'')
  | .seek s :: ops => let (x, r') := r.seekA s; let (xs, r'') := runA r' ops; (.inr x :: xs, r'')

def runS (r : RHandle) : List ROp → List (Res Bytes ⊕ Res Nat) × RHandle
  | [] => ([], r)
  | .read n :: ops => let (x, r') := r.read n; let (xs, r'') := runS r' ops; (.inl x :: xs, r'')
  | .seek s :: ops => let (x, r') := r.seek s; let (xs, r'') := runS r' ops; (.inr x :: xs, r'')

theorem readA_content (r : AsyncReader) (n : Nat) : (r.readA n).2.content = r.content := by
  unfold AsyncReader.readA; simp only; split
  · rfl
  · split <;> rfl

theorem seekA_content (r : AsyncReader) (s : SeekFrom) : (r.seekA s).2.content = r.content := by
  unfold AsyncReader.seekA; split <;> rfl

theorem runA_eq_sync (r : AsyncReader) (ops : List ROp) (hlen : r.content.length < u64Max)
    (hops : ∀ op ∈ ops, op.InRange) :
    ((runA r ops).1, (runA r ops).2.toSync) = runS r.toSync ops := by
  induction ops generalizing r with
  | nil => rfl
  | cons op ops ih =>
    have hrest : ∀ op ∈ ops, op.InRange := fun op h => hops op (List.mem_cons_of_mem _ h)
    cases op with
    | read n =>
      have h := readA_eq_sync r n hlen
      have ih' := ih (r.readA n).2 (by rw [readA_content]; exact hlen) hrest
      simp only [runA, runS, ← h, ← ih']
    | seek s =>
      have h := seekA_eq_sync r s (hops (.seek s) List.mem_cons_self)
      have ih' := ih (r.seekA s).2 (by rw [seekA_content]; exact hlen) hrest
      simp only [runA, runS, ← h, ← ih']

/-! regression: the historical seek was not the sync seek -/

/-- `End(-1)` on a 3-byte file at position 0: the sync reader goes to 2, the historical async
reader went to 1 (cursor-relative, sign flipped) -/
theorem seekHist_differs_end :
    (({ content := [1, 2, 3], cursorPos := 0 } : AsyncReader).seekHist (.fromEnd (-1))).1 = .ok 1 ∧
    ((({ content := [1, 2, 3], cursorPos := 0 } : AsyncReader).toSync).seek (.fromEnd (-1))).1 = .ok 2 ∧
    (({ content := [1, 2, 3], cursorPos := 0 } : AsyncReader).seekA (.fromEnd (-1))).1 = .ok 2 := by
  decide

/-- `Start(0)` on an empty file, and seeking to the end of a file: errors historically, allowed
by the sync reader (and by std's cursor) -/
theorem seekHist_differs_start :
    (({ content := [], cursorPos := 0 } : AsyncReader).seekHist (.start 0)).1 = fail .io ∧
    ((({ content := [], cursorPos := 0 } : AsyncReader).toSync).seek (.start 0)).1 = .ok 0 ∧
    (({ content := [7], cursorPos := 0 } : AsyncReader).seekHist (.start 1)).1 = fail .io ∧
    ((({ content := [7], cursorPos := 0 } : AsyncReader).toSync).seek (.start 1)).1 = .ok 1 := by
  decide

theorem seekHist_ne_sync : ∃ (r : AsyncReader) (s : SeekFrom), SeekInRange s ∧
    ((r.seekHist s).1, (r.seekHist s).2.toSync) ≠ r.toSync.seek s :=
  ⟨{ content := [1, 2, 3], cursorPos := 0 }, .fromEnd (-1), trivial, by decide⟩

example : (({ content := [1, 2, 3], cursorPos := 1 } : AsyncReader).readA 5).1 = .ok [2, 3] := by
  decide
example : (({ content := [1, 2, 3], cursorPos := 9 } : AsyncReader).readA 5) =
    (.ok [], { content := [1, 2, 3], cursorPos := 9 }) := by decide

end Vfs.C15
