/-
  C19 over WHOLE HISTORIES — "Where a backend supports setting a timestamp, metadata afterwards
  reports exactly the value set for that field and leaves the other timestamps, the length, the
  type and the bytes unchanged … appending to a file preserves its creation time, and adapters
  report the timestamps of the entry they serve" — as a refinement to an independent
  specification of ONE path's observable record.

  WHAT IS PROVED
  1. Specification (`TRec`, `TOp`, `TOut`, `specStep`, `specHist`, `specStates`), written from the
     property text and src/impls/memory.rs, not by unfolding the model: the record (type, bytes,
     created, modified, accessed) of one path `k` under set_creation_time / set_modification_time /
     set_access_time / create session (create_file + write_all + drop) / append session /
     remove_file / create_dir / remove_dir / metadata / read (open_file + read_to_end; `open_file`
     of MemoryFS stamps `accessed` BEFORE its type check, so a refused read of a directory still
     touches `accessed` — the spec says so). The clock is a parameter `clk : TS` of the
     specification (the model stamps the abstract reading `TS.now`); `busy` = "k has children in
     the leaf" (constant over the history, only relevant for remove_dir).
     Outcomes are compared through `ofRes`: an error counts as `refused kind` only if it carries
     the path of the call (the `VfsPath` relabelling), anything else (panic, unlabelled error) is
     `abnormal`, which the specification never produces (`specStep_ne_abnormal`).
  2. `timestamps_history_exact`: for EVERY list of operations, run through the model's `VPath.*`
     methods on `{fs := leafFS i, path := k}` from any memory leaf in which the parent of `k` is a
     directory: the outcomes are the outcomes of the spec (step by step), the final entry at `k` is
     the spec's record (five fields), every other key keeps its entry, the world is the old world
     with leaf `i` replaced, `busy` is unchanged, and well-formedness `WF` is preserved.
     `timestamps_trace_exact` / `specStates_eq`: the same for every prefix (record after each step).
     Building blocks: `run_memStep` (VfsPath layer over the leaf = pure step `memStep`),
     `memStep_spec` (pure step = spec step), `memStep_upd` (frame), `memStep_WF`.
  3. Corollaries in the property's words: `set_then_metadata_exact` (after any history, a successful
     setter reads back exactly; other timestamps, len, type, bytes, other keys unchanged),
     `append_preserves_created_history`, `created_stable_without_recreation` (any history of
     appends / reads / metadata / setters of the other two fields keeps `created`),
     `timestamps_independent_of_content` (two histories that differ only in the bytes: equal
     outcomes up to bytes/len, equal type and timestamps after EVERY prefix; also across two
     different leaves that start with equal timestamps).
  4. Adapters:
     * `altroot_history_exact` — ALL ten operations, whole histories, through an AltrootFS over the
       leaf: the run is literally the run at the translated path (same outcomes, same world), hence
       the outcomes of the spec on the record of the SERVED entry. `altroot_paths_canon` discharges
       the two path hypotheses for canonical strings.
     * `overlay_history_exact_frag` — OverlayFS over two memory layers whose TOP layer serves `k`:
       histories of setters / metadata / reads / append sessions (no hypothesis on ancestors).
     * `overlay_history_exact_noremove` — the same with create sessions and `create_dir` as well
       (every operation except the two removals), when the ancestors of `k` are directories of the
       top layer (`AncTop`) and the first component of `k` is not ".whiteout".
       In both, the overlay run EQUALS the run of the history on the top layer at `k`.
     * `overlay_lower_served` (single steps): an entry served from the LOWER layer — `metadata`
       reports its timestamps, a read stamps its `accessed` in the lower layer, the setters are
       refused with not-found (they address the top layer) and change nothing.
  5. Non-vacuity (§7): a concrete world, a history of 21 steps mixing all ten operation kinds; the
     hypotheses hold, and spec, leaf run, altroot run, overlay runs are evaluated by `decide`.

  HYPOTHESES of the main theorem: leaf `i` of the world is a memory leaf (`MemLeafAt`), `'/' ∈ k`,
  and the parent of `k` is an existing directory of that leaf (`ParentDir`). Nothing else
  (well-formedness is not needed, but is shown to be preserved).

  NOT PROVED HERE: overlay histories that contain `remove_file` / `remove_dir` (these move the path
  behind a whiteout) — see Props/C19HistoryOverlay.lean, which proves them for all ten operations
  under the side condition "remove_dir is not applied to a directory" resp. for paths without
  children; the fully general statement (remove_dir of a directory with children in some layer) is
  kept as `overlay_history_exact_stmt`. Overlays with more than two layers or non-root layers;
  PhysicalFS histories (C19.phys_* are single-step; `set_creation_time` is NotSupported there).
-/
import VfsModel.Props.C19
import VfsModel.Proofs.OverlayLemmas
namespace Vfs.C19
open Vfs.FMap
set_option linter.unusedSimpArgs false

/-! ## 1. The specification -/

/-- the observable record of one path -/
structure TRec where
  ftype : FType
  bytes : Bytes
  created : TS
  modified : TS
  accessed : TS
  deriving DecidableEq, Repr

/-- operations aimed at the one path -/
inductive TOp where
  | setCreated (t : Int)
  | setModified (t : Int)
  | setAccessed (t : Int)
  /-- `create_file()?.write_all(b)`, drop -/
  | write (b : Bytes)
  /-- `append_file()?.write_all(b)`, drop -/
  | append (b : Bytes)
  | removeFile
  | createDir
  | removeDir
  | metadata
  /-- `open_file()?.read_to_end()` -/
  | read
  deriving DecidableEq, Repr

/-- observable outcomes. `abnormal` (a panic, or an error not labelled with the path of the call)
is never produced by the specification. -/
inductive TOut where
  | done
  | info (md : Meta)
  | data (b : Bytes)
  | refused (kind : ErrKind)
  | abnormal
  deriving DecidableEq, Repr

def TRec.info (r : TRec) : Meta :=
  { ftype := r.ftype, len := r.bytes.length, created := r.created, modified := r.modified,
    accessed := r.accessed }

/-- a file / directory that comes into being at clock reading `clk` -/
def TRec.fresh (ft : FType) (b : Bytes) (clk : TS) : TRec :=
  { ftype := ft, bytes := b, created := clk, modified := clk, accessed := clk }

/-- One step of the specification. `busy`: the path has children (then it is a directory that
cannot be removed); `clk`: the clock reading used for every stamp of this step. -/
def specStep (busy : Bool) (clk : TS) : Option TRec → TOp → Option TRec × TOut
  -- setters: exactly the field named, nothing else; not-found on a missing path
  | none, .setCreated _ => (none, .refused .fileNotFound)
  | none, .setModified _ => (none, .refused .fileNotFound)
  | none, .setAccessed _ => (none, .refused .fileNotFound)
  | some r, .setCreated t => (some { r with created := .at t }, .done)
  | some r, .setModified t => (some { r with modified := .at t }, .done)
  | some r, .setAccessed t => (some { r with accessed := .at t }, .done)
  -- create session: a NEW file (truncate semantics: all three stamps are the clock); refused on a
  -- directory
  | none, .write b => (some (TRec.fresh .file b clk), .done)
  | some r, .write b =>
    match r.ftype with
    | .file => (some (TRec.fresh .file b clk), .done)
    | .dir => (some r, .refused .other)
  -- append session: bytes extended, `modified` stamped, `created` and `accessed` kept
  | none, .append _ => (none, .refused .fileNotFound)
  | some r, .append b =>
    match r.ftype with
    | .file => (some { r with bytes := r.bytes ++ b, modified := clk }, .done)
    | .dir => (some r, .refused .other)
  | none, .removeFile => (none, .refused .fileNotFound)
  | some r, .removeFile =>
    match r.ftype with
    | .file => (none, .done)
    | .dir => (some r, .refused .other)
  | none, .createDir => (some (TRec.fresh .dir [] clk), .done)
  | some r, .createDir =>
    match r.ftype with
    | .file => (some r, .refused .fileExists)
    | .dir => (some r, .refused .dirExists)
  | none, .removeDir => (none, .refused .fileNotFound)
  | some r, .removeDir =>
    match r.ftype with
    | .file => (some r, .refused .other)
    | .dir => if busy then (some r, .refused .other) else (none, .done)
  -- metadata: a pure observation
  | none, .metadata => (none, .refused .fileNotFound)
  | some r, .metadata => (some r, .info r.info)
  -- read: opening stamps `accessed` (before the type check), the bytes are reported
  | none, .read => (none, .refused .fileNotFound)
  | some r, .read =>
    match r.ftype with
    | .file => (some { r with accessed := clk }, .data r.bytes)
    | .dir => (some { r with accessed := clk }, .refused .other)

/-- a whole history: outcomes and final record -/
def specHist (busy : Bool) (clk : TS) : Option TRec → List TOp → List TOut × Option TRec
  | r, [] => ([], r)
  | r, op :: ops =>
    ((specStep busy clk r op).2 :: (specHist busy clk (specStep busy clk r op).1 ops).1,
     (specHist busy clk (specStep busy clk r op).1 ops).2)

/-- the record after each step -/
def specStates (busy : Bool) (clk : TS) : Option TRec → List TOp → List (Option TRec)
  | _, [] => []
  | r, op :: ops => (specStep busy clk r op).1 :: specStates busy clk (specStep busy clk r op).1 ops

theorem specStep_ne_abnormal (busy : Bool) (clk : TS) (r : Option TRec) (op : TOp) :
    (specStep busy clk r op).2 ≠ .abnormal := by
  cases op <;> cases r <;> simp only [specStep] <;>
    first
    | (intro h; cases h)
    | (rename_i r; cases r.ftype <;> simp only [] <;> first | (intro h; cases h) | (split <;> intro h <;> cases h))

theorem specHist_append (busy : Bool) (clk : TS) (r : Option TRec) (a b : List TOp) :
    specHist busy clk r (a ++ b) =
      ((specHist busy clk r a).1 ++ (specHist busy clk (specHist busy clk r a).2 b).1,
       (specHist busy clk (specHist busy clk r a).2 b).2) := by
  induction a generalizing r with
  | nil => rfl
  | cons op a ih => simp only [List.cons_append, specHist, ih]

/-! ## 2. The model side -/

/-- observation of a model outcome of a call on the path `k` -/
def ofRes {α} (k : Str) (f : α → TOut) : Res α → TOut
  | .ok a => f a
  | .err kind (some p) => if p = k then .refused kind else .abnormal
  | .err _ none => .abnormal
  | .panic => .abnormal

/-- one operation through the `VfsPath` methods -/
def runOp (p : VPath) : TOp → World → TOut × World
  | .setCreated t, w => (ofRes p.path (fun _ => .done) (p.setCreationTime t w).1, (p.setCreationTime t w).2)
  | .setModified t, w =>
    (ofRes p.path (fun _ => .done) (p.setModificationTime t w).1, (p.setModificationTime t w).2)
  | .setAccessed t, w => (ofRes p.path (fun _ => .done) (p.setAccessTime t w).1, (p.setAccessTime t w).2)
  | .write b, w =>
    (ofRes p.path (fun _ => .done) ((do let h ← p.createFile; h.writeAllAndDrop b : M Unit) w).1,
      ((do let h ← p.createFile; h.writeAllAndDrop b : M Unit) w).2)
  | .append b, w =>
    (ofRes p.path (fun _ => .done) ((do let h ← p.appendFile; h.writeAllAndDrop b : M Unit) w).1,
      ((do let h ← p.appendFile; h.writeAllAndDrop b : M Unit) w).2)
  | .removeFile, w => (ofRes p.path (fun _ => .done) (p.removeFile w).1, (p.removeFile w).2)
  | .createDir, w => (ofRes p.path (fun _ => .done) (p.createDir w).1, (p.createDir w).2)
  | .removeDir, w => (ofRes p.path (fun _ => .done) (p.removeDir w).1, (p.removeDir w).2)
  | .metadata, w => (ofRes p.path .info (p.metadata w).1, (p.metadata w).2)
  | .read, w =>
    (ofRes p.path .data ((do let h ← p.openFile; M.ret h.readToEnd.1 : M Bytes) w).1,
      ((do let h ← p.openFile; M.ret h.readToEnd.1 : M Bytes) w).2)

def runHist (p : VPath) : List TOp → World → List TOut × World
  | [], w => ([], w)
  | op :: ops, w =>
    ((runOp p op w).1 :: (runHist p ops (runOp p op w).2).1, (runHist p ops (runOp p op w).2).2)

theorem runHist_append (p : VPath) (a b : List TOp) (w : World) :
    runHist p (a ++ b) w =
      ((runHist p a w).1 ++ (runHist p b (runHist p a w).2).1, (runHist p b (runHist p a w).2).2) := by
  induction a generalizing w with
  | nil => rfl
  | cons op a ih => simp only [List.cons_append, runHist, ih]

/-- abstraction: the record of an entry -/
def recOf (e : Entry) : TRec :=
  { ftype := e.ftype, bytes := e.content, created := e.created, modified := e.modified,
    accessed := e.accessed }

def absAt (m : FMap) (k : Str) : Option TRec := (m.find? k).map recOf

/-- `k` has children in the map -/
def busyAt (m : FMap) (k : Str) : Bool := decide (m.keys.filterMap (childName k) ≠ [])

/-- the operation as a pure function of the leaf's map -/
def memStep (m : FMap) (k : Str) : TOp → TOut × FMap
  | .setCreated t =>
    (ofRes k (fun _ => .done) ((Mem.setCreated m k (.at t)).1.withPath k), (Mem.setCreated m k (.at t)).2)
  | .setModified t =>
    (ofRes k (fun _ => .done) ((Mem.setModified m k (.at t)).1.withPath k), (Mem.setModified m k (.at t)).2)
  | .setAccessed t =>
    (ofRes k (fun _ => .done) ((Mem.setAccessed m k (.at t)).1.withPath k), (Mem.setAccessed m k (.at t)).2)
  | .write b => (ofRes k (fun _ => .done) (Mem.pWrite m k b).1, (Mem.pWrite m k b).2)
  | .append b => (ofRes k (fun _ => .done) (Mem.pAppend m k b).1, (Mem.pAppend m k b).2)
  | .removeFile => (ofRes k (fun _ => .done) (Mem.pRemoveFile m k).1, (Mem.pRemoveFile m k).2)
  | .createDir => (ofRes k (fun _ => .done) (Mem.pCreateDir m k).1, (Mem.pCreateDir m k).2)
  | .removeDir => (ofRes k (fun _ => .done) (Mem.pRemoveDir m k).1, (Mem.pRemoveDir m k).2)
  | .metadata => (ofRes k .info ((Mem.metadata m k).withPath k), m)
  | .read =>
    (ofRes k .data
      (match (Mem.openFile m k).1.withPath k with
       | .ok h => h.readToEnd.1
       | .err kind pth => .err kind pth
       | .panic => .panic), (Mem.openFile m k).2)

section run
variable {w : World} {i : Nat} {m : FMap} (h : MemLeafAt w i m)
include h

theorem run_setCreationTime (p : Str) (t : Int) :
    (leafFS i).setCreationTime p t w =
      ((Mem.setCreated m p (.at t)).1, w.setLeafFiles i (Mem.setCreated m p (.at t)).2) := by
  show onLeaf i _ w = _
  rw [run_onLeaf h]

theorem run_setModificationTime (p : Str) (t : Int) :
    (leafFS i).setModificationTime p t w =
      ((Mem.setModified m p (.at t)).1, w.setLeafFiles i (Mem.setModified m p (.at t)).2) := by
  show onLeaf i _ w = _
  rw [run_onLeaf h]

theorem run_setAccessTime (p : Str) (t : Int) :
    (leafFS i).setAccessTime p t w =
      ((Mem.setAccessed m p (.at t)).1, w.setLeafFiles i (Mem.setAccessed m p (.at t)).2) := by
  show onLeaf i _ w = _
  rw [run_onLeaf h]

/-- every operation through the `VfsPath` layer over the leaf computes `memStep` -/
theorem run_memStep (id : Nat) (k : Str) (op : TOp) :
    runOp { fs := leafFS i, fsId := id, path := k } op w =
      ((memStep m k op).1, w.setLeafFiles i (memStep m k op).2) := by
  cases op with
  | setCreated t =>
    simp only [runOp, memStep, VPath.setCreationTime, M.withPath, run_setCreationTime h]
  | setModified t =>
    simp only [runOp, memStep, VPath.setModificationTime, M.withPath, run_setModificationTime h]
  | setAccessed t =>
    simp only [runOp, memStep, VPath.setAccessTime, M.withPath, run_setAccessTime h]
  | write b => simp only [runOp, memStep, run_pWrite h]
  | append b => simp only [runOp, memStep, run_pAppend h]
  | removeFile => simp only [runOp, memStep, run_pRemoveFile h]
  | createDir => simp only [runOp, memStep, run_pCreateDir h]
  | removeDir => simp only [runOp, memStep, run_pRemoveDir h]
  | metadata =>
    simp only [runOp, memStep, VPath.metadata, M.withPath, run_metadata h, h.same]
  | read =>
    simp only [runOp, memStep, VPath.openFile, M.withPath, bind, M.bind, run_openFile h]
    cases (Mem.openFile m k).1 <;> simp [Res.withPath, M.ret]

end run

/-! ### the pure step refines the specification -/

/-- the discipline: `k` is not the root and its parent is an existing directory of the map -/
def ParentDir (m : FMap) (k : Str) : Prop :=
  '/' ∈ k ∧ ∃ pe, m.find? (parentInternal k) = some pe ∧ pe.ftype = .dir

/-- `m'` differs from `m` at most at the key `k` (and lists the same children of `k`) -/
def Upd (m : FMap) (k : Str) (m' : FMap) : Prop :=
  (∀ k', k' ≠ k → m'.find? k' = m.find? k') ∧
  m'.keys.filterMap (childName k) = m.keys.filterMap (childName k)

theorem childName_self (k : Str) : childName k k = none := by
  unfold childName
  have : (k ++ ['/']).isPrefixOf k = false := by
    cases hh : (k ++ ['/']).isPrefixOf k with
    | false => rfl
    | true =>
      rw [List.isPrefixOf_iff_prefix] at hh
      have := hh.length_le
      simp at this
      omega
  simp only [this]
  rfl

theorem keys_erase_children (m : FMap) (k : Str) :
    (FMap.erase m k).keys.filterMap (childName k) = m.keys.filterMap (childName k) := by
  induction m with
  | nil => rfl
  | cons kv rest ih =>
    obtain ⟨k1, v⟩ := kv
    rw [erase_cons]
    by_cases h1 : k1 = k
    · subst h1
      simp only [FMap.keys] at ih
      simp only [if_true, FMap.keys, List.map_cons, List.filterMap_cons, childName_self]
      exact ih
    · simp only [h1, if_false, FMap.keys, List.map_cons, List.filterMap_cons]
      simp only [FMap.keys] at ih
      rw [ih]

theorem Upd.refl (m : FMap) (k : Str) : Upd m k m := ⟨fun _ _ => rfl, rfl⟩

theorem Upd.insert (m : FMap) (k : Str) (v : Entry) : Upd m k (m.insert k v) := by
  refine ⟨fun k' hk => find?_insert_ne m k k' v hk, ?_⟩
  show (FMap.keys ((k, v) :: FMap.erase m k)).filterMap (childName k) = _
  simp only [FMap.keys, List.map_cons, List.filterMap_cons, childName_self]
  exact keys_erase_children m k

theorem Upd.erase (m : FMap) (k : Str) : Upd m k (FMap.erase m k) :=
  ⟨fun k' hk => find?_erase_ne m k k' hk, keys_erase_children m k⟩

theorem Upd.trans {m m1 m2 : FMap} {k : Str} (h1 : Upd m k m1) (h2 : Upd m1 k m2) : Upd m k m2 :=
  ⟨fun k' hk => (h2.1 k' hk).trans (h1.1 k' hk), h2.2.trans h1.2⟩

theorem Upd.busy {m m' : FMap} {k : Str} (h : Upd m k m') : busyAt m' k = busyAt m k := by
  unfold busyAt; rw [h.2]

theorem upd_setCreated (m : FMap) (k : Str) (t : TS) : Upd m k (Mem.setCreated m k t).2 := by
  unfold Mem.setCreated; split
  · exact Upd.refl m k
  · exact Upd.insert m k _

theorem upd_setModified (m : FMap) (k : Str) (t : TS) : Upd m k (Mem.setModified m k t).2 := by
  unfold Mem.setModified; split
  · exact Upd.refl m k
  · exact Upd.insert m k _

theorem upd_setAccessed (m : FMap) (k : Str) (t : TS) : Upd m k (Mem.setAccessed m k t).2 := by
  unfold Mem.setAccessed; split
  · exact Upd.refl m k
  · exact Upd.insert m k _

theorem upd_memPublish (m : FMap) (k : Str) (b : Bytes) : Upd m k (memPublish m k b) := by
  unfold memPublish; split
  · split
    · exact Upd.insert m k _
    · exact Upd.refl m k
  · exact Upd.refl m k

theorem upd_createFile (m : FMap) (k : Str) : Upd m k (Mem.createFile m k).2 := by
  unfold Mem.createFile
  split
  · split
    · split
      · exact Upd.refl m k
      · exact Upd.insert m k _
    · exact Upd.insert m k _
  · exact Upd.refl m k
  · exact Upd.refl m k

theorem upd_createDir (m : FMap) (k : Str) : Upd m k (Mem.createDir m k).2 := by
  unfold Mem.createDir
  split
  · split
    · exact Upd.refl m k
    · exact Upd.insert m k _
  · exact Upd.refl m k
  · exact Upd.refl m k

theorem upd_removeFile (m : FMap) (k : Str) : Upd m k (Mem.removeFile m k).2 := by
  unfold Mem.removeFile
  split
  · exact Upd.refl m k
  · split
    · exact Upd.refl m k
    · exact Upd.erase m k

theorem upd_removeDir (m : FMap) (k : Str) : Upd m k (Mem.removeDir m k).2 := by
  unfold Mem.removeDir
  split
  · split
    · exact Upd.refl m k
    · split
      · exact Upd.erase m k
      · exact Upd.refl m k
  · exact Upd.refl m k
  · exact Upd.refl m k

theorem upd_openFile (m : FMap) (k : Str) : Upd m k (Mem.openFile m k).2 := by
  have := upd_setAccessed m k .now
  unfold Mem.openFile
  cases hs : Mem.setAccessed m k .now with
  | mk r m' =>
    rw [hs] at this
    cases r with
    | ok _ =>
      dsimp only
      split
      · exact this
      · split <;> exact this
    | err _ _ => exact this
    | panic => exact this

/-- every step changes the map at most at `k` -/
theorem memStep_upd (m : FMap) (k : Str) (op : TOp) : Upd m k (memStep m k op).2 := by
  cases op with
  | setCreated t => exact upd_setCreated m k _
  | setModified t => exact upd_setModified m k _
  | setAccessed t => exact upd_setAccessed m k _
  | write b =>
    show Upd m k (Mem.pWrite m k b).2
    unfold Mem.pWrite
    split
    · have := upd_createFile m k
      cases hc : Mem.createFile m k with
      | mk r m' =>
        rw [hc] at this
        cases r with
        | ok _ => exact this.trans (upd_memPublish m' k _)
        | err _ _ => exact this
        | panic => exact this
    · exact Upd.refl m k
  | append b =>
    show Upd m k (Mem.pAppend m k b).2
    unfold Mem.pAppend
    split
    · exact upd_memPublish m k _
    · exact Upd.refl m k
    · exact Upd.refl m k
  | removeFile => exact upd_removeFile m k
  | createDir =>
    show Upd m k (Mem.pCreateDir m k).2
    unfold Mem.pCreateDir
    split
    · exact upd_createDir m k
    · exact Upd.refl m k
  | removeDir => exact upd_removeDir m k
  | metadata => exact Upd.refl m k
  | read => exact upd_openFile m k

theorem parent_ne_self (k : Str) (hs : '/' ∈ k) : parentInternal k ≠ k := by
  intro h
  have := (split_last '/' k hs).1
  unfold parentInternal at h
  rw [h] at this
  have hl := congrArg List.length this
  simp at hl

theorem ParentDir.upd {m m' : FMap} {k : Str} (h : ParentDir m k) (hu : Upd m k m') :
    ParentDir m' k := by
  obtain ⟨hs, pe, hpe, hd⟩ := h
  exact ⟨hs, pe, by rw [hu.1 _ (parent_ne_self k hs)]; exact hpe, hd⟩

theorem ParentDir.parentOk {m : FMap} {k : Str} (h : ParentDir m k) : Mem.parentOk m k = true := by
  obtain ⟨_, pe, hpe, hd⟩ := h
  simp [Mem.parentOk, hpe, hd]

theorem ParentDir.ensure {m : FMap} {k : Str} (h : ParentDir m k) :
    Mem.ensureHasParent m k = .ok () := by
  obtain ⟨hs, pe, hpe, hd⟩ := h
  simp [Mem.ensureHasParent, hs, hpe, hd]

/-- **one step**: the pure step of the model produces the outcome of the specification, and the
record at `k` afterwards is the specification's record -/
theorem memStep_spec (m : FMap) (k : Str) (hp : ParentDir m k) (op : TOp) :
    (memStep m k op).1 = (specStep (busyAt m k) .now (absAt m k) op).2 ∧
    absAt (memStep m k op).2 k = (specStep (busyAt m k) .now (absAt m k) op).1 := by
  have hpo := hp.parentOk
  have hen := hp.ensure
  rcases Option.eq_none_or_eq_some (m.find? k) with hf | ⟨e, hf⟩
  · -- nothing at `k`
    have hc : m.contains k = false := by simp [FMap.contains, hf]
    cases op <;>
      simp [memStep, specStep, absAt, hf, hc, hpo, hen, ofRes, Res.withPath, fail, Mem.setCreated,
        Mem.setModified, Mem.setAccessed, Mem.pWrite, Mem.createFile, memPublish, Mem.pAppend,
        Mem.appendFile, Mem.pRemoveFile, Mem.removeFile, Mem.pCreateDir, Mem.createDir,
        Mem.pRemoveDir, Mem.removeDir, Mem.readDir, Mem.metadata, Mem.openFile, recOf,
        TRec.fresh, fileEntryNow, dirEntryNow, C14.write_fresh]
  · obtain ⟨ft, c, cr, mo, ac⟩ := e
    have hc : m.contains k = true := by simp [FMap.contains, hf]
    cases ft
    · -- a file
      cases op <;>
        simp [memStep, specStep, absAt, hf, hc, hpo, hen, ofRes, Res.withPath, fail, Mem.setCreated,
          Mem.setModified, Mem.setAccessed, Mem.pWrite, Mem.createFile, memPublish, Mem.pAppend,
          Mem.appendFile, Mem.pRemoveFile, Mem.removeFile, Mem.pCreateDir, Mem.createDir,
          Mem.pRemoveDir, Mem.removeDir, Mem.readDir, Mem.metadata, Mem.openFile, recOf,
          TRec.fresh, TRec.info, Entry.meta, fileEntryNow, dirEntryNow, C14.write_fresh,
          C14.write_at_end, RHandle.readToEnd]
    · -- a directory
      cases op
      case removeDir =>
        by_cases hb : m.keys.filterMap (childName k) = []
        · simp [memStep, specStep, absAt, hf, hc, ofRes, Res.withPath, fail, Mem.pRemoveDir,
            Mem.removeDir, Mem.readDir, busyAt, hb, recOf]
        · simp [memStep, specStep, absAt, hf, hc, ofRes, Res.withPath, fail, Mem.pRemoveDir,
            Mem.removeDir, Mem.readDir, busyAt, hb, recOf]
      all_goals
        simp [memStep, specStep, absAt, hf, hc, hpo, hen, ofRes, Res.withPath, fail, Mem.setCreated,
          Mem.setModified, Mem.setAccessed, Mem.pWrite, Mem.createFile, memPublish, Mem.pAppend,
          Mem.appendFile, Mem.pRemoveFile, Mem.removeFile, Mem.pCreateDir, Mem.createDir,
          Mem.pRemoveDir, Mem.removeDir, Mem.readDir, Mem.metadata, Mem.openFile, recOf,
          TRec.fresh, TRec.info, Entry.meta, fileEntryNow, dirEntryNow, busyAt]

theorem memStep_WF (m : FMap) (k : Str) (hs : '/' ∈ k) (op : TOp) (h : WF m) :
    WF (memStep m k op).2 := by
  have hne : k ≠ [] := by intro hk; subst hk; simp at hs
  cases op with
  | setCreated t => exact h.setCreated k _
  | setModified t => exact h.setModified k _
  | setAccessed t => exact h.setAccessed k _
  | write b => exact h.pWrite k b
  | append b => exact h.pAppend k b
  | removeFile => exact h.pRemoveFile k
  | createDir => exact h.pCreateDir k
  | removeDir => exact h.pRemoveDir k hne
  | metadata => exact h
  | read => exact h.openFile k

/-! ## 3. Whole histories -/

/-- **C19 over whole histories (in-memory backend).** For every list of operations aimed at the
path `k` (whose parent is a directory of the memory leaf `i`), run through the `VfsPath` methods:
* the outcomes are, step by step, the outcomes of the specification;
* the final world is the initial world with leaf `i` replaced by a map `m'`;
* the entry at `k` in `m'` is the specification's final record (type, bytes, three timestamps);
* every other key of the leaf keeps its entry;
* the discipline (`ParentDir`) and well-formedness carry over. -/
theorem timestamps_history_exact {w : World} {i : Nat} {m : FMap} (h : MemLeafAt w i m) (id : Nat)
    (k : Str) (hp : ParentDir m k) (ops : List TOp) :
    ∃ m', (runHist { fs := leafFS i, fsId := id, path := k } ops w).2 = w.setLeafFiles i m' ∧
      MemLeafAt (runHist { fs := leafFS i, fsId := id, path := k } ops w).2 i m' ∧
      (runHist { fs := leafFS i, fsId := id, path := k } ops w).1 =
        (specHist (busyAt m k) .now (absAt m k) ops).1 ∧
      absAt m' k = (specHist (busyAt m k) .now (absAt m k) ops).2 ∧
      (∀ k', k' ≠ k → m'.find? k' = m.find? k') ∧
      busyAt m' k = busyAt m k ∧ ParentDir m' k ∧ (WF m → WF m') := by
  induction ops generalizing w m with
  | nil =>
    exact ⟨m, by simp only [runHist, h.same], by simpa only [runHist] using h, rfl, rfl,
      fun _ _ => rfl, rfl, hp, fun x => x⟩
  | cons op ops ih =>
    have hu := memStep_upd m k op
    have hsp := memStep_spec m k hp op
    have h1 : MemLeafAt (w.setLeafFiles i (memStep m k op).2) i (memStep m k op).2 := h.set _
    obtain ⟨m', e1, e2, e3, e4, e5, e6, e7, e8⟩ := ih h1 (hp.upd hu)
    simp only [runHist, specHist, run_memStep h]
    rw [hu.busy, hsp.2] at e3 e4
    refine ⟨m', ?_, e2, ?_, e4, fun k' hk => (e5 k' hk).trans (hu.1 k' hk), e6.trans hu.busy, e7,
      fun hw => e8 (memStep_WF m k hp.1 op hw)⟩
    · rw [e1, Vfs.World.setLeafFiles_twice]
    · rw [e3, hsp.1]

/-- the same after every prefix of the history: the record after each step is the
specification's -/
theorem timestamps_trace_exact {w : World} {i : Nat} {m : FMap} (h : MemLeafAt w i m) (id : Nat)
    (k : Str) (hp : ParentDir m k) (ops : List TOp) (n : Nat) :
    ∃ m', MemLeafAt (runHist { fs := leafFS i, fsId := id, path := k } (ops.take n) w).2 i m' ∧
      absAt m' k = (specHist (busyAt m k) .now (absAt m k) (ops.take n)).2 := by
  obtain ⟨m', _, e2, _, e4, _⟩ := timestamps_history_exact h id k hp (ops.take n)
  exact ⟨m', e2, e4⟩

theorem specStates_eq (busy : Bool) (clk : TS) (r : Option TRec) (ops : List TOp) (n : Nat)
    (hn : n < ops.length) :
    (specStates busy clk r ops)[n]? = some (specHist busy clk r (ops.take (n + 1))).2 := by
  induction ops generalizing r n with
  | nil => simp at hn
  | cons op ops ih =>
    cases n with
    | zero => simp [specStates, specHist]
    | succ n =>
      simp only [specStates, List.getElem?_cons_succ, List.take_succ_cons, specHist]
      exact ih _ n (by simpa using hn)

/-! ## 4. Corollaries in the property's words -/

/-- what one step does to the world, given the entry at `k` (used for the corollaries) -/
theorem step_world {w : World} {i : Nat} {m : FMap} (h : MemLeafAt w i m) (id : Nat) (k : Str)
    (op : TOp) :
    runOp { fs := leafFS i, fsId := id, path := k } op w =
      ((memStep m k op).1, w.setLeafFiles i (memStep m k op).2) ∧
    MemLeafAt (w.setLeafFiles i (memStep m k op).2) i (memStep m k op).2 :=
  ⟨run_memStep h id k op, h.set _⟩

/-- **Setters read back exactly.** After ANY history at `k`, if a setter then succeeds, `metadata`
reports exactly the value set for that field; the two other timestamps, the length and the type
are those reported before the setter; the stored entry (hence the bytes) is the old entry with
that one field replaced; every other key is untouched. -/
theorem set_then_metadata_exact {w : World} {i : Nat} {m : FMap} (h : MemLeafAt w i m) (id : Nat)
    (k : Str) (hp : ParentDir m k) (ops : List TOp) (t : Int) :
    let p : VPath := { fs := leafFS i, fsId := id, path := k }
    let w1 := (runHist p ops w).2
    ∃ m1, MemLeafAt w1 i m1 ∧
    (∀ w2, runOp p (.setCreated t) w1 = (.done, w2) →
      ∃ e md0, m1.find? k = some e ∧ (runOp p .metadata w1).1 = .info md0 ∧
        runOp p .metadata w2 = (.info { md0 with created := .at t }, w2) ∧
        w2 = w1.setLeafFiles i (m1.insert k { e with created := .at t })) ∧
    (∀ w2, runOp p (.setModified t) w1 = (.done, w2) →
      ∃ e md0, m1.find? k = some e ∧ (runOp p .metadata w1).1 = .info md0 ∧
        runOp p .metadata w2 = (.info { md0 with modified := .at t }, w2) ∧
        w2 = w1.setLeafFiles i (m1.insert k { e with modified := .at t })) ∧
    (∀ w2, runOp p (.setAccessed t) w1 = (.done, w2) →
      ∃ e md0, m1.find? k = some e ∧ (runOp p .metadata w1).1 = .info md0 ∧
        runOp p .metadata w2 = (.info { md0 with accessed := .at t }, w2) ∧
        w2 = w1.setLeafFiles i (m1.insert k { e with accessed := .at t })) := by
  intro p w1
  obtain ⟨m1, _, h1, _, _, _, _, _, _⟩ := timestamps_history_exact h id k hp ops
  refine ⟨m1, h1, ?_, ?_, ?_⟩
  all_goals
    intro w2 hrun
    rw [(step_world h1 id k _).1] at hrun
    rcases Option.eq_none_or_eq_some (m1.find? k) with hf | ⟨e, hf⟩
    · simp [memStep, Mem.setCreated, Mem.setModified, Mem.setAccessed, hf, ofRes, Res.withPath,
        fail] at hrun
    · simp only [memStep, Mem.setCreated, Mem.setModified, Mem.setAccessed, hf, ofRes,
        Res.withPath, Prod.mk.injEq, true_and] at hrun
      subst hrun
      refine ⟨e, e.meta, hf, ?_, ?_, rfl⟩
      · rw [(step_world h1 id k _).1]
        simp [memStep, Mem.metadata, hf, ofRes, Res.withPath]
      · rw [(step_world (h1.set _) id k _).1]
        simp [memStep, Mem.metadata, ofRes, Res.withPath, Entry.meta,
          Vfs.World.setLeafFiles_twice]

/-- **Appending preserves the creation time.** After ANY history at `k`, a successful append
session of `b` leaves `created` (and `accessed`, and the type) as reported before, the length
grows by `b.length`, and the stored bytes are the old bytes followed by `b`. -/
theorem append_preserves_created_history {w : World} {i : Nat} {m : FMap} (h : MemLeafAt w i m)
    (id : Nat) (k : Str) (hp : ParentDir m k) (ops : List TOp) (b : Bytes) :
    let p : VPath := { fs := leafFS i, fsId := id, path := k }
    let w1 := (runHist p ops w).2
    ∀ w2, runOp p (.append b) w1 = (.done, w2) →
      ∃ m1 e md0, MemLeafAt w1 i m1 ∧ m1.find? k = some e ∧ e.ftype = .file ∧
        (runOp p .metadata w1).1 = .info md0 ∧
        runOp p .metadata w2 =
          (.info { md0 with len := md0.len + b.length, modified := .now }, w2) ∧
        w2 = w1.setLeafFiles i
          (m1.insert k { e with content := e.content ++ b, modified := .now }) := by
  intro p w1 w2 hrun
  obtain ⟨m1, _, h1, _, _, _, _, _, _⟩ := timestamps_history_exact h id k hp ops
  rw [(step_world h1 id k _).1] at hrun
  rcases Option.eq_none_or_eq_some (m1.find? k) with hf | ⟨e, hf⟩
  · simp [memStep, Mem.pAppend, Mem.appendFile, hf, ofRes, Res.withPath, fail] at hrun
  · obtain ⟨ft, c, cr, mo, ac⟩ := e
    cases ft
    · simp only [memStep, Mem.pAppend, Mem.appendFile, hf, ofRes, ne_eq, not_true_eq_false,
        ↓reduceIte, memPublish, C14.write_at_end, Prod.mk.injEq, true_and] at hrun
      subst hrun
      refine ⟨m1, _, Entry.meta ⟨.file, c, cr, mo, ac⟩, h1, hf, rfl, ?_, ?_, rfl⟩
      · rw [(step_world h1 id k _).1]
        simp [memStep, Mem.metadata, hf, ofRes, Res.withPath]
      · rw [(step_world (h1.set _) id k _).1]
        simp [memStep, Mem.metadata, ofRes, Res.withPath, Entry.meta,
          Vfs.World.setLeafFiles_twice]
    · simp [memStep, Mem.pAppend, Mem.appendFile, hf, ofRes, Res.withPath, fail] at hrun

/-- operations that neither create nor remove the entry nor set its creation time -/
def TOp.keepsCreated : TOp → Bool
  | .setModified _ | .setAccessed _ | .append _ | .metadata | .read => true
  | _ => false

theorem spec_created_stable (busy : Bool) (clk : TS) (r : TRec) (ops : List TOp)
    (hops : ∀ op ∈ ops, op.keepsCreated = true) :
    ∃ r', (specHist busy clk (some r) ops).2 = some r' ∧ r'.created = r.created ∧
      r'.ftype = r.ftype := by
  induction ops generalizing r with
  | nil => exact ⟨r, rfl, rfl, rfl⟩
  | cons op ops ih =>
    have h1 := hops op (by simp)
    have hrest : ∀ op ∈ ops, op.keepsCreated = true := fun o ho => hops o (by simp [ho])
    obtain ⟨ft, c, cr, mo, ac⟩ := r
    cases op <;> simp [TOp.keepsCreated] at h1 <;> cases ft <;>
      (simp only [specHist, specStep]
       obtain ⟨r', e1, e2, e3⟩ := ih _ hrest
       exact ⟨r', e1, e2, e3⟩)

/-- **The creation time is stable** over any history of appends, reads, metadata calls and
setters of the two other fields — whatever bytes are appended and however often -/
theorem created_stable_without_recreation {w : World} {i : Nat} {m : FMap} (h : MemLeafAt w i m)
    (id : Nat) (k : Str) (hp : ParentDir m k) (e : Entry) (he : m.find? k = some e)
    (ops : List TOp) (hops : ∀ op ∈ ops, op.keepsCreated = true) :
    ∃ m' e', MemLeafAt (runHist { fs := leafFS i, fsId := id, path := k } ops w).2 i m' ∧
      m'.find? k = some e' ∧ e'.created = e.created ∧ e'.ftype = e.ftype := by
  obtain ⟨m', _, h1, _, e4, _⟩ := timestamps_history_exact h id k hp ops
  have ha : absAt m k = some (recOf e) := by simp [absAt, he]
  obtain ⟨r', e1, e2, e3⟩ := spec_created_stable (busyAt m k) .now (recOf e) ops hops
  rw [ha, e1] at e4
  unfold absAt at e4
  rcases Option.eq_none_or_eq_some (m'.find? k) with hf | ⟨e', hf⟩
  · rw [hf] at e4; cases e4
  · rw [hf] at e4
    simp only [Option.map_some, Option.some.injEq] at e4
    refine ⟨m', e', h1, hf, ?_, ?_⟩
    · have := congrArg TRec.created e4; rw [e2] at this; exact this
    · have := congrArg TRec.ftype e4; rw [e3] at this; exact this

/-! ### timestamps are independent of content -/

/-- the operation with the bytes forgotten -/
def TOp.shape : TOp → TOp
  | .write _ => .write []
  | .append _ => .append []
  | op => op

/-- type and the three timestamps of a record -/
def TRec.times (r : TRec) : FType × TS × TS × TS := (r.ftype, r.created, r.modified, r.accessed)

/-- the outcome with bytes and length forgotten -/
def TOut.shape : TOut → TOut
  | .info md => .info { md with len := 0 }
  | .data _ => .data []
  | o => o

theorem spec_step_independent (busy : Bool) (clk : TS) (r r' : Option TRec)
    (hr : r.map TRec.times = r'.map TRec.times) (op op' : TOp) (hop : op.shape = op'.shape) :
    (specStep busy clk r op).1.map TRec.times = (specStep busy clk r' op').1.map TRec.times ∧
    (specStep busy clk r op).2.shape = (specStep busy clk r' op').2.shape := by
  cases r with
  | none =>
    cases r' with
    | some r' => simp at hr
    | none =>
      cases op <;> cases op' <;> simp [TOp.shape] at hop <;>
        simp [specStep, TRec.times, TRec.fresh, TOut.shape, hop]
  | some r =>
    cases r' with
    | none => simp at hr
    | some r' =>
      obtain ⟨ft, c, cr, mo, ac⟩ := r
      obtain ⟨ft', c', cr', mo', ac'⟩ := r'
      simp only [Option.map_some, TRec.times, Option.some.injEq, Prod.mk.injEq] at hr
      obtain ⟨rfl, rfl, rfl, rfl⟩ := hr
      cases op <;> cases op' <;> simp [TOp.shape] at hop <;> cases ft <;>
        simp [specStep, TRec.times, TRec.fresh, TRec.info, TOut.shape, hop] <;>
        (try (cases busy <;> simp [TRec.times]))

theorem spec_hist_independent (busy : Bool) (clk : TS) (r r' : Option TRec)
    (hr : r.map TRec.times = r'.map TRec.times) (ops ops' : List TOp)
    (hops : ops.map TOp.shape = ops'.map TOp.shape) :
    (specHist busy clk r ops).2.map TRec.times = (specHist busy clk r' ops').2.map TRec.times ∧
    (specHist busy clk r ops).1.map TOut.shape = (specHist busy clk r' ops').1.map TOut.shape := by
  induction ops generalizing r r' ops' with
  | nil =>
    cases ops' with
    | nil => exact ⟨hr, rfl⟩
    | cons _ _ => simp at hops
  | cons op ops ih =>
    cases ops' with
    | nil => simp at hops
    | cons op' ops' =>
      simp only [List.map_cons, List.cons.injEq] at hops
      obtain ⟨s1, s2⟩ := spec_step_independent busy clk r r' hr op op' hops.1
      obtain ⟨i1, i2⟩ := ih _ _ s1 ops' hops.2
      simp only [specHist, List.map_cons, i1, i2, s2, and_self]

/-- **Timestamps are independent of content.** Two histories at `k` that differ only in the bytes
written / appended, started from two leaves whose entries at `k` have the same type and
timestamps (for instance the same world): the outcomes agree step by step up to the bytes and the
length, and after EVERY prefix the type and the three timestamps at `k` agree. -/
theorem timestamps_independent_of_content {w w' : World} {i i' : Nat} {m m' : FMap}
    (h : MemLeafAt w i m) (h' : MemLeafAt w' i' m') (id id' : Nat) (k : Str)
    (hp : ParentDir m k) (hp' : ParentDir m' k) (hb : busyAt m k = busyAt m' k)
    (h0 : (absAt m k).map TRec.times = (absAt m' k).map TRec.times)
    (ops ops' : List TOp) (hops : ops.map TOp.shape = ops'.map TOp.shape) :
    (runHist { fs := leafFS i, fsId := id, path := k } ops w).1.map TOut.shape =
      (runHist { fs := leafFS i', fsId := id', path := k } ops' w').1.map TOut.shape ∧
    ∀ n, ∃ m1 m1',
      MemLeafAt (runHist { fs := leafFS i, fsId := id, path := k } (ops.take n) w).2 i m1 ∧
      MemLeafAt (runHist { fs := leafFS i', fsId := id', path := k } (ops'.take n) w').2 i' m1' ∧
      (absAt m1 k).map TRec.times = (absAt m1' k).map TRec.times := by
  constructor
  · obtain ⟨_, _, _, e3, _⟩ := timestamps_history_exact h id k hp ops
    obtain ⟨_, _, _, e3', _⟩ := timestamps_history_exact h' id' k hp' ops'
    rw [e3, e3', hb]
    exact (spec_hist_independent _ _ _ _ h0 ops ops' hops).2
  · intro n
    obtain ⟨m1, _, e2, _, e4, _⟩ := timestamps_history_exact h id k hp (ops.take n)
    obtain ⟨m1', _, e2', _, e4', _⟩ := timestamps_history_exact h' id' k hp' (ops'.take n)
    refine ⟨m1, m1', e2, e2', ?_⟩
    rw [e4, e4', hb]
    refine (spec_hist_independent _ _ _ _ h0 _ _ ?_).1
    rw [List.map_take, List.map_take, hops]

/-! ## 5. Through AltrootFS -/

theorem ofRes_relabel {α} (k' kk : Str) (f : α → TOut) (r : Res α) :
    ofRes k' f ((r.withPath kk).withPath k') = ofRes kk f (r.withPath kk) := by
  cases r <;> simp [ofRes, Res.withPath]

theorem ofRes_relabel1 {α} (k' kk : Str) (f : α → TOut) (r : Res α) :
    ofRes k' f (r.withPath k') = ofRes kk f (r.withPath kk) := by
  cases r <;> simp [ofRes, Res.withPath]

section altroot
variable {w : World} {i : Nat} {m : FMap} (h : MemLeafAt w i m) (idr ida : Nat) (r k' kk : Str)
  (hq : Altroot.path { fs := leafFS i, fsId := idr, path := r } k' =
    .ok { fs := leafFS i, fsId := idr, path := kk })
  (hqp : Altroot.path { fs := leafFS i, fsId := idr, path := r } (parentInternal k') =
    .ok { fs := leafFS i, fsId := idr, path := parentInternal kk })
include h hq

omit hq in
include hqp in
/-- the parent probe of the `VfsPath` layer, through the altroot -/
theorem altroot_getParent :
    VPath.getParent { fs := Altroot.fs { fs := leafFS i, fsId := idr, path := r }, fsId := ida,
                      path := k' } w =
      (if Mem.parentOk m kk then .ok () else .err .other (some k'), w) := by
  unfold VPath.getParent VPath.exists_ VPath.metadata VPath.parent VPath.withStr
  simp only [bind, M.bind, Altroot.fs, hqp, VPath.exists_, run_exists h, Mem.parentOk,
    FMap.contains]
  rcases Option.eq_none_or_eq_some (m.find? (parentInternal kk)) with hf | ⟨e, hf⟩
  · simp [hf, M.failAt]
  · by_cases hd : e.ftype = .dir
    · simp [hf, hd, M.withPath, M.ret, M.bind, VPath.metadata, run_metadata h, Mem.metadata,
        Res.withPath, Entry.meta, Pure.pure, M.pure]
    · simp [hf, hd, M.withPath, M.ret, M.bind, VPath.metadata, run_metadata h, Mem.metadata,
        Res.withPath, Entry.meta, M.failAt]

include hqp in
/-- **one step through the altroot** computes the same pure step at the translated path -/
theorem altroot_run_memStep (op : TOp) :
    runOp { fs := Altroot.fs { fs := leafFS i, fsId := idr, path := r }, fsId := ida, path := k' }
        op w =
      ((memStep m kk op).1, w.setLeafFiles i (memStep m kk op).2) := by
  cases op with
  | setCreated t =>
    simp only [runOp, memStep, VPath.setCreationTime, M.withPath, Altroot.fs, bind, M.bind, M.ret,
      hq, run_setCreationTime h, ofRes_relabel]
  | setModified t =>
    simp only [runOp, memStep, VPath.setModificationTime, M.withPath, Altroot.fs, bind, M.bind,
      M.ret, hq, run_setModificationTime h, ofRes_relabel]
  | setAccessed t =>
    simp only [runOp, memStep, VPath.setAccessTime, M.withPath, Altroot.fs, bind, M.bind, M.ret,
      hq, run_setAccessTime h, ofRes_relabel]
  | metadata =>
    simp only [runOp, memStep, VPath.metadata, M.withPath, Altroot.fs, bind, M.bind, M.ret,
      hq, run_metadata h, ofRes_relabel, h.same]
  | removeFile =>
    simp only [runOp, memStep, VPath.removeFile, M.withPath, Altroot.fs, bind, M.bind, M.ret,
      hq, run_removeFile h, ofRes_relabel, Mem.pRemoveFile]
  | removeDir =>
    simp only [runOp, memStep, VPath.removeDir, M.withPath, Altroot.fs, bind, M.bind, M.ret,
      hq, run_removeDir h, ofRes_relabel, Mem.pRemoveDir]
  | read =>
    simp only [runOp, memStep, VPath.openFile, M.withPath, Altroot.fs, bind, M.bind, M.ret,
      hq, run_openFile h]
    cases (Mem.openFile m kk).1 with
    | ok hd =>
      simp only [Res.withPath]
      unfold RHandle.readToEnd
      split <;> simp [ofRes, fail]
    | err kind pth => simp [Res.withPath, ofRes]
    | panic => simp [Res.withPath, ofRes]
  | append b =>
    simp only [runOp, memStep, VPath.appendFile, M.withPath, Altroot.fs, bind, M.bind, M.ret,
      hq, run_appendFile h, Mem.pAppend]
    cases hc : Mem.appendFile m kk with
    | ok old =>
      have h' := h
      unfold MemLeafAt at h'
      simp [Res.map, Res.withPath, WHandle.writeAllAndDrop, bind, M.bind, WHandle.write,
        WHandle.drop, WHandle.flush, h', ofRes]
    | err kind pth => simp [Res.map, Res.withPath, ofRes, h.same]
    | panic => simp [Res.map, Res.withPath, ofRes, h.same]
  | createDir =>
    simp only [runOp, memStep, VPath.createDir, bind, M.bind, altroot_getParent h idr ida r k' kk hqp,
      Mem.pCreateDir]
    by_cases hp : Mem.parentOk m kk = true
    · simp only [hp, ↓reduceIte, M.withPath, Altroot.fs, bind, M.bind, M.ret, hq, VPath.createDir,
        run_getParent h, run_createDir h, ofRes_relabel]
    · simp [hp, ofRes, h.same]
  | write b =>
    simp only [runOp, memStep, VPath.createFile, bind, M.bind, altroot_getParent h idr ida r k' kk hqp,
      Mem.pWrite]
    by_cases hp : Mem.parentOk m kk = true
    · simp only [hp, ↓reduceIte, M.withPath, Altroot.fs, bind, M.bind, M.ret, hq, VPath.createFile,
        run_getParent h, run_createFile h]
      cases hc : Mem.createFile m kk with
      | mk res m' =>
        cases res with
        | ok u =>
          have h' : MemLeafAt (w.setLeafFiles i m') i m' := h.set m'
          unfold MemLeafAt at h'
          simp [Res.map, Res.withPath, WHandle.writeAllAndDrop, bind, M.bind, WHandle.write,
            WHandle.drop, WHandle.flush, h', Vfs.World.setLeafFiles_twice, ofRes]
        | err kind pth => simp [Res.map, Res.withPath, ofRes]
        | panic => simp [Res.map, Res.withPath, ofRes]
    · simp [hp, ofRes, h.same]

end altroot

/-- **C19 through AltrootFS, whole histories.** An altroot whose root is the path `r` of the memory
leaf `i`, asked about the path `k'` which it translates to `kk` (and whose parent it translates to
the parent of `kk` — `altroot_paths_canon` discharges both for canonical strings): every history
gives the outcomes of the specification run on the record of the SERVED entry `kk`, the final
world is the one the same history produces directly at `kk`, and only the key `kk` of the leaf
changes. -/
theorem altroot_history_exact {w : World} {i : Nat} {m : FMap} (h : MemLeafAt w i m)
    (idr ida : Nat) (r k' kk : Str)
    (hq : Altroot.path { fs := leafFS i, fsId := idr, path := r } k' =
      .ok { fs := leafFS i, fsId := idr, path := kk })
    (hqp : Altroot.path { fs := leafFS i, fsId := idr, path := r } (parentInternal k') =
      .ok { fs := leafFS i, fsId := idr, path := parentInternal kk })
    (hp : ParentDir m kk) (ops : List TOp) :
    runHist { fs := Altroot.fs { fs := leafFS i, fsId := idr, path := r }, fsId := ida, path := k' }
        ops w =
      runHist { fs := leafFS i, fsId := idr, path := kk } ops w ∧
    ∃ m', (runHist { fs := Altroot.fs { fs := leafFS i, fsId := idr, path := r }, fsId := ida,
                      path := k' } ops w).2 = w.setLeafFiles i m' ∧
      (runHist { fs := Altroot.fs { fs := leafFS i, fsId := idr, path := r }, fsId := ida,
                 path := k' } ops w).1 = (specHist (busyAt m kk) .now (absAt m kk) ops).1 ∧
      absAt m' kk = (specHist (busyAt m kk) .now (absAt m kk) ops).2 ∧
      (∀ k1, k1 ≠ kk → m'.find? k1 = m.find? k1) := by
  have key : runHist (VPath.mk (Altroot.fs (VPath.mk (leafFS i) idr r)) ida k') ops w =
      runHist (VPath.mk (leafFS i) idr kk) ops w := by
    clear hp
    induction ops generalizing w m with
    | nil => rfl
    | cons op ops ih =>
      simp only [runHist, altroot_run_memStep h idr ida r k' kk hq hqp, run_memStep h]
      rw [ih (h.set _)]
  refine ⟨key, ?_⟩
  rw [key]
  obtain ⟨m', e1, _, e3, e4, e5, _⟩ := timestamps_history_exact h idr kk hp ops
  exact ⟨m', e1, e3, e4, e5⟩

/-- the two path hypotheses of `altroot_history_exact` hold for canonical strings: root
`/p1/…/pn`, path `/q1/…/qm` with `m ≥ 1`, served entry `/p1/…/pn/q1/…/qm` -/
theorem altroot_paths_canon (i idr : Nat) (ps qs : List Str) (hps : ∀ c ∈ ps, GoodComp c)
    (hqs : ∀ c ∈ qs, GoodComp c) (hne : qs ≠ []) :
    Altroot.path { fs := leafFS i, fsId := idr, path := renderC ps } (renderC qs) =
      .ok { fs := leafFS i, fsId := idr, path := renderC (ps ++ qs) } ∧
    Altroot.path { fs := leafFS i, fsId := idr, path := renderC ps } (parentInternal (renderC qs)) =
      .ok { fs := leafFS i, fsId := idr, path := parentInternal (renderC (ps ++ qs)) } := by
  refine ⟨Altroot.path_renderC _ ps qs rfl hps hqs, ?_⟩
  have hq' : ∀ c ∈ qs.dropLast, GoodComp c := fun c hc => hqs c (List.dropLast_subset _ hc)
  rw [parentInternal_renderC qs (good_noSlash hqs),
    parentInternal_renderC (ps ++ qs) (good_noSlash (good_append hps hqs)),
    List.dropLast_append_of_ne_nil hne]
  exact Altroot.path_renderC _ ps qs.dropLast rfl hps hq'

/-! ## 6. Through OverlayFS (entry served by the TOP layer) -/

/-- the operations that keep the entry in the layer that holds it: the three setters, `metadata`,
read and append sessions -/
def TOp.inFrag : TOp → Bool
  | .setCreated _ | .setModified _ | .setAccessed _ | .append _ | .metadata | .read => true
  | _ => false

/-- `memStep_spec` for the fragment: no hypothesis about the parent is needed, and the
specification's answer does not depend on `busy` -/
theorem memStep_spec_frag (m : FMap) (k : Str) (busy : Bool) (op : TOp) (hop : op.inFrag = true) :
    (memStep m k op).1 = (specStep busy .now (absAt m k) op).2 ∧
    absAt (memStep m k op).2 k = (specStep busy .now (absAt m k) op).1 := by
  rcases Option.eq_none_or_eq_some (m.find? k) with hf | ⟨e, hf⟩
  · cases op <;> simp [TOp.inFrag] at hop <;>
      simp [memStep, specStep, absAt, hf, ofRes, Res.withPath, fail, Mem.setCreated,
        Mem.setModified, Mem.setAccessed, memPublish, Mem.pAppend,
        Mem.appendFile, Mem.metadata, Mem.openFile, recOf]
  · obtain ⟨ft, c, cr, mo, ac⟩ := e
    cases ft <;> cases op <;> simp [TOp.inFrag] at hop <;>
      simp [memStep, specStep, absAt, hf, ofRes, Res.withPath, fail, Mem.setCreated,
        Mem.setModified, Mem.setAccessed, memPublish, Mem.pAppend,
        Mem.appendFile, Mem.metadata, Mem.openFile, recOf,
        TRec.info, Entry.meta, C14.write_at_end, RHandle.readToEnd]

theorem spec_frag_some (busy : Bool) (clk : TS) (r : TRec) (op : TOp) (hop : op.inFrag = true) :
    ∃ r', (specStep busy clk (some r) op).1 = some r' := by
  obtain ⟨ft, c, cr, mo, ac⟩ := r
  cases ft <;> cases op <;> simp [TOp.inFrag] at hop <;> simp [specStep]

/-- the TOP layer serves `k`: it holds an entry there and no whiteout marker hides it -/
def TopServes (mu : FMap) (k : Str) : Prop :=
  mu.contains (marker k) = false ∧ ∃ e, mu.find? k = some e

theorem marker_ne_self (k : Str) : marker k ≠ k := by
  intro h
  have := congrArg List.length h
  simp [marker] at this
  omega

theorem TopServes.step {mu : FMap} {k : Str} (hs : TopServes mu k) (op : TOp)
    (hop : op.inFrag = true) : TopServes (memStep mu k op).2 k := by
  obtain ⟨hm, e, he⟩ := hs
  have hu := memStep_upd mu k op
  refine ⟨?_, ?_⟩
  · unfold FMap.contains at hm ⊢
    rw [hu.1 _ (marker_ne_self k)]; exact hm
  · have h2 := (memStep_spec_frag mu k false op hop).2
    have ha : absAt mu k = some (recOf e) := by simp [absAt, he]
    obtain ⟨r', hr'⟩ := spec_frag_some false .now (recOf e) op hop
    rw [ha, hr'] at h2
    unfold absAt at h2
    cases hf : (memStep mu k op).2.find? k with
    | none => rw [hf] at h2; cases h2
    | some e' => exact ⟨e', rfl⟩

section overlay
variable {w : World} {u l idu idl : Nat} {mu ml : FMap} (h : OW w u l mu ml) (ido : Nat)
  (cs : List Str) (hne : cs ≠ []) (hcs : ∀ c ∈ cs, GoodComp c)
include h hne hcs

/-- **one step through the overlay**, for a path the top layer serves: the same pure step on the
top layer's map -/
theorem overlay_run_memStep (hs : TopServes mu (renderC cs)) (op : TOp) (hop : op.inFrag = true) :
    runOp { fs := Overlay.fs (layers2 u l idu idl), fsId := ido, path := renderC cs } op w =
      ((memStep mu (renderC cs) op).1, w.setLeafFiles u (memStep mu (renderC cs) op).2) := by
  obtain ⟨hm, e, he⟩ := hs
  have hc : mu.contains (renderC cs) = true := contains_of_find he
  have hrp := run_readPath (idu := idu) (idl := idl) h cs hne hcs
  simp only [hm, hc, Bool.false_eq_true, if_false, if_true] at hrp
  have hwp := writePath_layers2 (u := u) (l := l) (idu := idu) (idl := idl) cs hne hcs
  cases op with
  | setCreated t =>
    simp only [runOp, memStep, VPath.setCreationTime, M.withPath, Overlay.fs, bind, M.bind, M.ret,
      hwp, run_setCreationTime h.hu, ofRes_relabel]
  | setModified t =>
    simp only [runOp, memStep, VPath.setModificationTime, M.withPath, Overlay.fs, bind, M.bind,
      M.ret, hwp, run_setModificationTime h.hu, ofRes_relabel]
  | setAccessed t =>
    simp only [runOp, memStep, VPath.setAccessTime, M.withPath, Overlay.fs, bind, M.bind, M.ret,
      hwp, run_setAccessTime h.hu, ofRes_relabel]
  | metadata =>
    simp only [runOp, memStep, VPath.metadata, M.withPath, Overlay.fs, bind, M.bind, hrp,
      run_metadata h.hu, ofRes_relabel, h.hu.same]
  | read =>
    simp only [runOp, memStep, VPath.openFile, M.withPath, Overlay.fs, bind, M.bind, M.ret,
      hrp, run_openFile h.hu]
    cases (Mem.openFile mu (renderC cs)).1 with
    | ok hd =>
      simp only [Res.withPath]
    | err kind pth => simp [Res.withPath, ofRes]
    | panic => simp [Res.withPath, ofRes]
  | append b =>
    simp only [runOp, memStep, VPath.appendFile, M.withPath, Overlay.fs, Overlay.appendFile,
      Overlay.copyUp, bind, M.bind, M.ret, hwp, run_vexists h.hu, hc, Bool.not_true,
      Bool.false_eq_true, if_false, Pure.pure, M.pure, run_appendFile h.hu, Mem.pAppend]
    cases hca : Mem.appendFile mu (renderC cs) with
    | ok old =>
      have h' := h.hu
      unfold MemLeafAt at h'
      simp [Res.map, Res.withPath, WHandle.writeAllAndDrop, bind, M.bind, WHandle.write,
        WHandle.drop, WHandle.flush, h', ofRes]
    | err kind pth => simp [Res.map, Res.withPath, ofRes, h.hu.same]
    | panic => simp [Res.map, Res.withPath, ofRes, h.hu.same]
  | write b => simp [TOp.inFrag] at hop
  | removeFile => simp [TOp.inFrag] at hop
  | createDir => simp [TOp.inFrag] at hop
  | removeDir => simp [TOp.inFrag] at hop

end overlay

/-- **C19 through OverlayFS, histories of the fragment.** An overlay over two memory layers whose
TOP layer serves `k = /c1/…/cn` (entry present there, no whiteout): every history of setters,
`metadata`, reads and append sessions gives, step by step, the outcomes of the specification run on
the record of the TOP layer's entry (the entry the overlay serves), the final record at `k` in the
top layer is the specification's, only the key `k` of the top layer changes and the lower layer is
untouched. (`busy` is irrelevant for these operations: any value gives the same answers.) -/
theorem overlay_history_exact_frag {w : World} {u l idu idl : Nat} {mu ml : FMap}
    (h : OW w u l mu ml) (ido : Nat) (cs : List Str) (hne : cs ≠ []) (hcs : ∀ c ∈ cs, GoodComp c)
    (hs : TopServes mu (renderC cs)) (busy : Bool)
    (ops : List TOp) (hops : ∀ op ∈ ops, op.inFrag = true) :
    ∃ mu', (runHist { fs := Overlay.fs (layers2 u l idu idl), fsId := ido, path := renderC cs }
              ops w).2 = w.setLeafFiles u mu' ∧
      OW (w.setLeafFiles u mu') u l mu' ml ∧
      (runHist { fs := Overlay.fs (layers2 u l idu idl), fsId := ido, path := renderC cs }
          ops w).1 = (specHist busy .now (absAt mu (renderC cs)) ops).1 ∧
      absAt mu' (renderC cs) = (specHist busy .now (absAt mu (renderC cs)) ops).2 ∧
      (∀ k', k' ≠ renderC cs → mu'.find? k' = mu.find? k') ∧ TopServes mu' (renderC cs) ∧
      (runHist { fs := Overlay.fs (layers2 u l idu idl), fsId := ido, path := renderC cs }
          ops w) = runHist { fs := leafFS u, fsId := idu, path := renderC cs } ops w := by
  induction ops generalizing w mu with
  | nil =>
    refine ⟨mu, by simp only [runHist, h.hu.same], ?_, rfl, rfl, fun _ _ => rfl, hs, rfl⟩
    rw [h.hu.same]; exact h
  | cons op ops ih =>
    have hop := hops op (by simp)
    have hrest : ∀ o ∈ ops, o.inFrag = true := fun o ho => hops o (by simp [ho])
    have hu := memStep_upd mu (renderC cs) op
    have hsp := memStep_spec_frag mu (renderC cs) busy op hop
    obtain ⟨mu', e1, e2, e3, e4, e5, e6, e7⟩ :=
      ih (h.setU (memStep mu (renderC cs) op).2) (hs.step op hop) hrest
    simp only [runHist, specHist, overlay_run_memStep h ido cs hne hcs hs op hop, run_memStep h.hu]
    rw [hsp.2] at e3 e4
    rw [Vfs.World.setLeafFiles_twice] at e1 e2
    refine ⟨mu', e1, e2, ?_, e4, fun k' hk => (e5 k' hk).trans (hu.1 k' hk), e6, ?_⟩
    · rw [e3, hsp.1]
    · rw [e7]

/-! ### the overlay, all operations that keep the entry in the top layer -/

/-- every operation except the two removals -/
def TOp.keepsEntry : TOp → Bool
  | .removeFile | .removeDir => false
  | _ => true

/-- the proper ancestors `/d1`, `/d1/d2`, … of the path are directories of the TOP layer, not
hidden by markers; the root of the top layer is in order -/
structure AncTop (mu : FMap) (ds : List Str) : Prop where
  root : RootOk mu
  anc : ∀ j, 1 ≤ j → j ≤ ds.length →
    mu.contains (marker (renderC (ds.take j))) = false ∧
    ∃ e, mu.find? (renderC (ds.take j)) = some e ∧ e.ftype = .dir

/-- `k` is none of the keys `AncTop` speaks about -/
def Apart (k : Str) (ds : List Str) : Prop :=
  k ≠ [] ∧ k ≠ rootMarker ∧
  ∀ j, 1 ≤ j → j ≤ ds.length → k ≠ marker (renderC (ds.take j)) ∧ k ≠ renderC (ds.take j)

theorem contains_upd {mu mu' : FMap} {k q : Str} (hu : Upd mu k mu') (hq : q ≠ k) :
    mu'.contains q = mu.contains q := by
  unfold FMap.contains; rw [hu.1 q hq]

theorem AncTop.upd {mu mu' : FMap} {ds : List Str} {k : Str} (ha : AncTop mu ds)
    (hu : Upd mu k mu') (hk : Apart k ds) : AncTop mu' ds := by
  obtain ⟨h1, h2, h3⟩ := hk
  refine ⟨⟨?_, ?_⟩, ?_⟩
  · obtain ⟨e, he, hd⟩ := ha.root.root
    exact ⟨e, by rw [hu.1 [] (Ne.symm h1)]; exact he, hd⟩
  · rw [contains_upd hu (Ne.symm h2)]; exact ha.root.noMark
  · intro j hj1 hj2
    obtain ⟨hm, e, he, hd⟩ := ha.anc j hj1 hj2
    obtain ⟨n1, n2⟩ := h3 j hj1 hj2
    exact ⟨by rw [contains_upd hu (Ne.symm n1)]; exact hm, e,
      by rw [hu.1 _ (Ne.symm n2)]; exact he, hd⟩

theorem AncTop.ancDirs {mu : FMap} {ds : List Str} (ha : AncTop mu ds) (ml : FMap) :
    AncDirs mu ml ds := by
  intro j hj1 hj2
  obtain ⟨hm, e, he, hd⟩ := ha.anc j hj1 hj2
  exact ⟨e, view_upper hm he, hd⟩

theorem fillDirs_id (m : FMap) (ks : List Str) (h : ∀ q ∈ ks, m.contains q = true) :
    fillDirs m ks = m := by
  induction ks with
  | nil => rfl
  | cons q ks ih =>
    rw [fillDirs, if_pos (h q (by simp))]
    exact ih (fun x hx => h x (by simp [hx]))

/-- `ensure_has_parent` of the overlay changes nothing when the ancestors are in the top layer -/
theorem AncTop.pEnsure {mu : FMap} {ds : List Str} (ha : AncTop mu ds) (ml : FMap)
    (hds : ∀ c ∈ ds, GoodComp c) : pEnsure mu ml ds = (.ok (), mu) := by
  rw [pEnsure_ok ha.root hds (ha.ancDirs ml), fillDirs_id]
  intro q hq
  obtain ⟨j, h1, h2, rfl⟩ := (mem_chain [] ds q).1 hq
  obtain ⟨_, e, he, _⟩ := ha.anc j h1 h2
  simpa using contains_of_find he

theorem parent_snoc' (ds : List Str) (n : Str) (hds : ∀ c ∈ ds, GoodComp c) (hn : GoodComp n) :
    parentInternal (renderC (ds ++ [n])) = renderC ds := by
  rw [parentInternal_renderC _ (good_noSlash (good_snoc hds hn)), List.dropLast_concat]

theorem AncTop.parentDir {mu : FMap} {ds : List Str} (ha : AncTop mu ds) (n : Str)
    (hds : ∀ c ∈ ds, GoodComp c) (hn : GoodComp n) : ParentDir mu (renderC (ds ++ [n])) := by
  refine ⟨slash_mem_renderC (by simp), ?_⟩
  rw [parent_snoc' ds n hds hn]
  by_cases hne : ds = []
  · subst hne; exact ha.root.root
  · have hl : 1 ≤ ds.length := by
      cases ds with
      | nil => exact absurd rfl hne
      | cons d ds => simp
    obtain ⟨_, e, he, hd⟩ := ha.anc ds.length hl (Nat.le_refl _)
    rw [List.take_length] at he
    exact ⟨e, he, hd⟩

/-- a path whose first component is not ".whiteout" is apart from the bookkeeping keys and from
its own proper ancestors -/
theorem apart_of_head (ds : List Str) (n : Str) (hds : ∀ c ∈ ds, GoodComp c) (hn : GoodComp n)
    (hh : (ds ++ [n]).head? ≠ some Overlay.woDir) : Apart (renderC (ds ++ [n])) ds := by
  have hns := good_noSlash (good_snoc hds hn)
  refine ⟨renderC_ne_nil (by simp), ?_, ?_⟩
  · intro he
    have : rootMarker = marker ['/'] := by decide
    rw [this] at he
    exact hh (renderC_eq_marker_head _ _ hns he rfl)
  · intro j hj1 hj2
    constructor
    · intro he
      refine hh (renderC_eq_marker_head _ _ hns he ?_)
      cases ds with
      | nil => simp at hj2; omega
      | cons d ds =>
        cases j with
        | zero => omega
        | succ j => simp
    · intro he
      have hl := congrArg List.length he
      have h1 : (renderC ds).length =
          (renderC (ds.take j)).length + (renderC (ds.drop j)).length := by
        rw [← List.length_append, ← renderC_append, List.take_append_drop]
      simp only [renderC_append, List.length_append, renderC_cons, renderC_nil,
        List.length_cons, List.length_nil] at hl
      omega

/-- `create_file` of the overlay (the handle aside) on a path the top layer serves, with the
ancestors in place: a file is replaced in the top layer, a directory is refused -/
theorem pCreateFile_top (mu ml : FMap) (cs : List Str) (e : Entry)
    (hE : pEnsure mu ml cs.dropLast = (.ok (), mu))
    (hv : view mu ml (renderC cs) = some e) (he : mu.find? (renderC cs) = some e)
    (hm : mu.contains (marker (renderC cs)) = false)
    (hpo : Mem.parentOk mu (renderC cs) = true)
    (hen : Mem.ensureHasParent mu (renderC cs) = .ok ()) :
    pCreateFile mu ml cs =
      if e.ftype = .dir then (.err .other none, mu)
      else (.ok (), mu.insert (renderC cs) fileEntryNow) := by
  unfold pCreateFile
  rw [hE]
  generalize renderC cs = k at *
  have hmk : (mu.insert k fileEntryNow).contains (marker k) = false := by
    unfold FMap.contains at hm ⊢
    rw [find?_insert_ne _ _ _ _ (marker_ne_self _)]; exact hm
  by_cases hd : e.ftype = .dir
  · simp [andThen, pRefuse, hv, hd]
  · simp [andThen, pRefuse, hv, hd, Mem.pOpenW, hpo, Mem.createFile, hen, he, Res.withPath, pClear,
      hmk]

section overlay2
variable {w : World} {u l idu idl : Nat} {mu ml : FMap} (h : OW w u l mu ml) (ido : Nat)
  (ds : List Str) (n : Str) (hds : ∀ c ∈ ds, GoodComp c) (hn : GoodComp n)
include h hds hn

/-- the parent probe of the `VfsPath` layer, through the overlay -/
theorem overlay_getParent (ha : AncTop mu ds) :
    VPath.getParent { fs := Overlay.fs (layers2 u l idu idl), fsId := ido,
                      path := renderC (ds ++ [n]) } w = (.ok (), w) := by
  unfold VPath.getParent VPath.exists_ VPath.metadata VPath.parent VPath.withStr
  simp only [parent_snoc' ds n hds hn]
  simp only [bind, M.bind, Overlay.fs, run_oexists_any h ds hds,
    pexists_of_anc ha.root (ha.ancDirs ml), Bool.not_true, Bool.false_eq_true, if_false]
  by_cases hne : ds = []
  · subst hne
    obtain ⟨e, he, hd⟩ := ha.root.root
    simp [Overlay.readPath, writeLayer_layers2, M.withPath, Pure.pure, M.pure, M.bind, VPath.metadata,
      run_metadata h.hu, Mem.metadata, he, hd, Entry.meta, Res.withPath]
  · have hl : 1 ≤ ds.length := by
      cases ds with
      | nil => exact absurd rfl hne
      | cons d ds => simp
    obtain ⟨hm, e, he, hd⟩ := ha.anc ds.length hl (Nat.le_refl _)
    rw [List.take_length] at he hm
    simp [M.withPath, M.bind, run_readPath h ds hne hds, hm, contains_of_find he, VPath.metadata,
      run_metadata h.hu, Mem.metadata, he, hd, Entry.meta, Res.withPath, Pure.pure, M.pure]

/-- **one step through the overlay**, every operation but the removals, for a path the top layer
serves and whose ancestors are directories of the top layer -/
theorem overlay_run_memStep2 (hs : TopServes mu (renderC (ds ++ [n]))) (ha : AncTop mu ds)
    (op : TOp) (hop : op.keepsEntry = true) :
    runOp { fs := Overlay.fs (layers2 u l idu idl), fsId := ido, path := renderC (ds ++ [n]) }
        op w =
      ((memStep mu (renderC (ds ++ [n])) op).1,
        w.setLeafFiles u (memStep mu (renderC (ds ++ [n])) op).2) := by
  have hne : ds ++ [n] ≠ [] := by simp
  have hcs := good_snoc hds hn
  have hpd := ha.parentDir n hds hn
  have hpo := hpd.parentOk
  have hen := hpd.ensure
  obtain ⟨hm, e, he⟩ := hs
  have hv : view mu ml (renderC (ds ++ [n])) = some e := view_upper hm he
  have hdl : (ds ++ [n]).dropLast = ds := List.dropLast_concat
  cases op with
  | write b =>
    simp only [runOp, memStep, VPath.createFile, bind, M.bind, overlay_getParent h ido ds n hds hn ha]
    simp only [M.withPath, Overlay.fs, run_ocreateFile h _ hne hcs]
    have hpc := pCreateFile_top mu ml (ds ++ [n]) e (by rw [hdl]; exact ha.pEnsure ml hds) hv he hm
      hpo hen
    have h' : MemLeafAt (w.setLeafFiles u (mu.insert (renderC (ds ++ [n])) fileEntryNow)) u
        (mu.insert (renderC (ds ++ [n])) fileEntryNow) := h.hu.set _
    unfold MemLeafAt at h'
    generalize renderC (ds ++ [n]) = k at *
    obtain ⟨ft, c, cr, mo, ac⟩ := e
    cases ft
    · -- a file: replaced
      simp only [if_false, reduceCtorEq] at hpc
      simp [hpc, Res.map, Res.withPath, WHandle.writeAllAndDrop, bind, M.bind, WHandle.write,
        WHandle.drop, WHandle.flush, h', Vfs.World.setLeafFiles_twice, ofRes, Mem.pWrite, hpo,
        Mem.createFile, hen, he]
    · -- a directory: refused
      simp only [if_true] at hpc
      simp [hpc, Res.map, Res.withPath, ofRes, Mem.pWrite, hpo, Mem.createFile, hen, he, fail]
  | createDir =>
    simp only [runOp, memStep, VPath.createDir, bind, M.bind, overlay_getParent h ido ds n hds hn ha]
    simp only [M.withPath, Overlay.fs, run_ocreateDir h _ hne hcs]
    have hpc : pCreateDir mu ml (ds ++ [n]) =
        (.err (if e.ftype = .file then .fileExists else .dirExists) none, mu) := by
      unfold pCreateDir
      rw [hdl, ha.pEnsure ml hds]
      simp only [andThen, hv]
    generalize renderC (ds ++ [n]) = k at *
    obtain ⟨ft, c, cr, mo, ac⟩ := e
    cases ft <;>
      simp [hpc, Res.withPath, ofRes, Mem.pCreateDir, hpo, Mem.createDir, hen, he, fail]
  | removeFile => simp [TOp.keepsEntry] at hop
  | removeDir => simp [TOp.keepsEntry] at hop
  | setCreated t => exact overlay_run_memStep h ido _ hne hcs ⟨hm, e, he⟩ _ rfl
  | setModified t => exact overlay_run_memStep h ido _ hne hcs ⟨hm, e, he⟩ _ rfl
  | setAccessed t => exact overlay_run_memStep h ido _ hne hcs ⟨hm, e, he⟩ _ rfl
  | append b => exact overlay_run_memStep h ido _ hne hcs ⟨hm, e, he⟩ _ rfl
  | metadata => exact overlay_run_memStep h ido _ hne hcs ⟨hm, e, he⟩ _ rfl
  | read => exact overlay_run_memStep h ido _ hne hcs ⟨hm, e, he⟩ _ rfl

end overlay2

theorem spec_keeps_some (busy : Bool) (clk : TS) (r : TRec) (op : TOp) (hop : op.keepsEntry = true) :
    ∃ r', (specStep busy clk (some r) op).1 = some r' := by
  obtain ⟨ft, c, cr, mo, ac⟩ := r
  cases ft <;> cases op <;> simp [TOp.keepsEntry] at hop <;> simp [specStep]

theorem TopServes.step2 {mu : FMap} {k : Str} (hs : TopServes mu k) (hp : ParentDir mu k)
    (op : TOp) (hop : op.keepsEntry = true) : TopServes (memStep mu k op).2 k := by
  obtain ⟨hm, e, he⟩ := hs
  have hu := memStep_upd mu k op
  refine ⟨by rw [contains_upd hu (marker_ne_self k)]; exact hm, ?_⟩
  have h2 := (memStep_spec mu k hp op).2
  have ha : absAt mu k = some (recOf e) := by simp [absAt, he]
  obtain ⟨r', hr'⟩ := spec_keeps_some (busyAt mu k) .now (recOf e) op hop
  rw [ha, hr'] at h2
  unfold absAt at h2
  cases hf : (memStep mu k op).2.find? k with
  | none => rw [hf] at h2; cases h2
  | some e' => exact ⟨e', rfl⟩

/-- **C19 through OverlayFS, histories without removals.** An overlay over two memory layers whose
TOP layer serves `k = /d1/…/dm/n` (entry there, no whiteout) and holds the ancestors of `k` as
directories; the first component of `k` is not the bookkeeping name ".whiteout". Every history of
setters, `metadata`, reads, append sessions, create sessions and `create_dir` calls gives, step by
step, the outcomes of the specification run on the record of the TOP layer's entry; it is literally
the run of the same history on the top layer at `k`; only the key `k` of the top layer changes, the
lower layer is untouched. -/
theorem overlay_history_exact_noremove {w : World} {u l idu idl : Nat} {mu ml : FMap}
    (h : OW w u l mu ml) (ido : Nat) (ds : List Str) (n : Str) (hds : ∀ c ∈ ds, GoodComp c)
    (hn : GoodComp n) (hh : (ds ++ [n]).head? ≠ some Overlay.woDir)
    (hs : TopServes mu (renderC (ds ++ [n]))) (ha : AncTop mu ds)
    (ops : List TOp) (hops : ∀ op ∈ ops, op.keepsEntry = true) :
    ∃ mu', (runHist { fs := Overlay.fs (layers2 u l idu idl), fsId := ido,
                      path := renderC (ds ++ [n]) } ops w).2 = w.setLeafFiles u mu' ∧
      OW (w.setLeafFiles u mu') u l mu' ml ∧
      (runHist { fs := Overlay.fs (layers2 u l idu idl), fsId := ido,
                 path := renderC (ds ++ [n]) } ops w).1 =
        (specHist (busyAt mu (renderC (ds ++ [n]))) .now (absAt mu (renderC (ds ++ [n]))) ops).1 ∧
      absAt mu' (renderC (ds ++ [n])) =
        (specHist (busyAt mu (renderC (ds ++ [n]))) .now (absAt mu (renderC (ds ++ [n]))) ops).2 ∧
      (∀ k', k' ≠ renderC (ds ++ [n]) → mu'.find? k' = mu.find? k') ∧
      TopServes mu' (renderC (ds ++ [n])) ∧ AncTop mu' ds ∧
      (runHist { fs := Overlay.fs (layers2 u l idu idl), fsId := ido,
                 path := renderC (ds ++ [n]) } ops w) =
        runHist { fs := leafFS u, fsId := idu, path := renderC (ds ++ [n]) } ops w := by
  have hap := apart_of_head ds n hds hn hh
  induction ops generalizing w mu with
  | nil =>
    refine ⟨mu, by simp only [runHist, h.hu.same], ?_, rfl, rfl, fun _ _ => rfl, hs, ha, rfl⟩
    rw [h.hu.same]; exact h
  | cons op ops ih =>
    have hop := hops op (by simp)
    have hrest : ∀ o ∈ ops, o.keepsEntry = true := fun o ho => hops o (by simp [ho])
    have hpd := ha.parentDir n hds hn
    have hu := memStep_upd mu (renderC (ds ++ [n])) op
    have hsp := memStep_spec mu (renderC (ds ++ [n])) hpd op
    obtain ⟨mu', e1, e2, e3, e4, e5, e6, e7, e8⟩ :=
      ih (h.setU (memStep mu (renderC (ds ++ [n])) op).2) (hs.step2 hpd op hop) (ha.upd hu hap) hrest
    simp only [runHist, specHist, overlay_run_memStep2 h ido ds n hds hn hs ha op hop,
      run_memStep h.hu]
    rw [hu.busy, hsp.2] at e3 e4
    rw [Vfs.World.setLeafFiles_twice] at e1 e2
    refine ⟨mu', e1, e2, ?_, e4, fun k' hk => (e5 k' hk).trans (hu.1 k' hk), e6, e7, ?_⟩
    · rw [e3, hsp.1]
    · rw [e8]

/-! ### the overlay serving an entry of the LOWER layer (single steps) -/

/-- **The overlay reports the timestamps of the entry it serves**, also when that entry lives in
the LOWER layer (nothing at `k` in the top layer, no whiteout): `metadata` reports the lower
entry's type, length and three timestamps and changes nothing; a read returns its bytes and stamps
ITS `accessed` (in the lower layer); the three setters address `write_path`, i.e. the top layer,
and are refused with not-found, changing nothing. -/
theorem overlay_lower_served {w : World} {u l idu idl : Nat} {mu ml : FMap} (h : OW w u l mu ml)
    (ido : Nat) (cs : List Str) (hne : cs ≠ []) (hcs : ∀ c ∈ cs, GoodComp c)
    (hm : mu.contains (marker (renderC cs)) = false) (hu : mu.find? (renderC cs) = none)
    (e : Entry) (hl : ml.find? (renderC cs) = some e) (t : Int) :
    let p : VPath := { fs := Overlay.fs (layers2 u l idu idl), fsId := ido, path := renderC cs }
    runOp p .metadata w = (.info e.meta, w) ∧
    runOp p .read w =
      (if e.ftype = .file then .data e.content else .refused .other,
        w.setLeafFiles l (ml.insert (renderC cs) { e with accessed := .now })) ∧
    runOp p (.setCreated t) w = (.refused .fileNotFound, w) ∧
    runOp p (.setModified t) w = (.refused .fileNotFound, w) ∧
    runOp p (.setAccessed t) w = (.refused .fileNotFound, w) := by
  intro p
  have hrp := run_readPath (idu := idu) (idl := idl) h cs hne hcs
  simp only [hm, contains_of_none hu, contains_of_find hl, Bool.false_eq_true, if_false,
    if_true] at hrp
  have hwp := writePath_layers2 (u := u) (l := l) (idu := idu) (idl := idl) cs hne hcs
  refine ⟨?_, ?_, ?_, ?_, ?_⟩
  · simp [p, runOp, VPath.metadata, M.withPath, Overlay.fs, bind, M.bind, hrp, run_metadata h.hl,
      Mem.metadata, hl, Res.withPath, ofRes]
  · simp only [p, runOp, VPath.openFile, M.withPath, Overlay.fs, bind, M.bind, hrp,
      run_openFile h.hl]
    by_cases hf : e.ftype = .file
    · simp [Mem.openFile, Mem.setAccessed, hl, hf, Res.withPath, M.ret, ofRes,
        RHandle.readToEnd]
    · simp [Mem.openFile, Mem.setAccessed, hl, hf, Res.withPath, M.ret, ofRes, fail]
  · simp [p, runOp, VPath.setCreationTime, M.withPath, Overlay.fs, bind, M.bind, M.ret, hwp,
      run_setCreationTime h.hu, Mem.setCreated, hu, fail, Res.withPath, ofRes, h.hu.same]
  · simp [p, runOp, VPath.setModificationTime, M.withPath, Overlay.fs, bind, M.bind, M.ret, hwp,
      run_setModificationTime h.hu, Mem.setModified, hu, fail, Res.withPath, ofRes, h.hu.same]
  · simp [p, runOp, VPath.setAccessTime, M.withPath, Overlay.fs, bind, M.bind, M.ret, hwp,
      run_setAccessTime h.hu, Mem.setAccessed, hu, fail, Res.withPath, ofRes, h.hu.same]

/-- the FULL adapter statement for the overlay (all ten operations, including the removals, which
put the path behind a whiteout) — NOT proved in this generality (Props/C19HistoryOverlay.lean proves
it when `remove_dir` is never applied to a directory, and for paths without children in either
layer). `busy` has to be the overlay's notion ("the
merged listing of `k` is non-empty or the top layer holds children"); the top layer is assumed to
have no ".whiteout" area yet. -/
def overlay_history_exact_stmt : Prop :=
  ∀ {w : World} {u l idu idl : Nat} {mu ml : FMap} (_ : OW w u l mu ml) (ido : Nat)
    (ds : List Str) (n : Str) (_ : ∀ c ∈ ds, GoodComp c) (_ : GoodComp n)
    (_ : (ds ++ [n]).head? ≠ some Overlay.woDir) (_ : WF mu) (_ : WF ml)
    (_ : ∀ q, ('/' :: Overlay.woDir).isPrefixOf q = true → mu.find? q = none)
    (_ : TopServes mu (renderC (ds ++ [n]))) (_ : AncTop mu ds) (ops : List TOp),
    (runHist { fs := Overlay.fs (layers2 u l idu idl), fsId := ido, path := renderC (ds ++ [n]) }
        ops w).1 =
      (specHist (busyAt mu (renderC (ds ++ [n])) || decide (pListing mu ml (renderC (ds ++ [n])) ≠ []))
        .now (absAt mu (renderC (ds ++ [n]))) ops).1

/-! ## 7. Non-vacuity: a concrete world and a history that mixes all operation kinds -/

def hDir : Entry :=
  { ftype := .dir, content := [], created := .now, modified := .unset, accessed := .unset }

def hFile : Entry :=
  { ftype := .file, content := [1, 2], created := .at 7, modified := .now, accessed := .unset }

/-- "/" , "/d", "/d/f" (a file of two bytes), "/other" -/
def hMap : FMap :=
  [ ([], hDir), ("/d".toList, hDir), ("/d/f".toList, hFile), ("/other".toList, hFile) ]

def hWorld : World := { leaves := [{ kind := .mem, files := hMap }] }

def hK : Str := "/d/f".toList

/-- all ten kinds: observation, the three setters, append, read, removal, re-creation as a
directory, a refused create session, removal of the directory, a create session, refused
`create_dir` / `remove_dir` / setter on a missing path -/
def hOps : List TOp :=
  [ .metadata, .setCreated 5, .setModified 6, .setAccessed 8, .metadata, .append [3], .read,
    .metadata, .removeFile, .metadata, .setModified 1, .createDir, .write [9], .read, .removeDir,
    .write [9, 9], .append [1], .createDir, .removeDir, .setCreated 11, .metadata ]

example : MemLeafAt hWorld 0 hMap := rfl
example : ParentDir hMap hK := ⟨by decide, hDir, by decide, rfl⟩
example : WF hMap := by
  refine ⟨⟨hDir, by decide, rfl⟩, ?_⟩
  intro k e hk hne
  simp only [hMap, FMap.find?_cons, FMap.find?_nil] at hk
  split at hk
  · rename_i h'; exact absurd h'.symm hne
  · split at hk
    · rename_i h'; subst h'; exact ⟨by decide, hDir, by decide, rfl⟩
    · split at hk
      · rename_i h'; subst h'; exact ⟨by decide, hDir, by decide, rfl⟩
      · split at hk
        · rename_i h'; subst h'; exact ⟨by decide, hDir, by decide, rfl⟩
        · cases hk

/-- what the specification says about this history -/
def hExpected : List TOut :=
  [ .info ⟨.file, 2, .at 7, .now, .unset⟩, .done, .done, .done,
    .info ⟨.file, 2, .at 5, .at 6, .at 8⟩, .done, .data [1, 2, 3],
    .info ⟨.file, 3, .at 5, .now, .now⟩, .done, .refused .fileNotFound, .refused .fileNotFound,
    .done, .refused .other, .refused .other, .done, .done, .done, .refused .fileExists,
    .refused .other, .done, .info ⟨.file, 3, .at 11, .now, .now⟩ ]

set_option maxRecDepth 100000 in
example : specHist (busyAt hMap hK) .now (absAt hMap hK) hOps =
    (hExpected, some ⟨.file, [9, 9, 1], .at 11, .now, .now⟩) := by decide

set_option maxRecDepth 100000 in
/-- … and the model, run through the `VfsPath` layer, answers exactly that -/
example : (runHist { fs := leafFS 0, fsId := 0, path := hK } hOps hWorld).1 = hExpected := by
  decide

set_option maxRecDepth 100000 in
example : (runHist { fs := leafFS 0, fsId := 0, path := hK } hOps hWorld).2.leaf? 0 =
    some { kind := .mem, files :=
      [ (hK, ⟨.file, [9, 9, 1], .at 11, .now, .now⟩), ([], hDir), ("/d".toList, hDir),
        ("/other".toList, hFile) ] } := by decide

/-- two histories that differ only in the bytes -/
def hOps' : List TOp :=
  [ .metadata, .setCreated 5, .setModified 6, .setAccessed 8, .metadata, .append [3, 4, 5, 6], .read,
    .metadata, .removeFile, .metadata, .setModified 1, .createDir, .write [], .read, .removeDir,
    .write [1], .append [], .createDir, .removeDir, .setCreated 11, .metadata ]

example : hOps.map TOp.shape = hOps'.map TOp.shape := by decide

/-- the altroot rooted at "/d" serves "/d/f" under the name "/f" -/
example : Altroot.path { fs := leafFS 0, fsId := 0, path := "/d".toList } "/f".toList =
      .ok { fs := leafFS 0, fsId := 0, path := hK } ∧
    Altroot.path { fs := leafFS 0, fsId := 0, path := "/d".toList } (parentInternal "/f".toList) =
      .ok { fs := leafFS 0, fsId := 0, path := parentInternal hK } :=
  altroot_paths_canon 0 0 ["d".toList] ["f".toList] (by decide) (by decide) (by decide)

set_option maxRecDepth 100000 in
example : (runHist { fs := Altroot.fs { fs := leafFS 0, fsId := 0, path := "/d".toList }, fsId := 1,
                     path := "/f".toList } hOps hWorld).1 = hExpected := by
  decide

/-- an overlay: the top layer (leaf 0) holds `hMap`, the lower layer (leaf 1) holds another file
at the same path with other timestamps and bytes; the overlay reports the TOP entry's -/
def hLower : FMap :=
  [ ([], hDir), ("/d".toList, hDir),
    ("/d/f".toList, { ftype := .file, content := [7, 7, 7, 7], created := .at 100,
                      modified := .at 101, accessed := .at 102 }) ]

def hWorld2 : World :=
  { leaves := [{ kind := .mem, files := hMap }, { kind := .mem, files := hLower }] }

def hFragOps : List TOp :=
  [ .metadata, .setCreated 5, .setModified 6, .setAccessed 8, .metadata, .append [3], .read,
    .metadata, .setAccessed 9, .metadata ]

example : OW hWorld2 0 1 hMap hLower := ⟨rfl, rfl, by decide⟩
example : TopServes hMap (renderC ["d".toList, "f".toList]) := ⟨by decide, hFile, by decide⟩
example : ∀ op ∈ hFragOps, op.inFrag = true := by decide

set_option maxRecDepth 100000 in
example : (runHist { fs := Overlay.fs (layers2 0 1 0 1), fsId := 2,
                     path := renderC ["d".toList, "f".toList] } hFragOps hWorld2).1 =
    [ .info ⟨.file, 2, .at 7, .now, .unset⟩, .done, .done, .done,
      .info ⟨.file, 2, .at 5, .at 6, .at 8⟩, .done, .data [1, 2, 3],
      .info ⟨.file, 3, .at 5, .now, .now⟩, .done, .info ⟨.file, 3, .at 5, .now, .at 9⟩ ] := by
  decide

/-- a history without removals through the overlay: create sessions and `create_dir` included -/
def hKeepOps : List TOp :=
  [ .metadata, .setCreated 5, .write [4, 4, 4], .metadata, .createDir, .append [3], .read,
    .setAccessed 9, .setModified 2, .metadata ]

example : AncTop hMap ["d".toList] := by
  refine ⟨⟨⟨hDir, by decide, rfl⟩, by decide⟩, ?_⟩
  intro j h1 h2
  have : j = 1 := by simp at h2; omega
  subst this
  exact ⟨by decide, hDir, by decide, rfl⟩
example : (["d".toList] ++ ["f".toList]).head? ≠ some Overlay.woDir := by decide
example : ∀ op ∈ hKeepOps, op.keepsEntry = true := by decide

set_option maxRecDepth 100000 in
example : (runHist { fs := Overlay.fs (layers2 0 1 0 1), fsId := 2,
                     path := renderC (["d".toList] ++ ["f".toList]) } hKeepOps hWorld2).1 =
    [ .info ⟨.file, 2, .at 7, .now, .unset⟩, .done, .done, .info ⟨.file, 3, .now, .now, .now⟩,
      .refused .fileExists, .done, .data [4, 4, 4, 3], .done, .done,
      .info ⟨.file, 4, .now, .at 2, .at 9⟩ ] := by
  decide +kernel

#print axioms Vfs.C19.timestamps_history_exact
#print axioms Vfs.C19.timestamps_trace_exact
#print axioms Vfs.C19.set_then_metadata_exact
#print axioms Vfs.C19.append_preserves_created_history
#print axioms Vfs.C19.created_stable_without_recreation
#print axioms Vfs.C19.timestamps_independent_of_content
#print axioms Vfs.C19.altroot_history_exact
#print axioms Vfs.C19.overlay_history_exact_frag
#print axioms Vfs.C19.overlay_history_exact_noremove

end Vfs.C19
