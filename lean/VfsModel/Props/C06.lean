/-
  C06 — Path joining is total, canonical and cannot climb above the root.
  Property theorems only; helper lemmas live in Proofs/PathLemmas.lean.
  Every statement is for arbitrary strings (no length bound).
-/
import VfsModel.Proofs.PathLemmas
namespace Vfs.C06

/-- join never panics -/
theorem join_total (base arg : Str) : joinInternal base arg ≠ .panic := by
  unfold joinInternal
  split
  · simp
  · split <;> simp

/-- join rejects exactly the arguments longer than one character that end in '/',
as `InvalidPath`, labelled with the argument -/
theorem join_err_iff (base arg : Str) (k : ErrKind) (p : Option Str) :
    joinInternal base arg = .err k p ↔
      trailingSlash arg ∧ k = .invalidPath ∧ p = some arg := by
  unfold joinInternal
  split
  · rename_i h; subst h; simp [trailingSlash]
  · split
    · rename_i h; constructor
      · intro h'; injection h' with h1 h2; exact ⟨h, h1.symm, h2.symm⟩
      · rintro ⟨_, rfl, rfl⟩; rfl
    · rename_i h; constructor
      · intro h'; cases h'
      · rintro ⟨h', _⟩; exact absurd h' h

/-- the stack the resolution starts from: a leading '/' restarts from the root -/
def startStack (bs : List Str) (arg : Str) : List Str :=
  if arg.head? = some '/' then [] else bs

/-- join = lexical resolution of the argument against the base -/
theorem join_resolve (bs : List Str) (arg : Str) (hbs : ∀ c ∈ bs, '/' ∉ c)
    (hne : arg ≠ []) (hts : ¬ trailingSlash arg) :
    joinInternal (renderC bs) arg
      = .ok (renderC (resolve (startStack bs arg) (splitSlash arg))) := by
  unfold joinInternal startStack joinBase
  rw [if_neg hne, if_neg hts]
  split
  · obtain ⟨b', n', h1, _, h3⟩ := joinLoop_resolve [] [] (splitSlash arg) (by simp)
    simp only [renderC_nil] at h1
    rw [h1]
    simp only [List.append_nil] at h3
    simp [← h3]
  · obtain ⟨b', n', h1, _, h3⟩ := joinLoop_resolve bs [] (splitSlash arg) hbs
    rw [h1]
    simp only [List.append_nil] at h3
    simp [← h3]

/-- canonical base ⇒ canonical result: "" for the root, otherwise '/'-separated non-empty
components none of which is "." or ".." (so nothing ever climbs above the root) -/
theorem join_canonical (base arg r : Str) (hb : Canon base)
    (h : joinInternal base arg = .ok r) : Canon r := by
  obtain ⟨bs, hgood, rfl⟩ := hb
  by_cases hne : arg = []
  · subst hne; simp [joinInternal] at h; subst h; exact ⟨bs, hgood, rfl⟩
  · by_cases hts : trailingSlash arg
    · have := (join_err_iff (renderC bs) arg .invalidPath (some arg)).2 ⟨hts, rfl, rfl⟩
      rw [this] at h; cases h
    · rw [join_resolve bs arg (fun c hc => (hgood c hc).2.1) hne hts] at h
      injection h with h; subst h
      refine ⟨_, ?_, rfl⟩
      apply resolve_good
      · unfold startStack; split
        · simp
        · exact hgood
      · exact splitOnC_no_delim '/' arg

/-- ".." at the root stays at the root -/
theorem dotdot_at_root : joinInternal [] ['.', '.'] = .ok [] := by decide

/-- a leading '/' restarts from the root: the base is irrelevant -/
theorem absolute_restarts (b1 b2 arg : Str) (h : arg.head? = some '/') :
    joinInternal b1 arg = joinInternal b2 arg := by
  have hne : arg ≠ [] := by intro h'; subst h'; simp at h
  unfold joinInternal joinBase
  simp [h, hne]

theorem splitOnC_single (d : Char) (s : Str) (h : d ∉ s) : splitOnC d s = [s] := by
  induction s with
  | nil => rfl
  | cons c cs ih =>
    simp at h
    rw [splitOnC, if_neg (fun h' => h.1 h'.symm), ih h.2]

theorem join_name (bs : List Str) (n : Str) (hbs : ∀ c ∈ bs, '/' ∉ c) (hn : GoodComp n) :
    joinInternal (renderC bs) n = .ok (renderC (bs ++ [n])) := by
  obtain ⟨h1, h2, h3, h4⟩ := hn
  have hts : ¬ trailingSlash n := by
    rintro ⟨_, hl⟩
    exact h2 (List.mem_of_getLast? hl)
  rw [join_resolve bs n hbs h1 hts, splitSlash, splitOnC_single '/' n h2]
  have : n.head? ≠ some '/' := by
    intro h; exact h2 (List.mem_of_head? h)
  simp [startStack, this, resolve, h1, h3, h4]

/-- the parent of join(p, name) is p, and its filename is name -/
theorem parent_join_name (p n r : Str) (hp : Canon p) (hn : GoodComp n)
    (h : joinInternal p n = .ok r) : parentInternal r = p ∧ filenameInternal r = n := by
  obtain ⟨bs, hgood, rfl⟩ := hp
  have hbs : ∀ c ∈ bs, '/' ∉ c := fun c hc => (hgood c hc).2.1
  rw [join_name bs n hbs hn] at h
  injection h with h; subst h
  constructor
  · rw [parentInternal_renderC]
    · simp
    · intro c hc; simp at hc; rcases hc with hc | rfl
      · exact hbs c hc
      · exact hn.2.1
  · exact filenameInternal_renderC_snoc bs n hn.2.1

/-- parent of a canonical path is canonical; parent of the root is the root -/
theorem parent_canonical (p : Str) (hp : Canon p) : Canon (parentInternal p) := by
  obtain ⟨bs, hgood, rfl⟩ := hp
  rw [parentInternal_renderC bs (fun c hc => (hgood c hc).2.1)]
  exact ⟨bs.dropLast, fun c hc => hgood c (List.dropLast_subset _ hc), rfl⟩

theorem parent_root : parentInternal [] = [] := rfl

theorem splitOnC_append (d : Char) (a b : Str) :
    splitOnC d (a ++ d :: b) = splitOnC d a ++ splitOnC d b := by
  induction a with
  | nil => simp [splitOnC]
  | cons c cs ih =>
    simp only [List.cons_append]
    by_cases hcd : c = d
    · rw [splitOnC, if_pos hcd, ih]
      conv => rhs; rw [splitOnC, if_pos hcd]
      simp
    · rw [splitOnC, if_neg hcd, ih]
      conv => rhs; rw [splitOnC, if_neg hcd]
      have hne := splitOnC_ne_nil d cs
      cases hsp : splitOnC d cs with
      | nil => exact absurd hsp hne
      | cons h t => simp

/-- joining in two steps equals joining the concatenated argument -/
theorem join_assoc (p a b : Str) (hp : Canon p)
    (ha : a ≠ []) (hat : a.getLast? ≠ some '/')
    (hb : b ≠ []) (hbh : b.head? ≠ some '/') (hbt : b.getLast? ≠ some '/') :
    ∃ r, joinInternal p a = .ok r ∧ joinInternal r b = joinInternal p (a ++ '/' :: b) := by
  obtain ⟨bs, hgood, rfl⟩ := hp
  have hbs : ∀ c ∈ bs, '/' ∉ c := fun c hc => (hgood c hc).2.1
  have h1 := join_resolve bs a hbs ha (fun h => hat h.2)
  refine ⟨_, h1, ?_⟩
  have hgood' : ∀ c ∈ resolve (startStack bs a) (splitSlash a), GoodComp c := by
    apply resolve_good
    · unfold startStack; split
      · simp
      · exact hgood
    · exact splitOnC_no_delim '/' a
  rw [join_resolve _ b (fun c hc => (hgood' c hc).2.1) hb (fun h => hbt h.2)]
  have hab : a ++ '/' :: b ≠ [] := by simp
  have habt : (a ++ '/' :: b).getLast? ≠ some '/' := by
    rw [List.getLast?_append]
    cases b with
    | nil => exact absurd rfl hb
    | cons x xs =>
      simp only [List.getLast?_cons_cons] at hbt ⊢
      cases h : (x :: xs).getLast? with
      | none => simp at h
      | some y => simp [h] at hbt ⊢; exact hbt
  rw [join_resolve bs _ hbs hab (fun h => habt h.2)]
  have hstart : startStack bs (a ++ '/' :: b) = startStack bs a := by
    unfold startStack
    cases a with
    | nil => exact absurd rfl ha
    | cons x xs => simp
  have hsb : startStack (resolve (startStack bs a) (splitSlash a)) b
      = resolve (startStack bs a) (splitSlash a) := by
    unfold startStack; rw [if_neg hbh]
  rw [hstart, hsb, splitSlash, splitOnC_append, resolve_append]

/-- extension: the part after the last '.' of the filename, unless the filename has no '.'
or nothing before its last '.' -/
theorem extension_some (dir a b : Str) (ha : a ≠ []) (hsa : '/' ∉ a) (hb : '.' ∉ b) (hsb : '/' ∉ b) :
    extensionInternal (dir ++ '/' :: (a ++ '.' :: b)) = some b := by
  unfold extensionInternal filenameInternal
  rw [afterLast_append_delim '/' dir (a ++ '.' :: b) (by simp [hsa, hsb])]
  simp only [List.mem_append, List.mem_cons, true_or, or_true, ↓reduceIte]
  rw [beforeLast_append_delim '.' a b hb, afterLast_append_delim '.' a b hb]
  simp [ha]

theorem extension_none_nodot (p : Str) (h : '.' ∉ filenameInternal p) :
    extensionInternal p = none := by
  unfold extensionInternal; simp [h]

theorem extension_none_hidden (dir b : Str) (hb : '.' ∉ b) (hsb : '/' ∉ b) :
    extensionInternal (dir ++ '/' :: ('.' :: b)) = none := by
  unfold extensionInternal filenameInternal
  rw [afterLast_append_delim '/' dir ('.' :: b) (by simp [hsb])]
  have := beforeLast_append_delim '.' [] b hb
  simp at this
  simp [this]

/-- the path value: filesystem identity (the `Arc` pointer) and the path string -/
structure PathVal where
  fsId : Nat
  path : Str
  deriving DecidableEq

/-- two paths are equal iff same filesystem instance and same string -/
theorem eq_iff (a b : PathVal) : a = b ↔ a.fsId = b.fsId ∧ a.path = b.path := by
  cases a; cases b; simp

/-- the root path is canonical and is its own parent -/
theorem root_canonical : Canon [] := ⟨[], by simp, rfl⟩

/-- canonical strings determine their components: equal canonical strings ⇒ equal component
lists (so "same canonical string" is "same location") -/
theorem renderC_injective (a b : List Str) (ha : ∀ c ∈ a, '/' ∉ c) (hb : ∀ c ∈ b, '/' ∉ c)
    (h : renderC a = renderC b) : a = b := by
  induction a generalizing b with
  | nil =>
    cases b with
    | nil => rfl
    | cons y ys => simp at h
  | cons x xs ih =>
    cases b with
    | nil => simp at h
    | cons y ys =>
      simp only [renderC_cons, List.cons_append, List.cons.injEq, true_and] at h
      have hx : '/' ∉ x := ha x (by simp)
      have hy : '/' ∉ y := hb y (by simp)
      -- split both sides at the first '/'
      have key : ∀ (x y : Str) (s t : Str), '/' ∉ x → '/' ∉ y →
          (s = [] ∨ s.head? = some '/') → (t = [] ∨ t.head? = some '/') →
          x ++ s = y ++ t → x = y ∧ s = t := by
        intro x
        induction x with
        | nil =>
          intro y s t _ hy hs ht he
          cases y with
          | nil => exact ⟨rfl, by simpa using he⟩
          | cons c cs =>
            simp at he hy
            rcases hs with rfl | hs
            · simp at he
            · subst he; simp at hs; exact absurd hs.symm hy.1
        | cons c cs ihx =>
          intro y s t hx hy hs ht he
          cases y with
          | nil =>
            simp at he hx
            rcases ht with rfl | ht
            · simp at he
            · rw [← he] at ht; simp at ht; exact absurd ht.symm hx.1
          | cons d ds =>
            simp at he hx hy
            obtain ⟨rfl, he⟩ := he
            obtain ⟨h1, h2⟩ := ihx ds s t hx.2 hy.2 hs ht he
            exact ⟨by rw [h1], h2⟩
      have hs : ∀ l : List Str, renderC l = [] ∨ (renderC l).head? = some '/' := by
        intro l; cases l <;> simp
      obtain ⟨h1, h2⟩ := key x y _ _ hx hy (hs xs) (hs ys) h
      rw [h1, ih ys (fun c hc => ha c (by simp [hc])) (fun c hc => hb c (by simp [hc])) h2]

/-! Non-vacuity: concrete canonical paths and hostile arguments. -/
example : Canon "/a/b".toList := ⟨["a".toList, "b".toList], by decide, by decide⟩
example : joinInternal "/a/b".toList "../../../c/./d".toList = .ok "/c/d".toList := by decide
example : joinInternal "/a".toList "/x/../..".toList = .ok [] := by decide
example : joinInternal "/a".toList "b/".toList = .err .invalidPath (some "b/".toList) := by decide
example : joinInternal "/a".toList "/".toList = .ok [] := by decide

end Vfs.C06
