/-
  C11 / C09 / C05 — COMPOSITE path operations through an overlay against the same operation on the
  overlay's REFERENCE TREE (a plain memory leaf holding `C09.refTree`), as a two-world simulation.
  Builds on Proofs/OverlayRefSim.lean (relation `RO`, method-by-method simulation: `ro_exists`,
  `ro_metadata`, `ro_readDir`, `ro_step`, `ro_history`, `RO.exists_ref`).

  SETTING. World `w1`: an overlay over n ≥ 1 in-memory layers (leaves `u :: is`, invariants `OWN`,
  `OInv`, `ViewWF`) and a further memory leaf `s ∉ u :: is` (the SOURCE of a transfer) holding `m`.
  World `w2`: a memory leaf `r ≠ s` holding a reference tree `a` of the overlay's view
  (`C09.Refines`), and the same source leaf `s` holding the same `m`. This is `ROS` (= `RO` + the
  shared source leaf). `OutSame r1 r2`: both Ok with EQUAL values, or both errors (kinds and paths
  not compared: the overlay answers `Other` where a leaf may answer something else), or both the
  out-of-fuel / panic sentinel.

  PROVED (no sorry; axioms propext, Classical.choice, Quot.sound)
    * `copyDir_into_overlay_sim` — MAIN RESULT, destination side, ANY depth, ANY outcome:
      `copy_dir(src on leaf s, dst in the overlay)` in `w1` and `copy_dir(src on leaf s, dst on the
      reference leaf)` in `w2` return `OutSame` outcomes (on success the same COUNT) and end in
      `ROS`-related worlds: the overlay's final view is, on every visible path, the reference
      leaf's final map (`ROS.view_eq`), the source leaf holds the same map on both sides, and
      `OWN`/`OInv`/`ViewWF` hold again. Hypotheses: `ROS`; the destination `renderC cs` is a
      disciplined path (`OpPath cs`: canonical components, none ending in "_wo", not below
      ".whiteout"); `SrcNames m`: every child name in the source map is a canonical component not
      ending in "_wo" (decidable on the keys: `srcNames_of_keys`); the source's `Arc` identity
      differs from both destinations' (`sid ≠ id`, `sid ≠ id'`: the generic route of `copy_file`).
      NOTHING is assumed about the source path `S` (missing, a file, any string), the destination's
      state (occupied, parent missing, parent a file), the depth, the storage order or the fuel:
      refusals, failures half-way and running out of fuel happen alike on both sides. The
      reference-side run is a plain cross-leaf memory `copy_dir`, i.e. exactly the call
      `C11.copyDir_exact` (Props/C11Nested.lean) describes.
    * `moveDir_into_overlay_sim` — the same for `move_dir` (generic route; copy phase, then
      `remove_dir_all` of the source leaf, `rda_two`).
    * `item_copy` (= `copy_file` from the source leaf into the overlay against the reference leaf:
      existence probe, generic route, `open_file` with its access stamp on the source, write
      session at the destination), `ros_step` (any of the five mutators with a bystander leaf),
      `copyItems_sim` (the loop, lock-step, any iterator state), `walkNext_two` (the iterator of
      the source leaf answers identically in both worlds), `overlay_pres_leaf` (the overlay never
      touches a leaf that is not one of its layers).
    Why lock-step works here: the LISTINGS that drive the loop come from the source leaf, which is
    the same on both sides, so both runs visit the items in the same order; the destination is
    only written to, through `create_dir` and closed write sessions, which `ro_step` relates.

  STATED, NOT PROVED (`…_stmt`): the overlay as SOURCE — `copyDir_within_overlay_stmt`,
  `moveDir_within_overlay_stmt` (source and destination in ONE overlay), for completed runs.
  What is missing: with the overlay as source the two sides list directories in DIFFERENT orders
  (`ro_readDir` gives equal member sets only), so lock-step fails at the first listing; one needs
  either (a) the commutation hypotheses (H2)/(H3) of `C02.iter_perm` (Props/C02Iter.lean) for the
  per-item steps `create_dir` / `copy_file` through the overlay (two sibling steps share the
  ".whiteout" directory), or (b) a loop invariant over the VIEW in the style of
  `CD.PInv` (Proofs/CopyDirLemmas.lean) on top of the generic walk theorem
  (Props/C05WalkView.lean) and `C11.copyPhase_flat` (Props/C11OverlayDir.lean, depth 1). Also not
  proved here: `remove_dir_all` (same order problem), `create_dir_all`, `copy_file` / `move_file`
  WITHIN the overlay against the reference leaf (their view-level exact theorems are in
  Props/C11Overlay.lean; the reference-side theorems live in the import chain of
  Proofs/TransferLemmas.lean, which cannot be imported together with Proofs/OverlayLemmas.lean —
  for the same reason `C11.copyDir_exact` is not instantiated in this file: the reference-side
  run is stated here as the run itself).
  Non-vacuity: Props/C11OverlayTreeEx.lean.
-/
import VfsModel.Proofs.OverlayRefSim
import VfsModel.Proofs.Sim
import VfsModel.Props.C08
set_option linter.unusedSimpArgs false
set_option linter.unusedVariables false
set_option linter.unusedSectionVars false
namespace Vfs.C11
open Vfs Vfs.Overlay Vfs.C02 Vfs.C01 Vfs.C09 Vfs.C05

/-! ### outcomes up to error kinds -/

/-- two outcomes of the same class: equal values, or two errors (kinds and paths are NOT
compared), or two panics -/
def OutSame {α : Type} : Res α → Res α → Prop
  | .ok a, .ok b => a = b
  | .err _ _, .err _ _ => True
  | .panic, .panic => True
  | _, _ => False

theorem OutSame.refl {α} (r : Res α) : OutSame r r := by cases r <;> simp [OutSame]

theorem OutSame.withPath {α} {r1 r2 : Res α} (p : Str) (h : OutSame r1 r2) :
    OutSame (r1.withPath p) (r2.withPath p) := by
  cases r1 <;> cases r2 <;> simp_all [OutSame, Res.withPath]

theorem OutSame.of_sameOutcome {r1 r2 : Res Unit} (h : SameOutcome r1 r2) : OutSame r1 r2 := by
  obtain ⟨h1, h2, h3⟩ := h
  cases r1 <;> cases r2 <;> simp_all [OutSame, Res.isOk]

theorem OutSame.isOk_eq {α} {r1 r2 : Res α} (h : OutSame r1 r2) : r1.isOk = r2.isOk := by
  cases r1 <;> cases r2 <;> simp_all [OutSame, Res.isOk]

/-! ### the relation with a shared source leaf -/

/-- `RO` plus a third memory leaf `s` (the SOURCE of a transfer) that holds the same map `m` in
both worlds -/
structure ROS (u idu : Nat) (is ids : List Nat) (r s : Nat) (m mu : FMap) (ms : List FMap)
    (a : FMap) (w1 w2 : World) : Prop where
  ro : RO u idu is ids r mu ms a w1 w2
  src1 : MemLeafAt w1 s m
  src2 : MemLeafAt w2 s m

theorem mem_layersN {is ids : List Nat} {l : VPath} (h : l ∈ layersN is ids) :
    ∃ k ∈ is, l.fs = leafFS k := by
  induction is generalizing ids with
  | nil => simp [layersN] at h
  | cons i is ih =>
    cases ids with
    | nil => simp [layersN] at h
    | cons id ids =>
      simp only [layersN, List.mem_cons] at h
      rcases h with rfl | h
      · exact ⟨i, by simp, rfl⟩
      · obtain ⟨k, hk, hl⟩ := ih h
        exact ⟨k, by simp [hk], hl⟩

theorem ignores_leaf (s k : Nat) (L : Leaf) (hks : k ≠ s) :
    IgnoresLeaf (fun w => w.leaf? s = some L) k := by
  intro w f h
  show (w.setLeafFiles k f).leaf? s = some L
  rw [World.leaf?_setLeafFiles_ne w k s f hks]; exact h

/-- the overlay never touches a leaf that is not one of its layers -/
theorem overlay_pres_leaf {u idu : Nat} {is ids : List Nat} {s : Nat} (hs : s ∉ u :: is) (L : Leaf) :
    (Overlay.fs (layersN (u :: is) (idu :: ids))).AllPreserve (fun w => w.leaf? s = some L) := by
  have hall : ∀ l ∈ layersN (u :: is) (idu :: ids),
      l.fs.AllPreserve (fun w => w.leaf? s = some L) := by
    intro l hl
    obtain ⟨k, hk, hfs⟩ := mem_layersN hl
    rw [hfs]
    exact leafFS_all_preserve k (ignores_leaf s k L (fun e => hs (e ▸ hk)))
  apply C08.overlay_all_preserve
  refine { nonempty := by simp [layersN], observers := fun l hl => (hall l hl).obs, upper := ?_,
           same := fun l hl _ => hall l hl }
  exact hall _ (by simp [layersN, writeLayer])

theorem vstep_pres {I : World → Prop} {fs : FS} (h : fs.AllPreserve I) (id : Nat) (op : Mut) :
    Preserves I (vstep fs id op) := by
  cases op with
  | createDir p => exact VPath.pres_createDir ⟨fs, id, p⟩ h
  | write p bs =>
    exact Preserves.bindQ (HandleOK I) (VPath.pres_createFile ⟨fs, id, p⟩ h)
      (VPath.createFile_handle ⟨fs, id, p⟩ h) (fun hd hk => hk.writeAllAndDrop bs)
  | append p bs =>
    exact Preserves.bindQ (HandleOK I) (VPath.pres_appendFile ⟨fs, id, p⟩ h)
      (VPath.appendFile_handle ⟨fs, id, p⟩ h) (fun hd hk => hk.writeAllAndDrop bs)
  | removeFile p => exact VPath.pres_removeFile ⟨fs, id, p⟩ h
  | removeDir p => exact VPath.pres_removeDir ⟨fs, id, p⟩ h

section ros
variable {u idu : Nat} {is ids : List Nat} {r s : Nat} (hs : s ∉ u :: is) (hrs : r ≠ s)
include hs hrs

/-- one mutator call on the destination side, with the source leaf as a bystander -/
theorem ros_step {m mu : FMap} {ms : List FMap} {a : FMap} {w1 w2 : World}
    (h : ROS u idu is ids r s m mu ms a w1 w2) (id id' : Nat) (op : Mut) (hop : OpOK op)
    (hd3 : O3Free (oview (mu :: ms)) op) :
    ∃ mu' ms' a',
      ROS u idu is ids r s m mu' ms' a'
        (vstep (Overlay.fs (layersN (u :: is) (idu :: ids))) id op w1).2
        (vstep (leafFS r) id' op w2).2 ∧
      OutSame (vstep (Overlay.fs (layersN (u :: is) (idu :: ids))) id op w1).1
        (vstep (leafFS r) id' op w2).1 := by
  obtain ⟨mu', ms', ro', _, hso, _, hleaf⟩ := ro_step h.ro id id' op hop hd3
  refine ⟨mu', ms', _, ⟨ro', ?_, ?_⟩, OutSame.of_sameOutcome hso⟩
  · exact (vstep_pres (overlay_pres_leaf hs _) id op).pres w1 h.src1
  · rw [hleaf]
    unfold MemLeafAt
    rw [World.leaf?_setLeafFiles_ne w2 r s _ hrs]; exact h.src2

/-- the source leaf changes (identically on both sides): the relation is kept -/
theorem ROS.setSrc {m mu : FMap} {ms : List FMap} {a : FMap} {w1 w2 : World}
    (h : ROS u idu is ids r s m mu ms a w1 w2) (m' : FMap) :
    ROS u idu is ids r s m' mu ms a (w1.setLeafFiles s m') (w2.setLeafFiles s m') := by
  refine ⟨⟨⟨h.ro.st.own.frame s hs m', h.ro.st.inv, h.ro.st.vwf⟩, ?_, h.ro.ref⟩, h.src1.set m',
    h.src2.set m'⟩
  unfold MemLeafAt
  rw [World.leaf?_setLeafFiles_ne w2 s r _ (fun e => hrs e.symm)]; exact h.ro.leaf

end ros

/-! ### the source side: the iterator on the shared memory leaf, in both worlds at once -/

/-- every child name that occurs in the source map is a canonical component that does not end in
"_wo" (what `VfsPath::join` can produce and the overlay accepts) -/
def SrcNames (m : FMap) : Prop :=
  ∀ k e, m.find? k = some e → '/' ∈ k → GoodComp (afterLast '/' k) ∧ NoWo (afterLast '/' k)

theorem names_of_readDir {m : FMap} (hN : SrcNames m) {p : Str} {names : List Str}
    (h : Mem.readDir m p = .ok names) : ∀ n ∈ names, GoodComp n ∧ NoWo n := by
  unfold Mem.readDir at h
  split at h
  · simp [fail] at h
  · split at h
    · simp [fail] at h
    · injection h with h
      subst h
      intro n hn
      obtain ⟨k, e, hk, hsl, _, ha⟩ := (mem_filterMap_childName m p n).1 hn
      exact ha ▸ hN k e hk hsl

/-- a walked item: a path on the source leaf `s` (identity `sid`) strictly below `S`, whose
relative components, appended to the destination `cs`, form a disciplined path -/
def SrcItem (s sid : Nat) (S : Str) (cs : List Str) (x : VPath) : Prop :=
  x.fs = leafFS s ∧ x.fsId = sid ∧ ∃ ts, ts ≠ [] ∧ x.path = S ++ renderC ts ∧ OpPath (cs ++ ts)

def Items (s sid : Nat) (S : Str) (cs : List Str) (l : List VPath) : Prop :=
  ∀ x ∈ l, SrcItem s sid S cs x

theorem Items.tail {s sid : Nat} {S : Str} {cs : List Str} {x : VPath} {l : List VPath}
    (h : Items s sid S cs (x :: l)) : Items s sid S cs l := fun y hy => h y (List.mem_cons_of_mem _ hy)

theorem SrcItem.child {s sid : Nat} {S : Str} {cs : List Str} {x : VPath} {n : Str}
    (hx : SrcItem s sid S cs x) (hn : GoodComp n ∧ NoWo n) :
    SrcItem s sid S cs (x.withStr (x.path ++ '/' :: n)) := by
  obtain ⟨hf, hi, ts, hne, hp, hop⟩ := hx
  refine ⟨hf, hi, ts ++ [n], by simp, ?_, ?_⟩
  · show x.path ++ '/' :: n = S ++ renderC (ts ++ [n])
    rw [hp, renderC_snoc, List.append_assoc]
  · rw [← List.append_assoc]; exact hop.child hn.1 hn.2

section walk2
variable {w1 w2 : World} {s sid : Nat} {S : Str} {cs : List Str} {m : FMap}
  (h1 : MemLeafAt w1 s m) (h2 : MemLeafAt w2 s m) (hN : SrcNames m)
include h1 h2 hN

theorem walkFind_two : ∀ (todo inner : List VPath), Items s sid S cs inner → Items s sid S cs todo →
    ∃ r, VPath.walkFind inner todo w1 = (.ok r, w1) ∧ VPath.walkFind inner todo w2 = (.ok r, w2) ∧
      Items s sid S cs r.2.inner ∧ Items s sid S cs r.2.todo ∧
      ∀ x, r.1 = some (.ok x) → SrcItem s sid S cs x := by
  intro todo
  induction todo with
  | nil =>
    intro inner hi ht
    cases inner with
    | nil => exact ⟨_, rfl, rfl, hi, ht, by intro x hx; cases hx⟩
    | cons x rest =>
      refine ⟨_, rfl, rfl, hi.tail, ht, ?_⟩
      intro y hy
      simp only [Option.some.injEq, Res.ok.injEq] at hy
      subst hy; exact hi _ (by simp)
  | cons d todo ih =>
    intro inner hi ht
    cases inner with
    | cons x rest =>
      refine ⟨_, rfl, rfl, hi.tail, ht, ?_⟩
      intro y hy
      simp only [Option.some.injEq, Res.ok.injEq] at hy
      subst hy; exact hi _ (by simp)
    | nil =>
      have hdI : SrcItem s sid S cs d := ht d (by simp)
      have hd : d.fs = leafFS s := hdI.1
      unfold VPath.walkFind
      rw [Wk.run_vReadDir h1 d hd, Wk.run_vReadDir h2 d hd]
      cases hr : Mem.readDir m d.path with
      | panic => exact absurd hr (Wk.readDir_ne_panic m _)
      | err k p =>
        refine ⟨_, rfl, rfl, hi, ht.tail, ?_⟩
        intro y hy; simp at hy
      | ok names =>
        have hnames := names_of_readDir hN hr
        simp only [Res.withPath, Res.map]
        cases names with
        | nil => exact ih [] hi ht.tail
        | cons n ns =>
          simp only [List.map_cons]
          refine ⟨_, rfl, rfl, ?_, ht.tail, ?_⟩
          · intro y hy
            simp only [List.mem_map] at hy
            obtain ⟨n', hn', rfl⟩ := hy
            exact hdI.child (hnames n' (by simp [hn']))
          · intro y hy
            simp only [Option.some.injEq, Res.ok.injEq] at hy
            subst hy; exact hdI.child (hnames n (by simp))

theorem walkNext_two (st : VPath.Walk) (hi : Items s sid S cs st.inner)
    (ht : Items s sid S cs st.todo) :
    ∃ r, VPath.walkNext st w1 = (.ok r, w1) ∧ VPath.walkNext st w2 = (.ok r, w2) ∧
      Items s sid S cs r.2.inner ∧ Items s sid S cs r.2.todo ∧
      ∀ x, r.1 = some (.ok x) → SrcItem s sid S cs x := by
  obtain ⟨⟨item, s'⟩, hr1, hr2, i1, i2, i3⟩ := walkFind_two h1 h2 hN st.todo st.inner hi ht
  unfold VPath.walkNext
  simp only [bind, M.bind, hr1, hr2]
  match item, i3 with
  | none, _ => exact ⟨_, rfl, rfl, i1, i2, by intro x hx; cases hx⟩
  | some (.err k p), _ => exact ⟨_, rfl, rfl, i1, i2, by intro x hx; simp at hx⟩
  | some .panic, _ => exact ⟨_, rfl, rfl, i1, i2, by intro x hx; simp at hx⟩
  | some (.ok x), i3 =>
    have hxI : SrcItem s sid S cs x := i3 x rfl
    have hx : x.fs = leafFS s := hxI.1
    simp only [Wk.run_vMetadata h1 x hx, Wk.run_vMetadata h2 x hx]
    cases hm : Mem.metadata m x.path with
    | panic => exact absurd hm (Wk.metadata_ne_panic m _)
    | err k p => exact ⟨_, rfl, rfl, i1, i2, by intro y hy; simp [Res.withPath] at hy⟩
    | ok md =>
      simp only [Res.withPath]
      split
      · refine ⟨_, rfl, rfl, i1, ?_, ?_⟩
        · intro y hy
          simp only [List.mem_cons] at hy
          rcases hy with rfl | hy
          · exact hxI
          · exact i2 y hy
        · intro y hy
          simp only [Option.some.injEq, Res.ok.injEq] at hy
          subst hy; exact hxI
      · refine ⟨_, rfl, rfl, i1, i2, ?_⟩
        intro y hy
        simp only [Option.some.injEq, Res.ok.injEq] at hy
        subst hy; exact hxI

end walk2

/-! ### one item of the copy loop -/

theorem relJoin_item (fs : FS) (id : Nat) {S : Str} {cs ts : List Str} {x : VPath}
    (hx : x.path = S ++ renderC ts) (hne : ts ≠ []) (hop : OpPath (cs ++ ts)) :
    VPath.relJoin ⟨fs, id, renderC cs⟩ S.length x = .ok ⟨fs, id, renderC (cs ++ ts)⟩ := by
  have hgc : ∀ c ∈ cs, GoodComp c := fun c hc => hop.good c (by simp [hc])
  have hgt : ∀ c ∈ ts, GoodComp c := fun c hc => hop.good c (by simp [hc])
  have hrne : renderC ts ≠ [] := renderC_ne_nil hne
  have hlen : ¬ x.path.length < S.length + 1 := by
    rw [hx, List.length_append]
    have : 0 < (renderC ts).length := List.length_pos_iff.2 hrne
    omega
  unfold VPath.relJoin
  have hdrop : List.drop (S.length + 1) (S ++ renderC ts) = List.drop 1 (renderC ts) := by
    rw [← List.drop_drop, List.drop_left]
  rw [if_neg hlen, hx, hdrop]
  unfold VPath.join
  have := Overlay.join_tail_canon (b := renderC cs) (p := renderC ts) ⟨cs, hgc, rfl⟩ ⟨ts, hgt, rfl⟩ hrne
  unfold tail1 at this
  simp only [this, Res.map, VPath.withStr, renderC_append]

theorem openFile_handle_ok {m : FMap} {k : Str} {rh : RHandle} {m' : FMap}
    (h : Mem.openFile m k = (.ok rh, m')) : rh.readToEnd.1 = .ok rh.content := by
  unfold Mem.openFile at h
  split at h
  · split at h
    · simp [fail] at h
    · split at h
      · simp [fail] at h
      · simp only [Prod.mk.injEq, Res.ok.injEq] at h
        rw [← h.1]
        simp [RHandle.readToEnd]
  · simp at h
  · simp at h

theorem openFile_names {m : FMap} (hN : SrcNames m) (k : Str) : SrcNames (Mem.openFile m k).2 := by
  intro q e hq hsl
  have h := Mem.openFile_same m k q
  rw [hq] at h
  cases hm : m.find? q with
  | none => rw [hm] at h; cases h
  | some e0 => exact hN q e0 hm hsl

theorem ioCopy_eq_session (rh : RHandle) (hd : WHandle) (k : Str) (bytes : Bytes)
    (h : rh.readToEnd.1 = .ok bytes) :
    VPath.ioCopyAndDrop rh hd k = hd.writeAllAndDrop bytes := by
  unfold VPath.ioCopyAndDrop WHandle.writeAllAndDrop
  rw [h]
  rfl

theorem bind_ret_ok_run {α β} (a : α) (f : α → M β) (w : World) :
    (M.ret (.ok a)).bind f w = f a w := rfl

theorem bind_pure_run {α β} (a : α) (f : α → M β) (w : World) : (M.pure a).bind f w = f a w := rfl

section item
variable {u idu : Nat} {is ids : List Nat} {r s : Nat} (hs : s ∉ u :: is) (hrs : r ≠ s)
include hs hrs

/-- `copy_file` of a walked FILE item from the source leaf to the destination, on both sides -/
theorem item_copy {m mu : FMap} {ms : List FMap} {a : FMap} {w1 w2 : World}
    (h : ROS u idu is ids r s m mu ms a w1 w2) (id id' sid : Nat)
    (hid : sid ≠ id) (hid' : sid ≠ id') (k : Str) {cs' : List Str} (hop : OpPath cs') :
    ∃ m' mu' ms' a',
      ROS u idu is ids r s m' mu' ms' a'
        (VPath.copyFile ⟨leafFS s, sid, k⟩
          ⟨Overlay.fs (layersN (u :: is) (idu :: ids)), id, renderC cs'⟩ w1).2
        (VPath.copyFile ⟨leafFS s, sid, k⟩ ⟨leafFS r, id', renderC cs'⟩ w2).2 ∧
      (SrcNames m → SrcNames m') ∧
      OutSame (VPath.copyFile ⟨leafFS s, sid, k⟩
          ⟨Overlay.fs (layersN (u :: is) (idu :: ids)), id, renderC cs'⟩ w1).1
        (VPath.copyFile ⟨leafFS s, sid, k⟩ ⟨leafFS r, id', renderC cs'⟩ w2).1 := by
  obtain ⟨b, he1, he2⟩ := ro_exists h.ro id id' hop
  unfold VPath.copyFile
  simp only [bind, M.bind, run_withPath, he1, he2]
  cases b with
  | true =>
    simp only [if_true, M.failAt]
    exact ⟨m, mu, ms, a, h, fun hN => hN, trivial⟩
  | false =>
    simp only [Bool.false_eq_true, if_false, hid, hid', pure, fail, bind_pure_run, ne_eq,
      not_true_eq_false]
    have hO1 : VPath.openFile ⟨leafFS s, sid, k⟩ w1
        = ((Mem.openFile m k).1.withPath k, w1.setLeafFiles s (Mem.openFile m k).2) := by
      show M.withPath k ((leafFS s).openFile k) w1 = _
      rw [run_withPath, run_openFile h.src1]
    have hO2 : VPath.openFile ⟨leafFS s, sid, k⟩ w2
        = ((Mem.openFile m k).1.withPath k, w2.setLeafFiles s (Mem.openFile m k).2) := by
      show M.withPath k ((leafFS s).openFile k) w2 = _
      rw [run_withPath, run_openFile h.src2]
    have hN' : SrcNames m → SrcNames (Mem.openFile m k).2 := fun hN => openFile_names hN k
    rcases hO : Mem.openFile m k with ⟨ro, m'⟩
    rw [hO] at hO1 hO2 hN'
    simp only at hO1 hO2 hN'
    have h' := h.setSrc hs hrs m'
    cases ro with
    | ok rh =>
      have hrt := openFile_handle_ok hO
      simp only [Res.withPath] at hO1 hO2
      simp only [M.bind, hO1, hO2]
      simp only [ioCopy_eq_session rh _ k _ hrt]
      obtain ⟨ds, n, e⟩ := hop.snoc_cases
      have hopOK : OpOK (.write (renderC cs') rh.content) := ⟨ds, n, e ▸ hop, by rw [← e]; rfl⟩
      obtain ⟨mu', ms', a', hros, hout⟩ := ros_step hs hrs h' id id' (.write (renderC cs') rh.content)
        hopOK (by intro q hq; cases hq)
      simp only [vstep, bind, M.bind] at hros hout
      exact ⟨m', mu', ms', a', hros, hN', hout.withPath k⟩
    | err k' p' =>
      simp only [Res.withPath] at hO1 hO2
      simp only [M.bind, hO1, hO2]
      exact ⟨m', mu, ms, a, h', hN', trivial⟩
    | panic =>
      simp only [Res.withPath] at hO1 hO2
      simp only [M.bind, hO1, hO2]
      exact ⟨m', mu, ms, a, h', hN', trivial⟩

end item

/-- **copy_file from a memory leaf into the overlay = copy_file into the reference tree**, any
outcome (`item_copy` under its user-facing name): destination a disciplined path, source ANY path
string of the source leaf (missing, a directory, …), different `Arc` identities -/
theorem copyFile_into_overlay_sim {u idu : Nat} {is ids : List Nat} {r s : Nat} (hs : s ∉ u :: is)
    (hrs : r ≠ s) (id id' sid : Nat) (hid : sid ≠ id) (hid' : sid ≠ id') (k : Str) {cs : List Str}
    (hcs : OpPath cs) {m mu : FMap} {ms : List FMap} {a : FMap} {w1 w2 : World}
    (h : ROS u idu is ids r s m mu ms a w1 w2) :
    ∃ m' mu' ms' a',
      ROS u idu is ids r s m' mu' ms' a'
        (VPath.copyFile ⟨leafFS s, sid, k⟩
          ⟨Overlay.fs (layersN (u :: is) (idu :: ids)), id, renderC cs⟩ w1).2
        (VPath.copyFile ⟨leafFS s, sid, k⟩ ⟨leafFS r, id', renderC cs⟩ w2).2 ∧
      OutSame (VPath.copyFile ⟨leafFS s, sid, k⟩
          ⟨Overlay.fs (layersN (u :: is) (idu :: ids)), id, renderC cs⟩ w1).1
        (VPath.copyFile ⟨leafFS s, sid, k⟩ ⟨leafFS r, id', renderC cs⟩ w2).1 := by
  obtain ⟨m', mu', ms', a', h1, _, h3⟩ := item_copy hs hrs h id id' sid hid hid' k hcs
  exact ⟨m', mu', ms', a', h1, h3⟩

/-! ### the copy loop, on both sides in lock-step -/

section loop
variable {u idu : Nat} {is ids : List Nat} {r s : Nat} (hs : s ∉ u :: is) (hrs : r ≠ s)
  (id id' sid : Nat) (hid : sid ≠ id) (hid' : sid ≠ id') {S : Str} {cs : List Str}
  (srcp : VPath) (hsrc : srcp.path = S)
include hs hrs hid hid' hsrc

theorem copyItems_sim : ∀ (fuel : Nat) (st : VPath.Walk) (count : Nat) (m mu : FMap) (ms : List FMap)
    (a : FMap) (w1 w2 : World), ROS u idu is ids r s m mu ms a w1 w2 → SrcNames m →
    Items s sid S cs st.inner → Items s sid S cs st.todo →
    ∃ m' mu' ms' a',
      ROS u idu is ids r s m' mu' ms' a'
        (VPath.copyItems fuel srcp ⟨Overlay.fs (layersN (u :: is) (idu :: ids)), id, renderC cs⟩
          st count w1).2
        (VPath.copyItems fuel srcp ⟨leafFS r, id', renderC cs⟩ st count w2).2 ∧
      SrcNames m' ∧
      OutSame
        (VPath.copyItems fuel srcp ⟨Overlay.fs (layersN (u :: is) (idu :: ids)), id, renderC cs⟩
          st count w1).1
        (VPath.copyItems fuel srcp ⟨leafFS r, id', renderC cs⟩ st count w2).1 := by
  intro fuel
  induction fuel with
  | zero =>
    intro st count m mu ms a w1 w2 h hN hi ht
    exact ⟨m, mu, ms, a, h, hN, trivial⟩
  | succ fuel ih =>
    intro st count m mu ms a w1 w2 h hN hi ht
    obtain ⟨⟨item, st'⟩, hw1, hw2, i1, i2, i3⟩ := walkNext_two h.src1 h.src2 hN st hi ht
    simp only [VPath.copyItems, bind, M.bind, hw1, hw2]
    match item, i3 with
    | none, _ => exact ⟨m, mu, ms, a, h, hN, rfl⟩
    | some (.err k p), _ => exact ⟨m, mu, ms, a, h, hN, trivial⟩
    | some .panic, _ => exact ⟨m, mu, ms, a, h, hN, trivial⟩
    | some (.ok x), i3 =>
      obtain ⟨hf, hxi, ts, hne, hp, hop⟩ := i3 x rfl
      obtain ⟨xfs, xid, xp⟩ := x
      simp only at hf hxi hp
      subst xfs
      subst xid
      have hj1 := relJoin_item (Overlay.fs (layersN (u :: is) (idu :: ids))) id
        (x := ⟨leafFS s, sid, xp⟩) (cs := cs) hp hne hop
      have hj2 := relJoin_item (leafFS r) id' (x := ⟨leafFS s, sid, xp⟩) (cs := cs) hp hne hop
      have hm1 := Wk.run_vMetadata h.src1 ⟨leafFS s, sid, xp⟩ rfl
      have hm2 := Wk.run_vMetadata h.src2 ⟨leafFS s, sid, xp⟩ rfl
      simp only [hsrc, hj1, hj2, M.bind, M.ret, hm1, hm2]
      cases hmd : Mem.metadata m xp with
      | panic => exact ⟨m, mu, ms, a, h, hN, trivial⟩
      | err k p => exact ⟨m, mu, ms, a, h, hN, trivial⟩
      | ok md =>
        simp only [Res.withPath]
        cases hft : md.ftype with
        | dir =>
          simp only
          obtain ⟨ds, n, e⟩ := hop.snoc_cases
          have hopOK : OpOK (.createDir (renderC (cs ++ ts))) := ⟨ds, n, e ▸ hop, by rw [← e]; rfl⟩
          obtain ⟨mu', ms', a', hros, hout⟩ := ros_step hs hrs h id id'
            (.createDir (renderC (cs ++ ts))) hopOK (by intro q hq; cases hq)
          simp only [vstep] at hros hout
          rcases hr1 : VPath.createDir ⟨Overlay.fs (layersN (u :: is) (idu :: ids)), id,
            renderC (cs ++ ts)⟩ w1 with ⟨r1, w1'⟩
          rcases hr2 : VPath.createDir ⟨leafFS r, id', renderC (cs ++ ts)⟩ w2 with ⟨r2, w2'⟩
          rw [hr1, hr2] at hros hout
          simp only at hros hout
          cases r1 <;> cases r2 <;> simp only [OutSame] at hout <;> simp only [M.bind, hr1, hr2]
          · exact ih st' (count + 1) m mu' ms' a' w1' w2' hros hN i1 i2
          · exact ⟨m, mu', ms', a', hros, hN, trivial⟩
          · exact ⟨m, mu', ms', a', hros, hN, trivial⟩
        | file =>
          simp only
          obtain ⟨m', mu', ms', a', hros, hN'', hout⟩ := item_copy hs hrs h id id' sid hid hid' xp hop
          have hN' := hN'' hN
          rcases hr1 : VPath.copyFile ⟨leafFS s, sid, xp⟩ ⟨Overlay.fs (layersN (u :: is) (idu :: ids)),
            id, renderC (cs ++ ts)⟩ w1 with ⟨r1, w1'⟩
          rcases hr2 : VPath.copyFile ⟨leafFS s, sid, xp⟩ ⟨leafFS r, id', renderC (cs ++ ts)⟩ w2
            with ⟨r2, w2'⟩
          rw [hr1, hr2] at hros hout
          simp only at hros hout
          cases r1 <;> cases r2 <;> simp only [OutSame] at hout <;> simp only [M.bind, hr1, hr2]
          · exact ih st' (count + 1) m' mu' ms' a' w1' w2' hros hN' i1 i2
          · exact ⟨m', mu', ms', a', hros, hN', trivial⟩
          · exact ⟨m', mu', ms', a', hros, hN', trivial⟩

end loop

/-! ### `copy_dir` INTO the overlay, any depth -/

section copyDir
variable {u idu : Nat} {is ids : List Nat} {r s : Nat} (hs : s ∉ u :: is) (hrs : r ≠ s)
  (id id' sid : Nat) (hid : sid ≠ id) (hid' : sid ≠ id')
include hs hrs hid hid'

/-- **copy_dir from a memory leaf into the overlay = copy_dir from that leaf into the reference
tree, for source trees of ANY depth and ANY outcome** (success, refusal, failure half-way, out of
fuel). Worlds `w1` (overlay over n memory layers + source leaf `s`) and `w2` (reference leaf `r`
holding a reference tree of the overlay's view + the same source leaf) related by `ROS`;
destination `renderC cs` a disciplined path (`OpPath`), source `S` ANY path string of the source
leaf; the child names of the source map are canonical and do not end in "_wo" (`SrcNames`);
the source has another `Arc` identity than the destinations (`sid ≠ id`, `sid ≠ id'`). Then the
two calls return outcomes of the same class — on success the SAME count — and end in related
worlds: the overlay's final view is (up to timestamps) the reference leaf's final map, the source
leaf holds the same map on both sides, all invariants hold again. -/
theorem copyDir_into_overlay_sim (fuel : Nat) (S : Str) {cs : List Str} (hcs : OpPath cs)
    {m mu : FMap} {ms : List FMap} {a : FMap} {w1 w2 : World}
    (h : ROS u idu is ids r s m mu ms a w1 w2) (hN : SrcNames m) :
    ∃ m' mu' ms' a',
      ROS u idu is ids r s m' mu' ms' a'
        (VPath.copyDir fuel ⟨leafFS s, sid, S⟩
          ⟨Overlay.fs (layersN (u :: is) (idu :: ids)), id, renderC cs⟩ w1).2
        (VPath.copyDir fuel ⟨leafFS s, sid, S⟩ ⟨leafFS r, id', renderC cs⟩ w2).2 ∧
      SrcNames m' ∧
      OutSame
        (VPath.copyDir fuel ⟨leafFS s, sid, S⟩
          ⟨Overlay.fs (layersN (u :: is) (idu :: ids)), id, renderC cs⟩ w1).1
        (VPath.copyDir fuel ⟨leafFS s, sid, S⟩ ⟨leafFS r, id', renderC cs⟩ w2).1 := by
  obtain ⟨b, he1, he2⟩ := ro_exists h.ro id id' hcs
  unfold VPath.copyDir
  simp only [bind, M.bind, run_withPath, he1, he2]
  cases b with
  | true =>
    simp only [if_true, M.failAt]
    exact ⟨m, mu, ms, a, h, hN, trivial⟩
  | false =>
    simp only [Bool.false_eq_true, if_false]
    obtain ⟨ds, n, e⟩ := hcs.snoc_cases
    have hopOK : OpOK (.createDir (renderC cs)) := ⟨ds, n, e ▸ hcs, by rw [← e]; rfl⟩
    obtain ⟨mu1, ms1, a1, hros, hout⟩ := ros_step hs hrs h id id' (.createDir (renderC cs)) hopOK
      (by intro q hq; cases hq)
    simp only [vstep] at hros hout
    rcases hr1 : VPath.createDir ⟨Overlay.fs (layersN (u :: is) (idu :: ids)), id, renderC cs⟩ w1
      with ⟨r1, w1'⟩
    rcases hr2 : VPath.createDir ⟨leafFS r, id', renderC cs⟩ w2 with ⟨r2, w2'⟩
    rw [hr1, hr2] at hros hout
    simp only at hros hout
    cases r1 <;> cases r2 <;> simp only [OutSame] at hout <;> simp only [M.bind, hr1, hr2]
    · -- the destination directory was made on both sides: walk_dir of the source
      have hd1 := Wk.run_vReadDir hros.src1 ⟨leafFS s, sid, S⟩ rfl
      have hd2 := Wk.run_vReadDir hros.src2 ⟨leafFS s, sid, S⟩ rfl
      simp only [VPath.walkDir, bind, M.bind, hd1, hd2]
      cases hrd : Mem.readDir m S with
      | panic => exact ⟨m, mu1, ms1, a1, hros, hN, trivial⟩
      | err k p => exact ⟨m, mu1, ms1, a1, hros, hN, trivial⟩
      | ok names =>
        have hnames := names_of_readDir hN hrd
        simp only [Res.withPath, Res.map, pure, M.pure]
        have hitems : Items s sid S cs
            (names.map fun n => (VPath.withStr ⟨leafFS s, sid, S⟩ (S ++ '/' :: n))) := by
          intro y hy
          simp only [List.mem_map] at hy
          obtain ⟨n', hn', rfl⟩ := hy
          refine ⟨rfl, rfl, [n'], by simp, ?_, hcs.child (hnames n' hn').1 (hnames n' hn').2⟩
          show S ++ '/' :: n' = S ++ renderC [n']
          simp
        obtain ⟨m', mu', ms', a', hros', hN', hout'⟩ :=
          copyItems_sim hs hrs id id' sid hid hid' ⟨leafFS s, sid, S⟩ rfl fuel
            ⟨names.map fun n => (VPath.withStr ⟨leafFS s, sid, S⟩ (S ++ '/' :: n)), []⟩ 0
            m mu1 ms1 a1 w1' w2' hros hN hitems (by intro y hy; cases hy)
        exact ⟨m', mu', ms', a', hros', hN', hout'.withPath S⟩
    · exact ⟨m, mu1, ms1, a1, hros, hN, trivial⟩
    · exact ⟨m, mu1, ms1, a1, hros, hN, trivial⟩

end copyDir

/-! ### `remove_dir_all` of the SOURCE (a memory leaf), in both worlds at once -/

theorem setLeaf_same_pair {w1 w2 : World} {s : Nat} {m : FMap} (h1 : MemLeafAt w1 s m)
    (h2 : MemLeafAt w2 s m) {α} (res : Res α) :
    ∃ m', MemLeafAt (w1.setLeafFiles s m') s m' ∧ ((res, w1) = (res, w1.setLeafFiles s m')) ∧
      ((res, w2) = (res, w2.setLeafFiles s m')) :=
  ⟨m, h1.set m, by rw [h1.same], by rw [h2.same]⟩

mutual
theorem rda_two (s : Nat) (fuel : Nat) (p : VPath) (hp : p.fs = leafFS s) (m : FMap) (w1 w2 : World)
    (h1 : MemLeafAt w1 s m) (h2 : MemLeafAt w2 s m) :
    ∃ res m', VPath.removeDirAll fuel p w1 = (res, w1.setLeafFiles s m') ∧
      VPath.removeDirAll fuel p w2 = (res, w2.setLeafFiles s m') := by
  cases fuel with
  | zero =>
    unfold VPath.removeDirAll
    exact ⟨.panic, m, by simp [M.ret, h1.same], by simp [M.ret, h2.same]⟩
  | succ fuel =>
    obtain ⟨pfs, pid, k⟩ := p
    simp only at hp
    subst pfs
    have he1 : VPath.exists_ ⟨leafFS s, pid, k⟩ w1 = (.ok (m.contains k), w1) := run_exists h1 k
    have he2 : VPath.exists_ ⟨leafFS s, pid, k⟩ w2 = (.ok (m.contains k), w2) := run_exists h2 k
    have hd1 := Wk.run_vReadDir h1 ⟨leafFS s, pid, k⟩ rfl
    have hd2 := Wk.run_vReadDir h2 ⟨leafFS s, pid, k⟩ rfl
    unfold VPath.removeDirAll
    simp only [bind, M.bind, he1, he2]
    cases hc : m.contains k with
    | false =>
      simp only [Bool.not_false, if_true, pure, M.pure]
      exact ⟨.ok (), m, by rw [h1.same], by rw [h2.same]⟩
    | true =>
      simp only at hd1 hd2
      simp only [Bool.not_true, Bool.false_eq_true, if_false, M.bind, hd1, hd2]
      cases hrd : Mem.readDir m k with
      | panic =>
        simp only [Res.withPath, Res.map]
        exact ⟨_, m, by rw [h1.same], by rw [h2.same]⟩
      | err e q =>
        simp only [Res.withPath, Res.map]
        exact ⟨_, m, by rw [h1.same], by rw [h2.same]⟩
      | ok names =>
        simp only [Res.withPath, Res.map]
        obtain ⟨res, m1, hc1, hc2⟩ := rc_two s fuel
          (names.map fun n => (VPath.withStr ⟨leafFS s, pid, k⟩ (k ++ '/' :: n)))
          (by intro y hy; simp only [List.mem_map] at hy; obtain ⟨n, _, rfl⟩ := hy; rfl) m w1 w2 h1 h2
        rw [hc1, hc2]
        cases res with
        | ok _ =>
          simp only
          have hr1 := run_pRemoveDir (h1.set m1) pid k
          have hr2 := run_pRemoveDir (h2.set m1) pid k
          rw [hr1, hr2, World.setLeafFiles_twice, World.setLeafFiles_twice]
          exact ⟨_, _, rfl, rfl⟩
        | err e q => exact ⟨_, m1, rfl, rfl⟩
        | panic => exact ⟨_, m1, rfl, rfl⟩
termination_by (fuel, 0)
theorem rc_two (s : Nat) (fuel : Nat) (l : List VPath) (hl : ∀ c ∈ l, c.fs = leafFS s) (m : FMap)
    (w1 w2 : World) (h1 : MemLeafAt w1 s m) (h2 : MemLeafAt w2 s m) :
    ∃ res m', VPath.removeChildren fuel l w1 = (res, w1.setLeafFiles s m') ∧
      VPath.removeChildren fuel l w2 = (res, w2.setLeafFiles s m') := by
  cases l with
  | nil =>
    unfold VPath.removeChildren
    exact ⟨.ok (), m, by simp [pure, M.pure, h1.same], by simp [pure, M.pure, h2.same]⟩
  | cons c rest =>
    have hcfs := hl c (by simp)
    obtain ⟨cfs, cid, k⟩ := c
    simp only at hcfs
    subst cfs
    have hm1 := Wk.run_vMetadata h1 ⟨leafFS s, cid, k⟩ rfl
    have hm2 := Wk.run_vMetadata h2 ⟨leafFS s, cid, k⟩ rfl
    unfold VPath.removeChildren
    simp only at hm1 hm2
    simp only [bind, M.bind, hm1, hm2]
    cases hmd : Mem.metadata m k with
    | panic =>
      simp only [Res.withPath]
      exact ⟨_, m, by rw [h1.same], by rw [h2.same]⟩
    | err e q =>
      simp only [Res.withPath]
      exact ⟨_, m, by rw [h1.same], by rw [h2.same]⟩
    | ok md =>
      simp only [Res.withPath]
      have hcont : ∀ (act : M Unit) (res : Res Unit) (m1 : FMap),
          act w1 = (res, w1.setLeafFiles s m1) → act w2 = (res, w2.setLeafFiles s m1) →
          ∃ res' m', (act.bind fun _ => VPath.removeChildren fuel rest) w1
              = (res', w1.setLeafFiles s m') ∧
            (act.bind fun _ => VPath.removeChildren fuel rest) w2 = (res', w2.setLeafFiles s m') := by
        intro act res m1 hs1 hs2
        simp only [M.bind, hs1, hs2]
        cases res with
        | ok _ =>
          simp only
          obtain ⟨res2, m2, hq1, hq2⟩ := rc_two s fuel rest (fun x hx => hl x (by simp [hx])) m1 _ _
            (h1.set m1) (h2.set m1)
          rw [hq1, hq2, World.setLeafFiles_twice, World.setLeafFiles_twice]
          exact ⟨_, _, rfl, rfl⟩
        | err e q => exact ⟨_, m1, rfl, rfl⟩
        | panic => exact ⟨_, m1, rfl, rfl⟩
      cases md.ftype with
      | file => exact hcont _ _ _ (run_pRemoveFile h1 cid k) (run_pRemoveFile h2 cid k)
      | dir =>
        obtain ⟨res, m1, a1, a2⟩ := rda_two s fuel ⟨leafFS s, cid, k⟩ rfl m w1 w2 h1 h2
        exact hcont _ _ _ a1 a2
termination_by (fuel, l.length + 1)
end

/-! ### `move_dir` INTO the overlay, any depth -/

section moveDir
variable {u idu : Nat} {is ids : List Nat} {r s : Nat} (hs : s ∉ u :: is) (hrs : r ≠ s)
  (id id' sid : Nat) (hid : sid ≠ id) (hid' : sid ≠ id')
include hs hrs hid hid'

/-- the tail of `move_dir`: the copy loop, then `remove_dir_all` of the source -/
theorem move_tail (fuel : Nat) (S : Str) {cs : List Str} (st : VPath.Walk)
    {m mu : FMap} {ms : List FMap} {a : FMap} {w1 w2 : World}
    (h : ROS u idu is ids r s m mu ms a w1 w2) (hN : SrcNames m)
    (hi : Items s sid S cs st.inner) (ht : Items s sid S cs st.todo) :
    ∃ m' mu' ms' a',
      ROS u idu is ids r s m' mu' ms' a'
        ((VPath.copyItems fuel ⟨leafFS s, sid, S⟩
            ⟨Overlay.fs (layersN (u :: is) (idu :: ids)), id, renderC cs⟩ st 0 >>= fun _ =>
          VPath.removeDirAll fuel ⟨leafFS s, sid, S⟩) w1).2
        ((VPath.copyItems fuel ⟨leafFS s, sid, S⟩ ⟨leafFS r, id', renderC cs⟩ st 0 >>= fun _ =>
          VPath.removeDirAll fuel ⟨leafFS s, sid, S⟩) w2).2 ∧
      OutSame
        ((VPath.copyItems fuel ⟨leafFS s, sid, S⟩
            ⟨Overlay.fs (layersN (u :: is) (idu :: ids)), id, renderC cs⟩ st 0 >>= fun _ =>
          VPath.removeDirAll fuel ⟨leafFS s, sid, S⟩) w1).1
        ((VPath.copyItems fuel ⟨leafFS s, sid, S⟩ ⟨leafFS r, id', renderC cs⟩ st 0 >>= fun _ =>
          VPath.removeDirAll fuel ⟨leafFS s, sid, S⟩) w2).1 := by
  obtain ⟨m', mu', ms', a', hros', hN', hout'⟩ :=
    copyItems_sim hs hrs id id' sid hid hid' ⟨leafFS s, sid, S⟩ rfl fuel st 0 m mu ms a w1 w2 h hN hi ht
  rcases hc1 : VPath.copyItems fuel ⟨leafFS s, sid, S⟩
    ⟨Overlay.fs (layersN (u :: is) (idu :: ids)), id, renderC cs⟩ st 0 w1 with ⟨c1, w1'⟩
  rcases hc2 : VPath.copyItems fuel ⟨leafFS s, sid, S⟩ ⟨leafFS r, id', renderC cs⟩ st 0 w2
    with ⟨c2, w2'⟩
  rw [hc1, hc2] at hros' hout'
  simp only at hros' hout'
  cases c1 <;> cases c2 <;> simp only [OutSame] at hout' <;> simp only [bind, M.bind, hc1, hc2]
  · obtain ⟨res, m2, hq1, hq2⟩ :=
      rda_two s fuel ⟨leafFS s, sid, S⟩ rfl m' w1' w2' hros'.src1 hros'.src2
    rw [hq1, hq2]
    exact ⟨m2, mu', ms', a', hros'.setSrc hs hrs m2, OutSame.refl res⟩
  · exact ⟨m', mu', ms', a', hros', trivial⟩
  · exact ⟨m', mu', ms', a', hros', trivial⟩

/-- **move_dir from a memory leaf into the overlay = move_dir from that leaf into the reference
tree, any depth, any outcome** (generic route on both sides: different `Arc` identities; copy
phase, then `remove_dir_all` of the source with the same fuel). Hypotheses as for
`copyDir_into_overlay_sim`. -/
theorem moveDir_into_overlay_sim (fuel : Nat) (S : Str) {cs : List Str} (hcs : OpPath cs)
    {m mu : FMap} {ms : List FMap} {a : FMap} {w1 w2 : World}
    (h : ROS u idu is ids r s m mu ms a w1 w2) (hN : SrcNames m) :
    ∃ m' mu' ms' a',
      ROS u idu is ids r s m' mu' ms' a'
        (VPath.moveDir fuel ⟨leafFS s, sid, S⟩
          ⟨Overlay.fs (layersN (u :: is) (idu :: ids)), id, renderC cs⟩ w1).2
        (VPath.moveDir fuel ⟨leafFS s, sid, S⟩ ⟨leafFS r, id', renderC cs⟩ w2).2 ∧
      OutSame
        (VPath.moveDir fuel ⟨leafFS s, sid, S⟩
          ⟨Overlay.fs (layersN (u :: is) (idu :: ids)), id, renderC cs⟩ w1).1
        (VPath.moveDir fuel ⟨leafFS s, sid, S⟩ ⟨leafFS r, id', renderC cs⟩ w2).1 := by
  obtain ⟨b, he1, he2⟩ := ro_exists h.ro id id' hcs
  unfold VPath.moveDir
  simp only [bind, M.bind, run_withPath, he1, he2]
  cases b with
  | true =>
    simp only [if_true, M.failAt]
    exact ⟨m, mu, ms, a, h, trivial⟩
  | false =>
    simp only [Bool.false_eq_true, if_false, hid, hid', pure, fail, bind_pure_run, ne_eq,
      not_true_eq_false]
    obtain ⟨ds, n, e⟩ := hcs.snoc_cases
    have hopOK : OpOK (.createDir (renderC cs)) := ⟨ds, n, e ▸ hcs, by rw [← e]; rfl⟩
    obtain ⟨mu1, ms1, a1, hros, hout⟩ := ros_step hs hrs h id id' (.createDir (renderC cs)) hopOK
      (by intro q hq; cases hq)
    simp only [vstep] at hros hout
    rcases hr1 : VPath.createDir ⟨Overlay.fs (layersN (u :: is) (idu :: ids)), id, renderC cs⟩ w1
      with ⟨r1, w1'⟩
    rcases hr2 : VPath.createDir ⟨leafFS r, id', renderC cs⟩ w2 with ⟨r2, w2'⟩
    rw [hr1, hr2] at hros hout
    simp only at hros hout
    cases r1 <;> cases r2 <;> simp only [OutSame] at hout <;> simp only [M.bind, hr1, hr2]
    · have hd1 := Wk.run_vReadDir hros.src1 ⟨leafFS s, sid, S⟩ rfl
      have hd2 := Wk.run_vReadDir hros.src2 ⟨leafFS s, sid, S⟩ rfl
      simp only [VPath.walkDir, bind, M.bind, hd1, hd2]
      cases hrd : Mem.readDir m S with
      | panic => exact ⟨m, mu1, ms1, a1, hros, trivial⟩
      | err k p => exact ⟨m, mu1, ms1, a1, hros, trivial⟩
      | ok names =>
        have hnames := names_of_readDir hN hrd
        simp only [Res.withPath, Res.map, pure, M.pure]
        have hitems : Items s sid S cs
            (names.map fun n => (VPath.withStr ⟨leafFS s, sid, S⟩ (S ++ '/' :: n))) := by
          intro y hy
          simp only [List.mem_map] at hy
          obtain ⟨n', hn', rfl⟩ := hy
          refine ⟨rfl, rfl, [n'], by simp, ?_, hcs.child (hnames n' hn').1 (hnames n' hn').2⟩
          show S ++ '/' :: n' = S ++ renderC [n']
          simp
        obtain ⟨m', mu', ms', a', hros', hout'⟩ :=
          move_tail hs hrs id id' sid hid hid' fuel S
            ⟨names.map fun n => (VPath.withStr ⟨leafFS s, sid, S⟩ (S ++ '/' :: n)), []⟩
            hros hN hitems (by intro y hy; cases hy)
        exact ⟨m', mu', ms', a', hros', hout'.withPath S⟩
    · exact ⟨m, mu1, ms1, a1, hros, trivial⟩
    · exact ⟨m, mu1, ms1, a1, hros, trivial⟩

end moveDir

/-- what `ROS` says at the end, spelled out: the overlay's view and the reference leaf's map agree
(type, and bytes of files) on the root and on every absolute path outside ".whiteout" -/
theorem ROS.view_eq {u idu : Nat} {is ids : List Nat} {r s : Nat} {m mu : FMap} {ms : List FMap}
    {a : FMap} {w1 w2 : World} (h : ROS u idu is ids r s m mu ms a w1 w2) :
    MemLeafAt w2 r a ∧ OWN w1 (u :: is) (idu :: ids) (mu :: ms) ∧
      ∀ q, Vis q → (oview (mu :: ms) q).map vcore = (a.find? q).map vcore :=
  ⟨h.ro.leaf, h.ro.st.own, fun q hq => h.ro.ref.same q hq⟩

/-! ### what is NOT proved: the overlay as SOURCE (stated) -/

/-- STATED, NOT PROVED: `copy_dir` between two disciplined paths of ONE overlay (source and
destination both in the overlay, destination not inside the source) completes with count `n`
iff the same call on the reference leaf does, and then the worlds are `RO`-related again. (For
FAILING runs no call-by-call agreement can hold: the two sides list directories in different
orders and stop after different prefixes.) -/
def copyDir_within_overlay_stmt : Prop :=
  ∀ (u idu : Nat) (is ids : List Nat) (r : Nat) (mu : FMap) (ms : List FMap) (a : FMap)
    (w1 w2 : World), RO u idu is ids r mu ms a w1 w2 → NamesOK (mu :: ms) →
  ∀ (ss dd : List Str), OpPath ss → OpPath dd → ¬ InSub ss (renderC dd) →
  ∀ (id id' fuel n : Nat),
    ((VPath.copyDir fuel ⟨Overlay.fs (layersN (u :: is) (idu :: ids)), id, renderC ss⟩
        ⟨Overlay.fs (layersN (u :: is) (idu :: ids)), id, renderC dd⟩ w1).1 = .ok n ↔
      (VPath.copyDir fuel ⟨leafFS r, id', renderC ss⟩ ⟨leafFS r, id', renderC dd⟩ w2).1 = .ok n) ∧
    ((VPath.copyDir fuel ⟨Overlay.fs (layersN (u :: is) (idu :: ids)), id, renderC ss⟩
        ⟨Overlay.fs (layersN (u :: is) (idu :: ids)), id, renderC dd⟩ w1).1 = .ok n →
      ∃ mu' ms' a', RO u idu is ids r mu' ms' a'
        (VPath.copyDir fuel ⟨Overlay.fs (layersN (u :: is) (idu :: ids)), id, renderC ss⟩
          ⟨Overlay.fs (layersN (u :: is) (idu :: ids)), id, renderC dd⟩ w1).2
        (VPath.copyDir fuel ⟨leafFS r, id', renderC ss⟩ ⟨leafFS r, id', renderC dd⟩ w2).2)

/-- STATED, NOT PROVED: the overlay as source, a memory leaf `t` (same map on both sides) as
destination; for completed runs -/
def copyDir_from_overlay_stmt : Prop :=
  ∀ (u idu : Nat) (is ids : List Nat) (r t : Nat) (mu : FMap) (ms : List FMap) (a mt : FMap)
    (w1 w2 : World), RO u idu is ids r mu ms a w1 w2 → NamesOK (mu :: ms) → t ∉ u :: is → r ≠ t →
    MemLeafAt w1 t mt → MemLeafAt w2 t mt → WF mt →
  ∀ (ss : List Str) (D : Str), OpPath ss → ∀ (id id' tid fuel n : Nat), tid ≠ id → tid ≠ id' →
    ((VPath.copyDir fuel ⟨Overlay.fs (layersN (u :: is) (idu :: ids)), id, renderC ss⟩
        ⟨leafFS t, tid, D⟩ w1).1 = .ok n ↔
      (VPath.copyDir fuel ⟨leafFS r, id', renderC ss⟩ ⟨leafFS t, tid, D⟩ w2).1 = .ok n) ∧
    ((VPath.copyDir fuel ⟨Overlay.fs (layersN (u :: is) (idu :: ids)), id, renderC ss⟩
        ⟨leafFS t, tid, D⟩ w1).1 = .ok n →
      ∃ mu' ms' a' mt1 mt2, RO u idu is ids r mu' ms' a'
        (VPath.copyDir fuel ⟨Overlay.fs (layersN (u :: is) (idu :: ids)), id, renderC ss⟩
          ⟨leafFS t, tid, D⟩ w1).2
        (VPath.copyDir fuel ⟨leafFS r, id', renderC ss⟩ ⟨leafFS t, tid, D⟩ w2).2 ∧
        MemLeafAt (VPath.copyDir fuel ⟨Overlay.fs (layersN (u :: is) (idu :: ids)), id, renderC ss⟩
          ⟨leafFS t, tid, D⟩ w1).2 t mt1 ∧
        MemLeafAt (VPath.copyDir fuel ⟨leafFS r, id', renderC ss⟩ ⟨leafFS t, tid, D⟩ w2).2 t mt2 ∧
        CoreEq mt1 mt2)

/-- STATED, NOT PROVED: the same for `move_dir` within one overlay -/
def moveDir_within_overlay_stmt : Prop :=
  ∀ (u idu : Nat) (is ids : List Nat) (r : Nat) (mu : FMap) (ms : List FMap) (a : FMap)
    (w1 w2 : World), RO u idu is ids r mu ms a w1 w2 → NamesOK (mu :: ms) →
  ∀ (ss dd : List Str), OpPath ss → OpPath dd → ¬ InSub ss (renderC dd) →
  ∀ (id id' fuel : Nat),
    ((VPath.moveDir fuel ⟨Overlay.fs (layersN (u :: is) (idu :: ids)), id, renderC ss⟩
        ⟨Overlay.fs (layersN (u :: is) (idu :: ids)), id, renderC dd⟩ w1).1 = .ok () ↔
      (VPath.moveDir fuel ⟨leafFS r, id', renderC ss⟩ ⟨leafFS r, id', renderC dd⟩ w2).1 = .ok ()) ∧
    ((VPath.moveDir fuel ⟨Overlay.fs (layersN (u :: is) (idu :: ids)), id, renderC ss⟩
        ⟨Overlay.fs (layersN (u :: is) (idu :: ids)), id, renderC dd⟩ w1).1 = .ok () →
      ∃ mu' ms' a', RO u idu is ids r mu' ms' a'
        (VPath.moveDir fuel ⟨Overlay.fs (layersN (u :: is) (idu :: ids)), id, renderC ss⟩
          ⟨Overlay.fs (layersN (u :: is) (idu :: ids)), id, renderC dd⟩ w1).2
        (VPath.moveDir fuel ⟨leafFS r, id', renderC ss⟩ ⟨leafFS r, id', renderC dd⟩ w2).2)


end Vfs.C11

section audit
open Vfs.C11
#print axioms copyItems_sim
#print axioms copyDir_into_overlay_sim
#print axioms moveDir_into_overlay_sim
#print axioms item_copy
#print axioms copyFile_into_overlay_sim
#print axioms ros_step
end audit
