/-
  C02 for stackings — "MemoryFS is a faithful stand-in for PhysicalFS" under AltrootFS and
  OverlayFS, for the `VfsPath` operations that do not iterate over listings.

  DEFINITIONS
    * `StackW fs` : `fs` is a leaf or altroots (rooted at canonical paths) over a leaf.
      `Stack fs`  : `fs` is a `StackW`, an altroot over a `Stack`, or an overlay of ANY number of
      layers whose write layer (first layer) is a path of a `StackW` and whose lower layers are
      paths of arbitrary `Stack`s (overlays included).  The SAME term `fs` is run on both worlds:
      `leafFS i` is the memory backend where leaf `i` of the world is a memory leaf and the
      physical backend where it is a physical leaf.
    * `Op` : `exists`, `metadata`, `is_file`, `is_dir`, `read_dir`, `read` (open + read to end),
      `create_dir`, `create_dir_all`, `remove_file`, `remove_dir`, a write session
      (`create_file`, any list of `write` calls, drop) and an append session.
    * `ValRel` : what is compared of the results: booleans and bytes exactly, metadata up to
      timestamps (type; length of files), listings as SETS of path strings.

  THEOREMS (no sorry; axioms: propext, Classical.choice, Quot.sound)
    * `stack_simC`, `stackW_simW` : every stacking is related to itself across `RCore`
      (Proofs/MemPhysSim.lean) at the session level.
    * `stack_agree` : for every `Stack fs`, every valid `Op` (canonical path; root aside for
      `create_dir`/`remove_dir`; append sessions on `StackW` only): from `RCore`-related worlds
      (memory leaves with well-formed maps / physical leaves with `CoreEq` content) the two runs
      return `CRes KRel ValRel`-related outcomes (same success/failure/panic, error kinds in the
      same class, equal observations) and end in `RCore`-related worlds.
    * `stack_history_agree` : hence every finite history; `stack_from_empty` : from fresh leaves.
    * `rcore_coreEq` : what `RCore` says about the leaves (the observable tree and bytes agree).

  NOT PROVED (stated as `…_stmt`, with the reason):
    * `iter_stmt` — `walk_dir`, `remove_dir_all`, `copy_dir`, `move_dir`: the two backends list a
      directory in different ORDERS (the listings agree as sets only: `Mem.openFile` moves the key
      whose access time it stamps to the front of the association list, `Phys.rename` keeps the
      position), so the runs visit entries in different orders; no order-insensitive argument
      was attempted.
    * `copy_stmt` — `copy_file`, `move_file`, and `append_file` of an overlay (copy-up): FALSE as it
      stands for a directory source on the generic (non-fast-path) route, see
      `copy_dir_source_diverges` below: memory refuses in `open_file`, the host opens the
      directory, the destination is created, then the read fails — both calls fail, but the
      physical world has gained an empty destination file.  With the source restricted to
      non-directories the statement is expected to hold; not proved.
    * the time setters (`set_creation_time` is `NotSupported` on the physical backend).
-/
import VfsModel.Proofs.MemPhysSim
set_option linter.unusedVariables false
namespace Vfs.C02

/-! ### stackings -/

/-- a leaf, or altroots over a leaf -/
inductive StackW : FS → Prop
  | leaf (i : Nat) : StackW (leafFS i)
  | altroot {fs : FS} (id : Nat) (root : Str) : StackW fs → Canon root →
      StackW (Altroot.fs { fs := fs, fsId := id, path := root })

/-- every stacking built from leaves by AltrootFS and OverlayFS (n layers); the write layer of an
overlay is a `StackW` -/
inductive Stack : FS → Prop
  | w {fs : FS} : StackW fs → Stack fs
  | altroot {fs : FS} (id : Nat) (root : Str) : Stack fs → Canon root →
      Stack (Altroot.fs { fs := fs, fsId := id, path := root })
  | overlay (layers : List VPath) : StackW (Overlay.writeLayer layers).fs →
      (∀ l ∈ layers, Stack l.fs) → (∀ l ∈ layers, Canon l.path) →
      Canon (Overlay.writeLayer layers).path → Stack (Overlay.fs layers)

theorem stackW_simW {fs : FS} (h : StackW fs) : SimW RCore fs fs := by
  induction h with
  | leaf i => exact leaf_simW i
  | altroot id root _ hroot ih => exact Altroot.simW ⟨ih, rfl, hroot⟩

theorem stack_simC {fs : FS} (h : Stack fs) : SimC RCore fs fs := by
  induction h with
  | w hw => exact (stackW_simW hw).toSimC
  | altroot id root _ hroot ih => exact Altroot.simC ⟨ih, rfl, hroot⟩
  | overlay layers hw _ hcanon hwc ih =>
    have hL : ∀ (l : List VPath), (∀ x ∈ l, x ∈ layers) → ListRel (SimVC RCore) l l := by
      intro l
      induction l with
      | nil => intro _; exact .nil
      | cons x rest ihl =>
        intro hsub
        exact .cons ⟨ih x (hsub x (by simp)), rfl, hcanon x (hsub x (by simp))⟩
          (ihl fun y hy => hsub y (by simp [hy]))
    exact Overlay.simC (hL layers fun _ h => h) ⟨stackW_simW hw, rfl, hwc⟩

/-! ### operations and what is compared of their results -/

inductive Op where
  | exists_ (p : Str)
  | metadata (p : Str)
  | isFile (p : Str)
  | isDir (p : Str)
  | readDir (p : Str)
  | read (p : Str)
  | createDir (p : Str)
  | createDirAll (p : Str)
  | removeFile (p : Str)
  | removeDir (p : Str)
  | write (p : Str) (script : List Bytes)
  | append (p : Str) (script : List Bytes)

inductive Val where
  | unit
  | bool (b : Bool)
  | md (t : FType) (len : Nat)
  | paths (l : List Str)
  | bytes (b : Bytes)
  deriving DecidableEq, Repr

def ValRel : Val → Val → Prop
  | .unit, .unit => True
  | .bool a, .bool b => a = b
  | .md t1 n1, .md t2 n2 => t1 = t2 ∧ (t1 = .file → n1 = n2)
  | .paths l1, .paths l2 => ∀ s, s ∈ l1 ↔ s ∈ l2
  | .bytes a, .bytes b => a = b
  | _, _ => False

def Op.path : Op → Str
  | .exists_ p | .metadata p | .isFile p | .isDir p | .readDir p | .read p | .createDir p
  | .createDirAll p | .removeFile p | .removeDir p | .write p _ | .append p _ => p

/-- run an operation through the generic `VfsPath` layer on the path `p` of `fs` -/
def Op.run (fs : FS) (id : Nat) : Op → M Val
  | .exists_ p => VPath.exists_ { fs := fs, fsId := id, path := p } >>= fun b => pure (.bool b)
  | .metadata p => VPath.metadata { fs := fs, fsId := id, path := p } >>= fun m => pure (.md m.ftype m.len)
  | .isFile p => VPath.isFile { fs := fs, fsId := id, path := p } >>= fun b => pure (.bool b)
  | .isDir p => VPath.isDir { fs := fs, fsId := id, path := p } >>= fun b => pure (.bool b)
  | .readDir p => VPath.readDir { fs := fs, fsId := id, path := p } >>= fun l => pure (.paths (l.map (·.path)))
  | .read p => C02.VPath.readAll { fs := fs, fsId := id, path := p } >>= fun b => pure (.bytes b)
  | .createDir p => VPath.createDir { fs := fs, fsId := id, path := p } >>= fun _ => pure .unit
  | .createDirAll p => VPath.createDirAll { fs := fs, fsId := id, path := p } >>= fun _ => pure .unit
  | .removeFile p => VPath.removeFile { fs := fs, fsId := id, path := p } >>= fun _ => pure .unit
  | .removeDir p => VPath.removeDir { fs := fs, fsId := id, path := p } >>= fun _ => pure .unit
  | .write p s => C02.VPath.createSession { fs := fs, fsId := id, path := p } s >>= fun _ => pure .unit
  | .append p s => C02.VPath.appendSession { fs := fs, fsId := id, path := p } s >>= fun _ => pure .unit

/-- canonical path; the root is not a target of `create_dir`/`remove_dir`; append sessions on
leaf/altroot stackings -/
def Op.Valid (fs : FS) (op : Op) : Prop :=
  Canon op.path ∧
  (match op with
   | .createDir p | .removeDir p => p ≠ []
   | .append _ _ => StackW fs
   | _ => True)

/-- **C02 for every stacking and every non-iterating `VfsPath` operation** -/
theorem stack_agree {fs : FS} (hs : Stack fs) (id : Nat) (op : Op) (hop : op.Valid fs) :
    CSim RCore KRel ValRel (op.run fs id) (op.run fs id) := by
  have hfs := stack_simC hs
  obtain ⟨hc, hv⟩ := hop
  cases op with
  | exists_ p =>
    exact CSim.bind_eq (VPath.sim_exists ⟨hfs, rfl, hc⟩).ofEq fun b => CSim.pure rfl
  | metadata p =>
    exact CSim.bind (VPath.sim_metadata ⟨hfs, rfl, hc⟩) fun m1 m2 hm => CSim.pure hm
  | isFile p => exact CSim.bind_eq (VPath.sim_isFile ⟨hfs, rfl, hc⟩) fun b => CSim.pure rfl
  | isDir p => exact CSim.bind_eq (VPath.sim_isDir ⟨hfs, rfl, hc⟩) fun b => CSim.pure rfl
  | readDir p =>
    refine CSim.bind (VPath.sim_readDir ⟨hfs, rfl, hc⟩) fun l1 l2 hl => CSim.pure ?_
    intro s
    simp only [List.mem_map]
    constructor
    · rintro ⟨a, ha, rfl⟩
      obtain ⟨b, hb, hab⟩ := hl.1 a ha
      exact ⟨b, hb, hab.path⟩
    · rintro ⟨b, hb, rfl⟩
      obtain ⟨a, ha, hab⟩ := hl.2 b hb
      exact ⟨a, ha, hab.path.symm⟩
  | read p => exact CSim.bind_eq (VPath.sim_readAll ⟨hfs, rfl, hc⟩) fun b => CSim.pure rfl
  | createDir p =>
    exact CSim.bind_eq (VPath.sim_createDir ⟨hfs, rfl, hc⟩ hv) fun _ => CSim.pure trivial
  | createDirAll p =>
    exact CSim.bind_eq (VPath.sim_createDirAll ⟨hfs, rfl, hc⟩) fun _ => CSim.pure trivial
  | removeFile p =>
    exact CSim.bind_eq (VPath.sim_removeFile ⟨hfs, rfl, hc⟩) fun _ => CSim.pure trivial
  | removeDir p =>
    exact CSim.bind_eq (VPath.sim_removeDir ⟨hfs, rfl, hc⟩ hv) fun _ => CSim.pure trivial
  | write p s =>
    exact CSim.bind_eq (VPath.sim_createSession ⟨hfs, rfl, hc⟩ s) fun _ => CSim.pure trivial
  | append p s =>
    exact CSim.bind_eq (VPath.sim_appendSession ⟨stackW_simW hv, rfl, hc⟩ s) fun _ => CSim.pure trivial

/-! ### histories -/

def runHist (fs : FS) (id : Nat) : List Op → World → List (Res Val) × World
  | [], w => ([], w)
  | op :: rest, w =>
    let r := op.run fs id w
    let t := runHist fs id rest r.2
    (r.1 :: t.1, t.2)

/-- **every finite history**: related outcomes call by call, related final worlds -/
theorem stack_history_agree {fs : FS} (hs : Stack fs) (id : Nat) (ops : List Op)
    (hops : ∀ op ∈ ops, op.Valid fs) (w1 w2 : World) (hr : RCore w1 w2) :
    ListRel (CRes KRel ValRel) (runHist fs id ops w1).1 (runHist fs id ops w2).1 ∧
    RCore (runHist fs id ops w1).2 (runHist fs id ops w2).2 := by
  induction ops generalizing w1 w2 with
  | nil => exact ⟨.nil, hr⟩
  | cons op rest ih =>
    obtain ⟨h1, h2⟩ := stack_agree hs id op (hops op (by simp)) w1 w2 hr
    obtain ⟨i1, i2⟩ := ih (fun o ho => hops o (by simp [ho])) _ _ h2
    exact ⟨.cons h1 i1, i2⟩

/-- `n` fresh memory leaves / `n` fresh physical leaves -/
def memWorld (n : Nat) : World := { leaves := List.replicate n { kind := .mem, files := Mem.init } }
def physWorld (n : Nat) : World := { leaves := List.replicate n { kind := .phys, files := Phys.init } }

theorem leafOK_init : LeafOK Mem.init Phys.init := by
  refine ⟨WF.init_mem, ?_, ?_⟩
  · intro k
    simp only [Mem.init, Phys.init, FMap.find?_cons]
    split <;> rfl
  · intro k hk
    simp [Mem.init, FMap.keys] at hk
    subst hk
    exact ⟨[], by simp, rfl⟩

theorem rcore_init (n : Nat) : RCore (memWorld n) (physWorld n) := by
  refine ⟨fun i => ?_, rfl, rfl, rfl⟩
  unfold memWorld physWorld World.leaf?
  simp only [List.getElem?_replicate]
  split
  · exact ⟨rfl, rfl, leafOK_init⟩
  · trivial

/-- **from empty filesystems** -/
theorem stack_from_empty {fs : FS} (hs : Stack fs) (id n : Nat) (ops : List Op)
    (hops : ∀ op ∈ ops, op.Valid fs) :
    ListRel (CRes KRel ValRel) (runHist fs id ops (memWorld n)).1 (runHist fs id ops (physWorld n)).1 ∧
    RCore (runHist fs id ops (memWorld n)).2 (runHist fs id ops (physWorld n)).2 :=
  stack_history_agree hs id ops hops _ _ (rcore_init n)

/-- what `RCore` says: leaf by leaf the same observable tree and file bytes, and the in-memory
tree is well-formed -/
theorem rcore_coreEq {w1 w2 : World} (h : RCore w1 w2) (i : Nat) (l1 : Leaf)
    (h1 : w1.leaf? i = some l1) :
    ∃ l2, w2.leaf? i = some l2 ∧ l1.kind = .mem ∧ l2.kind = .phys ∧ WF l1.files ∧
      CoreEq l1.files l2.files := by
  have := h.leaf i
  rw [h1] at this
  cases h2 : w2.leaf? i with
  | none => rw [h2] at this; exact absurd this id
  | some l2 =>
    rw [h2] at this
    exact ⟨l2, rfl, this.1, this.2.1, this.2.2.wf, this.2.2.core⟩

/-- related outcomes: same success / failure / panic, and the named classes match -/
theorem cres_outcome {r1 r2 : Res Val} (h : CRes KRel ValRel r1 r2) :
    r1.isOk = r2.isOk ∧ r1.isPanic = r2.isPanic ∧
    (∀ k1 k2, r1.kind? = some k1 → r2.kind? = some k2 →
      (k1 = .fileExists ↔ k2 = .fileExists) ∧ (k1 = .dirExists ↔ k2 = .dirExists) ∧
      (k2 = .fileNotFound → k1 = .fileNotFound ∨ k1 = .other)) := by
  refine ⟨h.isOk_eq, h.isPanic_eq, ?_⟩
  intro k1 k2 e1 e2
  cases h with
  | ok _ => cases e1
  | panic => cases e1
  | err hk =>
    simp only [Res.kind?, Option.some.injEq] at e1 e2
    subst e1 e2
    exact ⟨(KRel.exact hk).1, (KRel.exact hk).2.1, (KRel.exact hk).2.2.2.2⟩

/-! ### non-vacuity: an overlay of two layers below an altroot -/

/-- two leaves: leaf 0 is the write layer, leaf 1 the lower layer -/
def exLayers : List VPath :=
  [{ fs := leafFS 0, fsId := 10, path := [] }, { fs := leafFS 1, fsId := 11, path := [] }]

/-- the altroot over the overlay of the two leaves -/
def exFS : FS := Altroot.fs { fs := Overlay.fs exLayers, fsId := 20, path := [] }

theorem canon_nil : Canon [] := ⟨[], by simp, rfl⟩

theorem exStack : Stack exFS := by
  refine Stack.altroot 20 [] (Stack.overlay exLayers (StackW.leaf 0) ?_ ?_ canon_nil) canon_nil
  · intro l hl
    simp only [exLayers, List.mem_cons, List.mem_nil_iff, or_false] at hl
    rcases hl with rfl | rfl
    · exact Stack.w (StackW.leaf 0)
    · exact Stack.w (StackW.leaf 1)
  · intro l hl
    simp only [exLayers, List.mem_cons, List.mem_nil_iff, or_false] at hl
    rcases hl with rfl | rfl <;> exact canon_nil

def pD : Str := "/d".toList
def pF : Str := "/d/f".toList
def pE : Str := "/e".toList
def pX : Str := "/x".toList

/-- a history of the covered operations: the third and the last call fail -/
def exOps : List Op :=
  [.createDir pD, .write pF ["ab".toUTF8.toList, "c".toUTF8.toList], .createDir pD, .read pF,
   .append pF ["!".toUTF8.toList], .removeDir pD]

/-- the hypotheses of `stack_from_empty` are satisfiable on this stacking (the append session
is excluded: the top of the stacking is not a `StackW`) -/
theorem exOps_valid : ∀ op ∈ exOps.take 4 ++ exOps.drop 5, op.Valid exFS := by
  intro op hop
  simp only [exOps, List.take, List.drop, List.cons_append, List.nil_append, List.mem_cons,
    List.mem_nil_iff, or_false] at hop
  have hD : Canon pD := ⟨["d".toList], by decide, by decide⟩
  have hF : Canon pF := ⟨["d".toList, "f".toList], by decide, by decide⟩
  rcases hop with rfl | rfl | rfl | rfl | rfl
  · exact ⟨hD, by decide⟩
  · exact ⟨hF, trivial⟩
  · exact ⟨hD, by decide⟩
  · exact ⟨hF, trivial⟩
  · exact ⟨hD, by decide⟩

/-- `stack_from_empty` instantiated on the example -/
example := stack_from_empty exStack 20 2 _ exOps_valid

/-- append sessions: an altroot over a leaf is a `StackW`, so `.append` is a valid operation -/
theorem exW : StackW (Altroot.fs { fs := leafFS 0, fsId := 1, path := [] }) :=
  StackW.altroot 1 [] (StackW.leaf 0) canon_nil

example : (Op.append pF ["!".toUTF8.toList]).Valid (Altroot.fs { fs := leafFS 0, fsId := 1, path := [] }) :=
  ⟨⟨["d".toList, "f".toList], by decide, by decide⟩, exW⟩

/-- … and on it the append session gives the same bytes on both backends -/
example :
    (runHist (Altroot.fs { fs := leafFS 0, fsId := 1, path := [] }) 1
      [.createDir pD, .write pF ["ab".toUTF8.toList], .append pF ["!".toUTF8.toList, []], .read pF]
      (memWorld 1)).1 =
    (runHist (Altroot.fs { fs := leafFS 0, fsId := 1, path := [] }) 1
      [.createDir pD, .write pF ["ab".toUTF8.toList], .append pF ["!".toUTF8.toList, []], .read pF]
      (physWorld 1)).1 := by
  decide +kernel

/-- what the theorem says on it, evaluated by the kernel: the same outcomes on both backends
(`DirExists` for the repeated `create_dir`, the bytes "abc" read back, the final `remove_dir`
of a non-empty directory refused — `Other` in both runs here, as the overlay itself refuses) -/
theorem ex_outcomes :
    (runHist exFS 20 (exOps.take 4 ++ exOps.drop 5) (memWorld 2)).1 =
      [.ok .unit, .ok .unit, .err .dirExists (some pD), .ok (.bytes "abc".toUTF8.toList),
       .err .other (some pD)] ∧
    (runHist exFS 20 (exOps.take 4 ++ exOps.drop 5) (physWorld 2)).1 =
      [.ok .unit, .ok .unit, .err .dirExists (some pD), .ok (.bytes "abc".toUTF8.toList),
       .err .other (some pD)] := by
  decide +kernel

/-- decidable form of `CoreEq` -/
def coreEqB (a b : FMap) : Bool :=
  (a.keys ++ b.keys).all fun k => (a.find? k).map core == (b.find? k).map core

theorem coreEq_of_coreEqB {a b : FMap} (h : coreEqB a b = true) : CoreEq a b := by
  intro k
  unfold coreEqB at h
  rw [List.all_eq_true] at h
  by_cases hk : k ∈ a.keys ++ b.keys
  · simpa using h k hk
  · rw [List.mem_append, not_or] at hk
    have h1 : a.find? k = none := by
      cases hf : a.find? k with
      | none => rfl
      | some e => exact absurd ((FMap.mem_keys_iff a k).2 ⟨e, hf⟩) hk.1
    have h2 : b.find? k = none := by
      cases hf : b.find? k with
      | none => rfl
      | some e => exact absurd ((FMap.mem_keys_iff b k).2 ⟨e, hf⟩) hk.2
    rw [h1, h2]

/-- a longer run on the two concrete worlds, with a `copy_dir` (not covered by `stack_agree`)
and a failing call, through the altroot over the two-layer overlay: 6 calls -/
def exRun : M (List (Res Unit)) := do
  let d : VPath := { fs := exFS, fsId := 20, path := pD }
  let f : VPath := { fs := exFS, fsId := 20, path := pF }
  let e : VPath := { fs := exFS, fsId := 20, path := pE }
  let r1 ← M.attempt d.createDir
  let r2 ← M.attempt (C02.VPath.createSession f ["ab".toUTF8.toList, "c".toUTF8.toList])
  let r3 ← M.attempt d.createDir
  let r4 ← M.attempt (VPath.copyDir 8 d e >>= fun _ => pure ())
  let r5 ← M.attempt f.removeFile
  let r6 ← M.attempt d.removeDir
  pure [r1, r2, r3, r4, r5, r6]

/-- same outcomes call by call (the third call fails with `DirExists` in both runs), and the
final leaves hold the same tree and bytes -/
theorem ex_copyDir_agrees :
    (exRun (memWorld 2)).1 = (exRun (physWorld 2)).1 ∧
    ((exRun (memWorld 2)).2.leaves.zip (exRun (physWorld 2)).2.leaves).all
      (fun l => l.1.kind == .mem && l.2.kind == .phys && coreEqB l.1.files l.2.files) = true := by
  decide +kernel

/-- **the divergence that `copy_stmt` must exclude** (kernel-checked): `copy_file` with a
DIRECTORY as source, through the altroot over the overlay.  Both calls fail; afterwards the
destination exists on the physical backend (an empty file) and does not exist in memory. -/
theorem copy_dir_source_diverges :
    let d : VPath := { fs := exFS, fsId := 20, path := pD }
    let x : VPath := { fs := exFS, fsId := 20, path := pX }
    let run : M (Res Unit × Bool) := do
      d.createDir
      let r ← M.attempt (d.copyFile x)
      let ex ← x.exists_
      pure (r, ex)
    ((run (memWorld 2)).1.map fun r => (r.1.isOk, r.2)) = .ok (false, false) ∧
    ((run (physWorld 2)).1.map fun r => (r.1.isOk, r.2)) = .ok (false, true) := by
  decide +kernel

/-! ### what is not proved -/

/-- the iterating operations (NOT PROVED; listings agree as sets only, see the header) -/
def iter_stmt : Prop :=
  ∀ (fs : FS), Stack fs → ∀ (id fuel : Nat) (s d : Str), Canon s → Canon d → s ≠ [] → d ≠ [] →
    CSim RCore KRel (· = ·)
      (VPath.removeDirAll fuel { fs := fs, fsId := id, path := s })
      (VPath.removeDirAll fuel { fs := fs, fsId := id, path := s }) ∧
    CSim RCore KRel (· = ·)
      (VPath.copyDir fuel { fs := fs, fsId := id, path := s } { fs := fs, fsId := id, path := d })
      (VPath.copyDir fuel { fs := fs, fsId := id, path := s } { fs := fs, fsId := id, path := d }) ∧
    CSim RCore KRel (· = ·)
      (VPath.moveDir fuel { fs := fs, fsId := id, path := s } { fs := fs, fsId := id, path := d })
      (VPath.moveDir fuel { fs := fs, fsId := id, path := s } { fs := fs, fsId := id, path := d })

/-- `copy_file` / `move_file` restricted to sources that are not directories (NOT PROVED; without
the restriction it is refuted by `copy_dir_source_diverges`) -/
def copy_stmt : Prop :=
  ∀ (fs : FS), Stack fs → ∀ (id : Nat) (s d : Str), Canon s → Canon d →
    ∀ w1 w2, RCore w1 w2 →
      (VPath.isDir { fs := fs, fsId := id, path := s } w1).1 = .ok false →
      (CRes KRel (· = ·)
        (VPath.copyFile { fs := fs, fsId := id, path := s } { fs := fs, fsId := id, path := d } w1).1
        (VPath.copyFile { fs := fs, fsId := id, path := s } { fs := fs, fsId := id, path := d } w2).1 ∧
       RCore
        (VPath.copyFile { fs := fs, fsId := id, path := s } { fs := fs, fsId := id, path := d } w1).2
        (VPath.copyFile { fs := fs, fsId := id, path := s } { fs := fs, fsId := id, path := d } w2).2) ∧
      (CRes KRel (· = ·)
        (VPath.moveFile { fs := fs, fsId := id, path := s } { fs := fs, fsId := id, path := d } w1).1
        (VPath.moveFile { fs := fs, fsId := id, path := s } { fs := fs, fsId := id, path := d } w2).1 ∧
       RCore
        (VPath.moveFile { fs := fs, fsId := id, path := s } { fs := fs, fsId := id, path := d } w1).2
        (VPath.moveFile { fs := fs, fsId := id, path := s } { fs := fs, fsId := id, path := d } w2).2)

#print axioms stack_agree
#print axioms stack_history_agree
#print axioms stack_from_empty
#print axioms leaf_simW
#print axioms Overlay.simC
#print axioms Altroot.simW
#print axioms ex_outcomes
#print axioms ex_copyDir_agrees
#print axioms copy_dir_source_diverges

end Vfs.C02
