/-
  C11 with an OVERLAY AS THE SOURCE — `copy_dir` / `move_dir` of a tree of ANY depth out of an
  overlay over n ≥ 1 in-memory layers onto a memory leaf that is not a layer produce an exact copy
  of what the overlay SHOWS. ORDER-INSENSITIVE statement, proved directly on the view (no lock-step
  with a reference leaf: the overlay's merged listings come in an order of their own).

  SETTING (as in Props/C09Contract.lean / Props/C05WalkView.lean): world `w` with
  `OWN w (u :: is) (idu :: ids) (mu :: ms)`, `OInv mu ms`, `ViewWF (oview (mu :: ms))`, name
  discipline `NamesOK (mu :: ms)` (needed by the walk: Props/C05WalkView.lean); lower layers
  arbitrary, whiteouts allowed. Source `S = renderC ss`, `OpPath ss`, a directory of the view.
  Destination `D = renderC (dp ++ [n0])` (canonical components) on the memory leaf `t ∉ u :: is`
  holding `mt0`; `D`'s parent is a directory of `mt0`; `D` is fresh: nothing at `D` or at a
  canonical path below it (`hfresh`; `fresh_of_wf`: follows from `WF mt0` and `D` absent). The two
  paths carry different `Arc` identities (`id ≠ tid`: two filesystems). `D`escendants: any
  duplicate-free enumeration `D` of the present disciplined paths strictly below `S`
  (`DescList (ovisView (mu :: ms)) S D`), fuel > `D.length`.

  PROVED (no sorry; axioms propext, Classical.choice, Quot.sound)
  * `copyDir_from_overlay_exact` — the call returns `Ok D.length` (the number of view entries
    strictly below `S`); afterwards, with `mt'` the destination leaf's map:
      - `D` is a directory;
      - for EVERY relative path `ts ≠ []` of canonical components:
          `(mt'.find? (D/ts)).map vcore = (ovisView (mu :: ms) (S/ts)).map vcore`
        i.e. `D/ts` exists iff `S/ts` is in the (disciplined) view, with the same type, a file with
        exactly the bytes the overlay serves (first layer that has it) — `vcore` = type + bytes of
        files; hidden (whited-out) entries, marker files and ".whiteout" are NOT copied
        (`copy_absent_of_hidden`, `copy_faithful_of_shown` read the equation);
      - every key of the destination leaf that is not `D` or `D/ts` is unchanged (`find?` equal);
      - the overlay's layers are unchanged up to access stamps: `MapSame mu mu'`,
        `LowerSame ms ms'`, and `OWN`/`OInv`/`ViewWF`/`NamesOK` hold again.
  * `moveDir_from_overlay_exact` — the same for `move_dir` (generic route; copy phase, then
    `remove_dir_all` of the source THROUGH the overlay with the same fuel; extra hypothesis
    `FuelOK (oview (mu :: ms)) ss fuel` = depth bound of the recursive removal, decidable check
    `fuelOK_of_keys`): Ok; destination as above; NO TRACE of the source in the view (`InSub ss q →
    oview … q = none`); every visible path outside the source subtree keeps type and bytes; the
    LOWER layers are unchanged up to access stamps (`LowerSame`; the removal writes whiteouts to
    the upper layer only); invariants again.
  * `copyPhase_from_overlay` (the four calls of the shared copy phase, evaluated),
    `copyItems_from_overlay` (the loop: invariant `DInv` = "the destination holds `D` plus exactly
    the items processed so far, each faithful; nothing else below `D`; the rest of the leaf
    untouched"; the iterator facts come from the generic step lemma `WkG.walkNext_spec'` over
    the set of worlds `{w}` with the ORIGINAL view as tree — `srcSt_treeView`,
    `treeViewOn_congr`: a tree view only matters up to presence and types, so access stamps
    written by `open_file` in the layers do not disturb the walk; ancestors-first gives each
    `create_dir` / `copy_file` its parent).
  Non-vacuity: Props/C11OverlaySourceEx.lean (3 layers, nested directory spread over all layers,
  two whited-out entries; hypotheses by `decide`, result evaluated by `decide +kernel`).

  STATED HERE, PROVED IN Props/C11OverlayWithin.lean: source and destination in ONE overlay
  (`copyDir_within_overlay_exact_stmt`, `moveDir_within_overlay_exact_stmt` at the end of this
  file; there the view CHANGES during the walk, so the tree of the walk theorem is re-established
  after every item).
  NOT PROVED: failing runs (occupied destination, missing parent, too little fuel — for the
  latter see the evaluated example); destinations that are not canonical strings; a physical or
  altroot destination; the fast path (equal `Arc` identities cannot occur between two
  filesystems); the relational forms `copyDir_from_overlay_stmt` / `copyDir_within_overlay_stmt`
  of Props/C11OverlayTree.lean (agreement with the same call on a reference leaf; they follow
  from the exact theorems here plus `C11.copyDir_exact` on the reference side, which lives in the
  import chain of Proofs/TransferLemmas.lean and cannot be imported together with this file).
-/
import VfsModel.Props.C11OverlayTree
set_option linter.unusedSimpArgs false
set_option linter.unusedVariables false
set_option linter.unusedSectionVars false
namespace Vfs.C11
open Vfs Vfs.Overlay Vfs.C02 Vfs.C01 Vfs.C09 Vfs.C05 Vfs.Wk
open Vfs.WkG (TreeViewOn TreeView IsNames)

/-! ### A. the destination: a memory leaf, fresh paths -/

theorem pCreateDir_fresh {m : FMap} {p : Str} {pe : Entry} (hs : '/' ∈ p)
    (hpar : m.find? (parentInternal p) = some pe) (hpd : pe.ftype = .dir)
    (hab : m.find? p = none) :
    Mem.pCreateDir m p = (.ok (), m.insert p dirEntryNow) := by
  unfold Mem.pCreateDir Mem.parentOk Mem.createDir Mem.ensureHasParent
  simp [hpar, hpd, hs, hab, Res.withPath]

theorem pWrite_fresh {m : FMap} {p : Str} {pe : Entry} (bs : Bytes) (hs : '/' ∈ p)
    (hpar : m.find? (parentInternal p) = some pe) (hpd : pe.ftype = .dir)
    (hab : m.find? p = none) :
    ∃ e', e'.ftype = .file ∧ e'.content = bs ∧
      Mem.pWrite m p bs = (.ok (), (m.insert p fileEntryNow).insert p e') := by
  refine ⟨{ ftype := .file, content := bs, created := fileEntryNow.created, modified := .now,
            accessed := fileEntryNow.accessed }, rfl, rfl, ?_⟩
  unfold Mem.pWrite Mem.parentOk Mem.createFile Mem.ensureHasParent
  simp only [hpar, hpd, hs, hab, decide_true, if_true]
  unfold memPublish
  simp only [FMap.find?_insert_self]
  have : fileEntryNow.ftype = .file := rfl
  simp only [this, if_true, cursorWrite_nil]

theorem mapSame_trans {a b c : FMap} (h1 : MapSame a b) (h2 : MapSame b c) : MapSame a c :=
  fun q => (h2 q).trans (h1 q)

/-! ### B. a tree view only matters up to presence and types -/

theorem ft_some {a b : Option Entry} (h : a.map Entry.ftype = b.map Entry.ftype) {e : Entry}
    (ha : a = some e) : ∃ e0, b = some e0 ∧ e0.ftype = e.ftype := by
  subst ha
  cases b with
  | none => simp at h
  | some e0 => exact ⟨e0, rfl, by simpa using h.symm⟩

theorem ft_ne_none {a b : Option Entry} (h : a.map Entry.ftype = b.map Entry.ftype) :
    a ≠ none ↔ b ≠ none := by
  cases a <;> cases b <;> simp at h ⊢

theorem treeViewOn_congr {fs : FS} {S : World → Prop} {v v' : Str → Option Entry}
    (tv : TreeViewOn fs S v) (h : ∀ k, (v' k).map Entry.ftype = (v k).map Entry.ftype) :
    TreeViewOn fs S v' where
  finite := by
    obtain ⟨keys, hk⟩ := tv.finite
    exact ⟨keys, fun k hne => hk k ((ft_ne_none (h k)).1 hne)⟩
  root := by
    obtain ⟨e, he, hd⟩ := tv.root
    obtain ⟨e0, he0, hft⟩ := ft_some (h []).symm he
    exact ⟨e0, he0, hft.trans hd⟩
  parent := by
    intro k e he hne
    obtain ⟨e0, he0, _⟩ := ft_some (h k) he
    obtain ⟨hs, pe, hpe, hpd⟩ := tv.parent k e0 he0 hne
    obtain ⟨pe', hpe', hft⟩ := ft_some (h _).symm hpe
    exact ⟨hs, pe', hpe', hft.trans hpd⟩
  readDir := by
    intro w hw p e hp hd
    obtain ⟨e0, he0, hft⟩ := ft_some (h p) hp
    obtain ⟨names, w', h1, h2, hnd, hmem⟩ := tv.readDir w hw p e0 he0 (hft.trans hd)
    refine ⟨names, w', h1, h2, hnd, fun n => ?_⟩
    rw [hmem n, ft_ne_none (h (p ++ '/' :: n))]
  metadata := by
    intro w hw p e hp
    obtain ⟨e0, he0, hft⟩ := ft_some (h p) hp
    obtain ⟨md, w', h1, h2, h3⟩ := tv.metadata w hw p e0 he0
    exact ⟨md, w', h1, h2, h3.trans hft⟩

theorem ft_of_vcore {a b : Option Entry} (h : a.map vcore = b.map vcore) :
    a.map Entry.ftype = b.map Entry.ftype := by
  cases a <;> cases b <;> simp at h ⊢
  rename_i x y
  have := congrArg Prod.fst h
  rwa [vcore_fst, vcore_fst] at this

theorem vis_of_ovis {k : Str} (h : OVis k) : Vis k := by
  rcases h with rfl | ⟨cs, hcs, rfl⟩
  · exact Or.inl rfl
  · exact hcs.vis

/-! ### C. the source side: an overlay whose layers change by access stamps only -/

/-- the world holds the overlay over the memory leaves `u :: is`, with maps that are the ORIGINAL
maps `mu0 :: ms0` up to access stamps; invariants and name discipline hold -/
def SrcSt (u idu : Nat) (is ids : List Nat) (mu0 : FMap) (ms0 : List FMap) (w : World) : Prop :=
  ∃ mu ms, OSt u idu is ids ms w mu ∧ MapSame mu0 mu ∧ LowerSame ms0 ms ∧ NamesOK (mu :: ms)

theorem srcSt_treeView {u idu : Nat} {is ids : List Nat} {mu0 : FMap} {ms0 : List FMap}
    {w : World} (h : SrcSt u idu is ids mu0 ms0 w) {m : FMap}
    (hm : m.find? = ovisView (mu0 :: ms0)) :
    TreeViewOn (Overlay.fs (layersN (u :: is) (idu :: ids))) (fun w' => w' = w) m.find? := by
  obtain ⟨mu, ms, st, hmu, hls, hn⟩ := h
  have tv := overlay_treeView st.own st.inv st.vwf hn
  refine treeViewOn_congr tv (fun k => ?_)
  rw [hm]
  unfold ovisView
  split
  · rename_i hv
    exact (ft_of_vcore (oview_mapSame hmu hls k (vis_of_ovis hv))).symm
  · rfl

/-! ### D. the invariant on the destination leaf -/

theorem ne_of_ts {dd ts1 ts2 : List Str} (hdd : ∀ c ∈ dd, GoodComp c) (h1 : ∀ c ∈ ts1, GoodComp c)
    (h2 : ∀ c ∈ ts2, GoodComp c) (hne : ts1 ≠ ts2) : renderC (dd ++ ts1) ≠ renderC (dd ++ ts2) := by
  intro h0
  have := C06.renderC_injective _ _ (good_noSlash (good_append hdd h1))
    (good_noSlash (good_append hdd h2)) h0
  exact hne (List.append_cancel_left this)

/-- the destination map `mt` against the original destination map `mt0`; `proc` = the source
path strings processed so far -/
structure DInv (all0 : List FMap) (ss dd : List Str) (mt0 mt : FMap) (proc : Str → Prop) : Prop where
  top : ∃ e, mt.find? (renderC dd) = some e ∧ e.ftype = .dir
  done : ∀ ts, ts ≠ [] → OpPath (ss ++ ts) → proc (renderC (ss ++ ts)) →
    (mt.find? (renderC (dd ++ ts))).map vcore = (oview all0 (renderC (ss ++ ts))).map vcore
  notyet : ∀ ts, ts ≠ [] → (∀ c ∈ ts, GoodComp c) → ¬ proc (renderC (ss ++ ts)) →
    mt.find? (renderC (dd ++ ts)) = none
  frame : ∀ k, (∀ ts, (∀ c ∈ ts, GoodComp c) → k ≠ renderC (dd ++ ts)) → mt.find? k = mt0.find? k

theorem DInv.congr {all0 : List FMap} {ss dd : List Str} {mt0 mt : FMap} {proc proc' : Str → Prop}
    (h : DInv all0 ss dd mt0 mt proc) (hp : ∀ k, proc' k ↔ proc k) : DInv all0 ss dd mt0 mt proc' :=
  ⟨h.top, fun ts a b c => h.done ts a b ((hp _).1 c),
    fun ts a b c => h.notyet ts a b (fun h0 => c ((hp _).2 h0)), h.frame⟩

theorem DInv.step {all0 : List FMap} {ss dd : List Str} {mt0 mt mt1 : FMap} {proc proc' : Str → Prop}
    (h : DInv all0 ss dd mt0 mt proc) (hss : ∀ c ∈ ss, GoodComp c) (hdd : ∀ c ∈ dd, GoodComp c)
    {ts : List Str} (hts : ts ≠ []) (hgt : ∀ c ∈ ts, GoodComp c)
    (hproc : ∀ k, proc' k ↔ (proc k ∨ k = renderC (ss ++ ts)))
    (hnew : (mt1.find? (renderC (dd ++ ts))).map vcore
      = (oview all0 (renderC (ss ++ ts))).map vcore)
    (hold : ∀ k, k ≠ renderC (dd ++ ts) → mt1.find? k = mt.find? k) :
    DInv all0 ss dd mt0 mt1 proc' := by
  refine ⟨?_, ?_, ?_, ?_⟩
  · obtain ⟨e, he, hd⟩ := h.top
    refine ⟨e, ?_, hd⟩
    rw [hold _ (by
      have := ne_of_ts (ts1 := []) (ts2 := ts) hdd (by intro c hc; cases hc) hgt (Ne.symm hts)
      simpa using this)]
    exact he
  · intro ts2 hts2 hp2 hpr
    have hg2 : ∀ c ∈ ts2, GoodComp c := fun c hc => hp2.good c (by simp [hc])
    by_cases heq : ts2 = ts
    · subst heq; exact hnew
    · rw [hold _ (ne_of_ts hdd hg2 hgt heq)]
      rcases (hproc _).1 hpr with hpr | hpr
      · exact h.done ts2 hts2 hp2 hpr
      · exact absurd hpr (ne_of_ts hss hg2 hgt heq)
  · intro ts2 hts2 hg2 hnp
    have heq : ts2 ≠ ts := fun h0 => hnp ((hproc _).2 (Or.inr (by rw [h0])))
    rw [hold _ (ne_of_ts hdd hg2 hgt heq)]
    exact h.notyet ts2 hts2 hg2 (fun h0 => hnp ((hproc _).2 (Or.inl h0)))
  · intro k hk
    rw [hold k (hk ts hgt)]
    exact h.frame k hk

/-! ### E. the pieces of one round of the loop -/

theorem relJoin_good (fs : FS) (id : Nat) {S : Str} {cs ts : List Str} {x : VPath}
    (hx : x.path = S ++ renderC ts) (hne : ts ≠ []) (hgc : ∀ c ∈ cs, GoodComp c)
    (hgt : ∀ c ∈ ts, GoodComp c) :
    VPath.relJoin ⟨fs, id, renderC cs⟩ S.length x = .ok ⟨fs, id, renderC (cs ++ ts)⟩ := by
  have hrne : renderC ts ≠ [] := renderC_ne_nil hne
  have hlen : ¬ x.path.length < S.length + 1 := by
    rw [hx, List.length_append]
    have : 0 < (renderC ts).length := List.length_pos_iff.2 hrne
    omega
  unfold VPath.relJoin
  have hdrop : List.drop (S.length + 1) (S ++ renderC ts) = List.drop 1 (renderC ts) := by
    rw [← List.drop_drop, List.drop_left]
  rw [if_neg hlen, hx, hdrop]
  unfold VPath.join
  have := Overlay.join_tail_canon (b := renderC cs) (p := renderC ts) ⟨cs, hgc, rfl⟩ ⟨ts, hgt, rfl⟩ hrne
  unfold tail1 at this
  simp only [this, Res.map, VPath.withStr, renderC_append]

/-- `copy_file` along the generic route (different `Arc` identities), evaluated -/
theorem copyFile_generic (sfs dfs : FS) (a b : Nat) (hab : a ≠ b) (s d : Str) (w w1 w3 : World)
    (bs : Bytes)
    (hex : VPath.exists_ ⟨dfs, b, d⟩ w = (.ok false, w))
    (hopen : VPath.openFile ⟨sfs, a, s⟩ w = (.ok { content := bs, pos := 0 }, w1))
    (hwrite : (do let hd ← VPath.createFile ⟨dfs, b, d⟩
                  hd.writeAllAndDrop bs : M Unit) w1 = (.ok (), w3)) :
    VPath.copyFile ⟨sfs, a, s⟩ ⟨dfs, b, d⟩ w = (.ok (), w3) := by
  rcases hc : VPath.createFile ⟨dfs, b, d⟩ w1 with ⟨r, w2⟩
  simp only [bind, M.bind, hc] at hwrite
  cases r with
  | ok wh =>
    simp only at hwrite
    unfold VPath.copyFile
    simp only [M.withPath, bind, M.bind, hex, hab, fail, hopen, hc, ioCopyAndDrop_good, hwrite,
      Res.withPath, Bool.false_eq_true, if_false, ne_eq, not_true_eq_false, pure, M.pure]
  | err k p => simp at hwrite
  | panic => simp at hwrite

/-! ### F. the loop -/

section loop
variable {u idu : Nat} {is ids : List Nat} {mu0 : FMap} {ms0 : List FMap} {t tid id : Nat}
  (ht : t ∉ u :: is) (hid : id ≠ tid) {m : FMap} (hm : m.find? = ovisView (mu0 :: ms0))
  (hwf : WF m) (hnk : FMap.NodupKeys m) {ss dd : List Str} (hss : OpPath ss)
  (hdd : ∀ c ∈ dd, GoodComp c) (mt0 : FMap)
include ht hid hm hwf hnk hss hdd

local notation "ofs" => Overlay.fs (layersN (u :: is) (idu :: ids))

theorem copyItems_from_overlay :
    ∀ (fuel : Nat) (inner todo : List Str) (count : Nat) (w : World) (mt : FMap),
      SrcSt u idu is ids mu0 ms0 w → MemLeafAt w t mt → Good m inner todo →
      (∀ k, (∃ e, m.find? k = some e) → pending inner todo k = true →
        below (renderC ss) k = true) →
      DInv (mu0 :: ms0) ss dd mt0 mt
        (fun k => (∃ e, m.find? k = some e) ∧ pending inner todo k = false) →
      (m.keys.filter (pending inner todo)).length < fuel →
      ∃ w' mt', VPath.copyItems fuel ⟨ofs, id, renderC ss⟩ ⟨leafFS t, tid, renderC dd⟩
          (WkG.st ⟨ofs, id, renderC ss⟩ inner todo) count w
          = (.ok (count + (m.keys.filter (pending inner todo)).length), w') ∧
        SrcSt u idu is ids mu0 ms0 w' ∧ MemLeafAt w' t mt' ∧
        DInv (mu0 :: ms0) ss dd mt0 mt' (fun k => ∃ e, m.find? k = some e) := by
  intro fuel
  induction fuel with
  | zero => intro inner todo count w mt _ _ _ _ _ hf; omega
  | succ fuel ih =>
    intro inner todo count w mt hS hleaf hg hbel hD hf
    have tv := srcSt_treeView hS hm
    rcases WkG.walkNext_spec' (P := ⟨ofs, id, renderC ss⟩) tv hwf todo inner w rfl hg with
      ⟨w1, hw1, h1, h2⟩ | ⟨x, inner', todo', w1, hw1, h1, hg', ⟨e, hx⟩, h4, h5, h6⟩
    · subst hw1
      have hnil : m.keys.filter (pending inner todo) = [] :=
        List.filter_eq_nil_iff.2 (fun k hk => by
          rw [h2 k ((FMap.mem_keys_iff m k).1 hk)]; simp)
      refine ⟨w1, mt, ?_, hS, hleaf, hD.congr (fun k => ?_)⟩
      · rw [VPath.copyItems]
        simp only [bind, M.bind, h1, pure, M.pure, hnil]
        rfl
      · exact ⟨fun hk => ⟨hk, h2 k hk⟩, fun hk => hk.1⟩
    · subst hw1
      have hpx : pending inner todo x = true := by rw [h5 x ⟨e, hx⟩]; simp
      have hbx := hbel x ⟨e, hx⟩ hpx
      have hx' : ovisView (mu0 :: ms0) x = some e := by rw [← hm]; exact hx
      obtain ⟨hov, hxe⟩ := ovisView_some hx'
      have hin : InSub ss x := (inSub_iff hss x).2 ⟨hov, by unfold within; rw [hbx]; simp⟩
      obtain ⟨ts, hpt, hxeq⟩ := hin
      subst hxeq
      have hts : ts ≠ [] := by
        intro h0; subst h0
        rw [List.append_nil, below_irrefl] at hbx; cases hbx
      obtain ⟨ts', n, htseq⟩ : ∃ ts' n, ts = ts' ++ [n] := by
        rcases List.eq_nil_or_concat ts with h0 | ⟨a, b, h0⟩
        · exact absurd h0 hts
        · exact ⟨a, b, by rw [h0, List.concat_eq_append]⟩
      have hgt : ∀ c ∈ ts, GoodComp c := fun c hc => hpt.good c (by simp [hc])
      have hgss : ∀ c ∈ ss, GoodComp c := hss.good
      -- the current state of the overlay
      obtain ⟨mu, ms, st, hmu, hls, hn⟩ := (show SrcSt u idu is ids mu0 ms0 w1 from hS)
      have hvs : VSame (oview (mu0 :: ms0)) (oview (mu :: ms)) := oview_mapSame hmu hls
      have hcur := hvs _ hpt.vis
      rw [hxe] at hcur
      cases he1 : oview (mu :: ms) (renderC (ss ++ ts)) with
      | none => rw [he1] at hcur; simp at hcur
      | some e1 =>
        rw [he1] at hcur
        simp only [Option.map_some, Option.some.injEq] at hcur
        have hft : e1.ftype = e.ftype := by
          have := congrArg Prod.fst hcur; rwa [vcore_fst, vcore_fst] at this
        have hmeta := o_metadata st id hpt he1
        have hrel := relJoin_good (leafFS t) tid (S := renderC ss) (cs := dd) (ts := ts)
          (x := ⟨ofs, id, renderC (ss ++ ts)⟩) (by simp) hts hdd hgt
        -- the parent of the destination item is a directory of the destination leaf
        have hslash : '/' ∈ renderC (dd ++ ts) := slash_mem_renderC (by simp [hts])
        have hparD : ∃ pe', mt.find? (parentInternal (renderC (dd ++ ts))) = some pe' ∧
            pe'.ftype = .dir := by
          subst htseq
          have hpe : parentInternal (renderC (dd ++ (ts' ++ [n]))) = renderC (dd ++ ts') := by
            rw [← List.append_assoc, parentInternal_renderC _ (good_noSlash (by
              rw [List.append_assoc]; exact good_append hdd hgt)), List.dropLast_concat]
          rw [hpe]
          by_cases hts' : ts' = []
          · subst hts'; rw [List.append_nil]; exact hD.top
          · have hpps : parentInternal (renderC (ss ++ (ts' ++ [n]))) = renderC (ss ++ ts') := by
              rw [← List.append_assoc, parentInternal_renderC _ (good_noSlash (by
                rw [List.append_assoc]; exact hpt.good)), List.dropLast_concat]
            obtain ⟨_, pe, hpe1, hpd⟩ := hwf.2 _ e hx (renderC_ne_nil (by simp))
            rw [hpps] at hpe1
            have hpp : OpPath (ss ++ ts') := by
              have : OpPath ((ss ++ ts') ++ [n]) := by rw [List.append_assoc]; exact hpt
              exact this.prefix (by simp [hts'])
            have hbelow : below (renderC (ss ++ ts')) (renderC (ss ++ (ts' ++ [n]))) = true := by
              rw [← hpps]; exact below_parent_self _ (slash_mem_renderC (by simp))
            have hpend' : pending inner' todo' (renderC (ss ++ ts')) = false := by
              cases hq : pending inner' todo' (renderC (ss ++ ts')) with
              | false => rfl
              | true => have := h6 _ hq; rw [hbelow] at this; cases this
            have hne : renderC (ss ++ ts') ≠ renderC (ss ++ (ts' ++ [n])) := by
              intro h0
              have := below_irrefl (renderC (ss ++ ts'))
              rw [h0] at this
              rw [← h0] at this
              rw [h0] at hbelow
              have h3 := below_irrefl (renderC (ss ++ (ts' ++ [n])))
              rw [h3] at hbelow; cases hbelow
            have hpend : pending inner todo (renderC (ss ++ ts')) = false := by
              rw [h5 _ ⟨pe, hpe1⟩, hpend', decide_eq_false hne]; rfl
            have hdone := hD.done ts' hts' hpp ⟨⟨pe, hpe1⟩, hpend⟩
            have hpv : oview (mu0 :: ms0) (renderC (ss ++ ts')) = some pe := by
              have : ovisView (mu0 :: ms0) (renderC (ss ++ ts')) = some pe := by
                rw [← hm]; exact hpe1
              exact (ovisView_some this).2
            rw [hpv] at hdone
            cases hq : mt.find? (renderC (dd ++ ts')) with
            | none => rw [hq] at hdone; simp at hdone
            | some pe' =>
              rw [hq] at hdone
              simp only [Option.map_some, Option.some.injEq] at hdone
              refine ⟨pe', rfl, ?_⟩
              have := congrArg Prod.fst hdone
              rw [vcore_fst, vcore_fst] at this
              rw [this]; exact hpd
        obtain ⟨pe', hpe', hpd'⟩ := hparD
        have habs : mt.find? (renderC (dd ++ ts)) = none :=
          hD.notyet ts hts hgt (fun hp => by rw [hpx] at hp; exact absurd hp.2 (by simp))
        -- bookkeeping for the rest of the loop
        have hproc : ∀ k, ((∃ e, m.find? k = some e) ∧ pending inner' todo' k = false) ↔
            (((∃ e, m.find? k = some e) ∧ pending inner todo k = false) ∨
              k = renderC (ss ++ ts)) := by
          intro k
          constructor
          · rintro ⟨hk, hp'⟩
            by_cases hkx : k = renderC (ss ++ ts)
            · exact Or.inr hkx
            · exact Or.inl ⟨hk, by rw [h5 k hk, hp', decide_eq_false hkx]; rfl⟩
          · rintro (⟨hk, hp⟩ | hk)
            · rw [h5 k hk] at hp
              exact ⟨hk, (Bool.or_eq_false_iff.1 hp).2⟩
            · subst hk; exact ⟨⟨e, hx⟩, h4⟩
        have hbel' : ∀ k, (∃ e, m.find? k = some e) → pending inner' todo' k = true →
            below (renderC ss) k = true :=
          fun k hk hp => hbel k hk (by rw [h5 k hk, hp]; simp)
        have hxk : renderC (ss ++ ts) ∈ m.keys := (FMap.mem_keys_iff m _).2 ⟨e, hx⟩
        have hlen : (m.keys.filter (pending inner todo)).length
            = (m.keys.filter (pending inner' todo')).length + 1 :=
          WkG.filter_length_succ m.keys hnk _ _ _ hxk hpx h4 (fun k hk hne => by
            rw [h5 k ((FMap.mem_keys_iff m k).1 hk), decide_eq_false hne]; rfl)
        have h1' : VPath.walkNext (WkG.st ⟨ofs, id, renderC ss⟩ inner todo) w1
            = (.ok (some (.ok ⟨ofs, id, renderC (ss ++ ts)⟩),
                WkG.st ⟨ofs, id, renderC ss⟩ inner' todo'), w1) := h1
        have hmf : e1.meta.ftype = e1.ftype := rfl
        have hcount : count + (m.keys.filter (pending inner todo)).length
            = count + 1 + (m.keys.filter (pending inner' todo')).length := by omega
        rw [VPath.copyItems]
        simp only [bind, M.bind, h1', M.ret, hrel, hmeta, hmf]
        cases hfte : e1.ftype with
        | dir =>
          have hcd := run_pCreateDir hleaf tid (renderC (dd ++ ts))
          rw [pCreateDir_fresh hslash hpe' hpd' habs] at hcd
          simp only at hcd
          simp only [M.bind, hcd]
          have hD1 : DInv (mu0 :: ms0) ss dd mt0 ((mt.insert (renderC (dd ++ ts)) dirEntryNow))
              (fun k => (∃ e, m.find? k = some e) ∧ pending inner' todo' k = false) := by
            refine hD.step hgss hdd hts hgt hproc ?_ (fun k hk => FMap.find?_insert_ne _ _ _ _ hk)
            rw [FMap.find?_insert_self, hxe]
            simp only [Option.map_some, Option.some.injEq]
            rw [vcore_dir (show dirEntryNow.ftype = .dir from rfl), vcore_dir (hft ▸ hfte)]
          have hS1 : SrcSt u idu is ids mu0 ms0
              (w1.setLeafFiles t (mt.insert (renderC (dd ++ ts)) dirEntryNow)) :=
            ⟨mu, ms, ⟨st.own.frame t ht _, st.inv, st.vwf⟩, hmu, hls, hn⟩
          obtain ⟨w', mt', hrun, hS', hleaf', hD'⟩ := ih inner' todo' (count + 1) _ _ hS1
            (hleaf.set _) hg' hbel' hD1 (by omega)
          exact ⟨w', mt', by rw [hrun, hcount], hS', hleaf', hD'⟩
        | file =>
          have hfile : VHasFile (oview (mu :: ms)) (renderC (ss ++ ts)) e1.content :=
            ⟨e1, he1, hfte, rfl⟩
          obtain ⟨w2, mu1, ms1, hopen, st1, hmu1, hls1, _, hn1⟩ := o_openFile_step st id hpt hfile
          have hleaf2 : MemLeafAt w2 t mt := by
            have := (VPath.pres_openFile ⟨ofs, id, renderC (ss ++ ts)⟩
              (overlay_pres_leaf ht _).obs).pres w1 hleaf
            rw [hopen] at this; exact this
          have hexd : VPath.exists_ ⟨leafFS t, tid, renderC (dd ++ ts)⟩ w1 = (.ok false, w1) := by
            have := run_exists hleaf (renderC (dd ++ ts))
            unfold FMap.contains at this
            rw [habs] at this
            exact this
          have hw := run_pWrite hleaf2 tid (renderC (dd ++ ts)) e1.content
          obtain ⟨e', hf', hc', hpw⟩ := pWrite_fresh e1.content hslash hpe' hpd' habs
          rw [hpw] at hw
          simp only at hw
          have hcf := copyFile_generic ofs (leafFS t) id tid hid (renderC (ss ++ ts))
            (renderC (dd ++ ts)) w1 w2 _ e1.content hexd hopen hw
          simp only [M.bind, hcf]
          have hD1 : DInv (mu0 :: ms0) ss dd mt0
              (((mt.insert (renderC (dd ++ ts)) fileEntryNow).insert (renderC (dd ++ ts)) e'))
              (fun k => (∃ e, m.find? k = some e) ∧ pending inner' todo' k = false) := by
            refine hD.step hgss hdd hts hgt hproc ?_ (fun k hk => by
              rw [FMap.find?_insert_ne _ _ _ _ hk, FMap.find?_insert_ne _ _ _ _ hk])
            rw [FMap.find?_insert_self, hxe]
            simp only [Option.map_some, Option.some.injEq]
            rw [← hcur, vcore_file hf', vcore_file hfte, hc']
          have hS1 : SrcSt u idu is ids mu0 ms0 (w2.setLeafFiles t
              ((mt.insert (renderC (dd ++ ts)) fileEntryNow).insert (renderC (dd ++ ts)) e')) :=
            ⟨mu1, ms1, ⟨st1.own.frame t ht _, st1.inv, st1.vwf⟩, mapSame_trans hmu hmu1,
              hls.trans hls1, hn1 hn⟩
          obtain ⟨w', mt', hrun, hS', hleaf', hD'⟩ := ih inner' todo' (count + 1) _ _ hS1
            (hleaf2.set _) hg' hbel' hD1 (by omega)
          exact ⟨w', mt', by rw [hrun, hcount], hS', hleaf', hD'⟩

end loop

/-! ### G. `copy_dir` out of an overlay -/

/-- in a well-formed map nothing lies below an absent path -/
theorem fresh_of_wf {mt0 : FMap} (hwf : WF mt0) {dd : List Str} (hdd : ∀ c ∈ dd, GoodComp c)
    (habs : mt0.find? (renderC dd) = none) :
    ∀ ts, (∀ c ∈ ts, GoodComp c) → mt0.find? (renderC (dd ++ ts)) = none := by
  intro ts
  generalize hn : ts.length = n
  induction n generalizing ts with
  | zero =>
    intro _
    have : ts = [] := List.length_eq_zero_iff.1 hn
    subst this; rw [List.append_nil]; exact habs
  | succ n ih =>
    intro hg
    rcases List.eq_nil_or_concat ts with h0 | ⟨ts0, c, h0⟩
    · subst h0; simp at hn
    · rw [List.concat_eq_append] at h0
      subst h0
      have hgts : ∀ c ∈ ts0, GoodComp c := fun c hc => hg c (by simp [hc])
      have hlen : ts0.length = n := by simpa using hn
      cases hq : mt0.find? (renderC (dd ++ (ts0 ++ [c]))) with
      | none => rfl
      | some e =>
        obtain ⟨_, pe, hpe, _⟩ := hwf.2 _ e hq (renderC_ne_nil (by simp))
        rw [← List.append_assoc, parentInternal_renderC _ (good_noSlash (by
          rw [List.append_assoc]; exact good_append hdd hg)), List.dropLast_concat,
          ih ts0 hlen hgts] at hpe
        cases hpe

section main
variable {w : World} {u idu : Nat} {mu : FMap} {is ids : List Nat} {ms : List FMap}
  (h : OWN w (u :: is) (idu :: ids) (mu :: ms)) (inv : OInv mu ms)
  (hv : ViewWF (oview (mu :: ms))) (hn : NamesOK (mu :: ms))
include h inv hv hn

/-- the copy phase shared by `copy_dir` and `move_dir` with the overlay as source and a memory
leaf as destination: the four calls (`exists` of the destination, `create_dir`, `walk_dir`, the
loop) evaluated, and the state they lead to -/
theorem copyPhase_from_overlay {t tid id : Nat} (ht : t ∉ u :: is) (hid : id ≠ tid)
    {ss dp : List Str} {n0 : Str} (hss : OpPath ss)
    (hsrc : VIsDir (oview (mu :: ms)) (renderC ss))
    (hdd : ∀ c ∈ dp ++ [n0], GoodComp c) {mt0 : FMap} (hleaf : MemLeafAt w t mt0)
    {pe : Entry} (hpar : mt0.find? (renderC dp) = some pe) (hpd : pe.ftype = .dir)
    (hfresh : ∀ ts, (∀ c ∈ ts, GoodComp c) → mt0.find? (renderC (dp ++ [n0] ++ ts)) = none)
    {D : List Str} (hD : DescList (ovisView (mu :: ms)) (renderC ss) D) {fuel : Nat}
    (hfuel : D.length < fuel) :
    ∃ w1 St w' mu' ms' mt',
      VPath.exists_ ⟨leafFS t, tid, renderC (dp ++ [n0])⟩ w = (.ok false, w) ∧
      VPath.createDir ⟨leafFS t, tid, renderC (dp ++ [n0])⟩ w = (.ok (), w1) ∧
      VPath.walkDir ⟨Overlay.fs (layersN (u :: is) (idu :: ids)), id, renderC ss⟩ w1
        = (.ok St, w1) ∧
      VPath.copyItems fuel ⟨Overlay.fs (layersN (u :: is) (idu :: ids)), id, renderC ss⟩
        ⟨leafFS t, tid, renderC (dp ++ [n0])⟩ St 0 w1 = (.ok D.length, w') ∧
      OSt u idu is ids ms' w' mu' ∧ MapSame mu mu' ∧ LowerSame ms ms' ∧ NamesOK (mu' :: ms') ∧
      MemLeafAt w' t mt' ∧
      (∃ e, mt'.find? (renderC (dp ++ [n0])) = some e ∧ e.ftype = .dir) ∧
      (∀ ts, ts ≠ [] → (∀ c ∈ ts, GoodComp c) →
        (mt'.find? (renderC (dp ++ [n0] ++ ts))).map vcore
          = (ovisView (mu :: ms) (renderC (ss ++ ts))).map vcore) ∧
      (∀ k, (∀ ts, (∀ c ∈ ts, GoodComp c) → k ≠ renderC (dp ++ [n0] ++ ts)) →
        mt'.find? k = mt0.find? k) := by
  have tv0 := overlay_treeView h inv hv hn
  obtain ⟨m, hm0, hwf, hnk⟩ := WkG.exists_map tv0.finite tv0.root tv0.parent
  have hm : m.find? = ovisView (mu :: ms) := hm0.symm
  have habs0 : mt0.find? (renderC (dp ++ [n0])) = none := by
    have := hfresh [] (by intro c hc; cases hc)
    rwa [List.append_nil] at this
  have hexd : VPath.exists_ ⟨leafFS t, tid, renderC (dp ++ [n0])⟩ w = (.ok false, w) := by
    have := run_exists hleaf (renderC (dp ++ [n0]))
    unfold FMap.contains at this
    rw [habs0] at this
    exact this
  have hslash : '/' ∈ renderC (dp ++ [n0]) := slash_mem_renderC (by simp)
  have hpe : parentInternal (renderC (dp ++ [n0])) = renderC dp := by
    rw [parentInternal_renderC _ (good_noSlash hdd), List.dropLast_concat]
  have hcd := run_pCreateDir hleaf tid (renderC (dp ++ [n0]))
  rw [pCreateDir_fresh hslash (hpe ▸ hpar) hpd habs0] at hcd
  simp only at hcd
  have hS1 : SrcSt u idu is ids mu ms
      (w.setLeafFiles t (mt0.insert (renderC (dp ++ [n0])) dirEntryNow)) :=
    ⟨mu, ms, ⟨h.frame t ht _, inv, hv⟩, MapSame.refl _, LowerSame.refl _, hn⟩
  have tv1 := srcSt_treeView hS1 hm
  obtain ⟨e, hse, hsd⟩ := hsrc
  have hsm : m.find? (renderC ss) = some e := by
    rw [hm, ovisView_of_vis (Or.inr ⟨ss, hss, rfl⟩)]; exact hse
  obtain ⟨l, w1', hw1', hl, hrd⟩ := WkG.run_readDir'
    (P := ⟨Overlay.fs (layersN (u :: is) (idu :: ids)), id, renderC ss⟩) tv1 _ rfl (renderC ss) e
    hsm hsd
  subst hw1'
  obtain ⟨hg, hpend⟩ := WkG.start_good' hwf (renderC ss) e hsm hsd hl
  have hrd' : VPath.readDir ⟨Overlay.fs (layersN (u :: is) (idu :: ids)), id, renderC ss⟩
      (w.setLeafFiles t (mt0.insert (renderC (dp ++ [n0])) dirEntryNow))
      = (.ok (l.map (VPath.withStr ⟨Overlay.fs (layersN (u :: is) (idu :: ids)), id, renderC ss⟩)),
          w.setLeafFiles t (mt0.insert (renderC (dp ++ [n0])) dirEntryNow)) := hrd
  have hwalk : VPath.walkDir ⟨Overlay.fs (layersN (u :: is) (idu :: ids)), id, renderC ss⟩
      (w.setLeafFiles t (mt0.insert (renderC (dp ++ [n0])) dirEntryNow))
      = (.ok (WkG.st ⟨Overlay.fs (layersN (u :: is) (idu :: ids)), id, renderC ss⟩ l []),
          w.setLeafFiles t (mt0.insert (renderC (dp ++ [n0])) dirEntryNow)) := by
    unfold VPath.walkDir
    simp only [bind, M.bind, hrd', pure, M.pure]
    rfl
  have hD1 : DInv (mu :: ms) ss (dp ++ [n0]) mt0 (mt0.insert (renderC (dp ++ [n0])) dirEntryNow)
      (fun k => (∃ e, m.find? k = some e) ∧ pending l [] k = false) := by
    refine ⟨⟨dirEntryNow, FMap.find?_insert_self _ _ _, rfl⟩, ?_, ?_, ?_⟩
    · rintro ts hts hp ⟨hk, hpf⟩
      exfalso
      rw [hpend _ hk] at hpf
      cases ts with
      | nil => exact hts rfl
      | cons t1 ts1 =>
        have : below (renderC ss) (renderC (ss ++ t1 :: ts1)) = true := by
          rw [below_iff, renderC_append, renderC_cons]
          exact ⟨t1 ++ renderC ts1, by simp⟩
        rw [this] at hpf; cases hpf
    · intro ts hts hgt _
      have hne := ne_of_ts (ts1 := ts) (ts2 := []) hdd hgt (by intro c hc; cases hc) hts
      rw [List.append_nil] at hne
      rw [FMap.find?_insert_ne _ _ _ _ hne]
      exact hfresh ts hgt
    · intro k hk
      have hne := hk [] (by intro c hc; cases hc)
      rw [List.append_nil] at hne
      exact FMap.find?_insert_ne _ _ _ _ hne
  have hflen : (m.keys.filter (pending l [])).length = D.length := by
    have h1 := descList_of_map m hnk (renderC ss)
    rw [hm] at h1
    have h2 := DescList.length_eq h1 hD
    have h3 : m.keys.filter (pending l []) = m.keys.filter (below (renderC ss)) :=
      List.filter_congr (fun k hk => hpend k ((FMap.mem_keys_iff m k).1 hk))
    rw [h3, h2]
  obtain ⟨w', mt', hrun, hS', hleaf', hD'⟩ := copyItems_from_overlay ht hid hm hwf hnk hss hdd mt0
    fuel l [] 0 _ _ hS1 (hleaf.set _) hg (fun k hk hp => by rw [← hpend k hk]; exact hp) hD1
    (by omega)
  rw [Nat.zero_add, hflen] at hrun
  obtain ⟨mu', ms', st', hmu', hls', hn'⟩ := hS'
  refine ⟨_, _, w', mu', ms', mt', hexd, hcd, hwalk, hrun, st', hmu', hls', hn', hleaf', hD'.top,
    ?_, hD'.frame⟩
  · intro ts hts hgt
    cases hq : ovisView (mu :: ms) (renderC (ss ++ ts)) with
    | none =>
      rw [hD'.notyet ts hts hgt (by rintro ⟨e2, he2⟩; rw [hm, hq] at he2; cases he2)]
    | some e2 =>
      obtain ⟨hov, he2⟩ := ovisView_some hq
      have hp : OpPath (ss ++ ts) := by
        rcases hov with h0 | ⟨cs, hcs, h0⟩
        · exact absurd h0 (renderC_ne_nil (by simp [hts]))
        · have := C06.renderC_injective _ _ (good_noSlash (good_append hss.good hgt))
            (good_noSlash hcs.good) h0
          rw [this]; exact hcs
      have := hD'.done ts hts hp ⟨e2, by rw [hm]; exact hq⟩
      rw [he2] at this
      exact this

/-- **copy_dir of a tree of ANY depth OUT OF an overlay onto a memory leaf: an exact copy of what
the overlay SHOWS.** See the header of this file. -/
theorem copyDir_from_overlay_exact {t tid id : Nat} (ht : t ∉ u :: is) (hid : id ≠ tid)
    {ss dp : List Str} {n0 : Str} (hss : OpPath ss)
    (hsrc : VIsDir (oview (mu :: ms)) (renderC ss))
    (hdd : ∀ c ∈ dp ++ [n0], GoodComp c) {mt0 : FMap} (hleaf : MemLeafAt w t mt0)
    {pe : Entry} (hpar : mt0.find? (renderC dp) = some pe) (hpd : pe.ftype = .dir)
    (hfresh : ∀ ts, (∀ c ∈ ts, GoodComp c) → mt0.find? (renderC (dp ++ [n0] ++ ts)) = none)
    {D : List Str} (hD : DescList (ovisView (mu :: ms)) (renderC ss) D) {fuel : Nat}
    (hfuel : D.length < fuel) :
    ∃ w' mu' ms' mt',
      VPath.copyDir fuel ⟨Overlay.fs (layersN (u :: is) (idu :: ids)), id, renderC ss⟩
        ⟨leafFS t, tid, renderC (dp ++ [n0])⟩ w = (.ok D.length, w') ∧
      OSt u idu is ids ms' w' mu' ∧ MapSame mu mu' ∧ LowerSame ms ms' ∧ NamesOK (mu' :: ms') ∧
      MemLeafAt w' t mt' ∧
      (∃ e, mt'.find? (renderC (dp ++ [n0])) = some e ∧ e.ftype = .dir) ∧
      (∀ ts, ts ≠ [] → (∀ c ∈ ts, GoodComp c) →
        (mt'.find? (renderC (dp ++ [n0] ++ ts))).map vcore
          = (ovisView (mu :: ms) (renderC (ss ++ ts))).map vcore) ∧
      (∀ k, (∀ ts, (∀ c ∈ ts, GoodComp c) → k ≠ renderC (dp ++ [n0] ++ ts)) →
        mt'.find? k = mt0.find? k) := by
  obtain ⟨w1, St, w', mu', ms', mt', hexd, hcd, hwalk, hrun, rest⟩ :=
    copyPhase_from_overlay h inv hv hn ht hid hss hsrc hdd hleaf hpar hpd hfresh hD hfuel
  refine ⟨w', mu', ms', mt', ?_, rest⟩
  unfold VPath.copyDir
  simp only [M.withPath, bind, M.bind, hexd, hcd, hwalk, hrun, Res.withPath, Bool.false_eq_true,
    if_false]

/-- **move_dir of a tree of ANY depth OUT OF an overlay onto a memory leaf** (generic route:
different `Arc` identities; the copy phase, then `remove_dir_all` of the source THROUGH the overlay
with the same fuel). Hypotheses of `copyDir_from_overlay_exact` plus the depth bound `FuelOK` of
`remove_dir_all`. Then: Ok; the destination subtree is the exact copy of what the overlay showed;
NO TRACE of the source in the view: `S` and every disciplined path at or below it is absent;
every visible path outside the source subtree keeps its type and bytes; the LOWER layers are
unchanged up to the access stamps of the files read (whiteouts went to the upper layer only);
all invariants hold again. -/
theorem moveDir_from_overlay_exact {t tid id : Nat} (ht : t ∉ u :: is) (hid : id ≠ tid)
    {ss dp : List Str} {n0 : Str} (hss : OpPath ss)
    (hsrc : VIsDir (oview (mu :: ms)) (renderC ss))
    (hdd : ∀ c ∈ dp ++ [n0], GoodComp c) {mt0 : FMap} (hleaf : MemLeafAt w t mt0)
    {pe : Entry} (hpar : mt0.find? (renderC dp) = some pe) (hpd : pe.ftype = .dir)
    (hfresh : ∀ ts, (∀ c ∈ ts, GoodComp c) → mt0.find? (renderC (dp ++ [n0] ++ ts)) = none)
    {D : List Str} (hD : DescList (ovisView (mu :: ms)) (renderC ss) D) {fuel : Nat}
    (hfuel : D.length < fuel) (hdepth : FuelOK (oview (mu :: ms)) ss fuel) :
    ∃ w' mu' ms' mt',
      VPath.moveDir fuel ⟨Overlay.fs (layersN (u :: is) (idu :: ids)), id, renderC ss⟩
        ⟨leafFS t, tid, renderC (dp ++ [n0])⟩ w = (.ok (), w') ∧
      OSt u idu is ids ms' w' mu' ∧ LowerSame ms ms' ∧ NamesOK (mu' :: ms') ∧
      MemLeafAt w' t mt' ∧
      (∃ e, mt'.find? (renderC (dp ++ [n0])) = some e ∧ e.ftype = .dir) ∧
      (∀ ts, ts ≠ [] → (∀ c ∈ ts, GoodComp c) →
        (mt'.find? (renderC (dp ++ [n0] ++ ts))).map vcore
          = (ovisView (mu :: ms) (renderC (ss ++ ts))).map vcore) ∧
      (∀ k, (∀ ts, (∀ c ∈ ts, GoodComp c) → k ≠ renderC (dp ++ [n0] ++ ts)) →
        mt'.find? k = mt0.find? k) ∧
      (∀ q, InSub ss q → oview (mu' :: ms') q = none) ∧
      (∀ q, Vis q → ¬ InSub ss q →
        (oview (mu' :: ms') q).map vcore = (oview (mu :: ms) q).map vcore) := by
  obtain ⟨w1, St, w2, mu2, ms2, mt', hexd, hcd, hwalk, hrun, st2, hmu2, hls2, hn2, hleaf2, htop,
    hcopy, hframe⟩ :=
    copyPhase_from_overlay h inv hv hn ht hid hss hsrc hdd hleaf hpar hpd hfresh hD hfuel
  have hvs : VSame (oview (mu :: ms)) (oview (mu2 :: ms2)) := oview_mapSame hmu2 hls2
  have hsrc2 : VIsDir (oview (mu2 :: ms2)) (renderC ss) := (isDir_of_vcore (hvs _ hss.vis)).2 hsrc
  have hdepth2 : FuelOK (oview (mu2 :: ms2)) ss fuel := by
    intro ts hp hpres
    exact hdepth ts hp (fun h0 => hpres ((none_of_vcore (hvs _ hp.vis)).2 h0))
  obtain ⟨mu3, hrun3, own3, inv3, vwf3, hn3, hgone3, hframe3⟩ :=
    overlay_removeDirAll_exact st2.own st2.inv st2.vwf id hn2 fuel hss hsrc2 hdepth2
  have hut : u ≠ t := fun e => ht (by simp [e])
  refine ⟨_, mu3, ms2, mt', ?_, ⟨own3, inv3, vwf3⟩, hls2, hn3, ?_, htop, hcopy, hframe, hgone3,
    fun q hq hns => (hframe3 q hq hns).trans (hvs q hq)⟩
  · unfold VPath.moveDir
    simp only [M.withPath, bind, M.bind, hexd, hid, fail, hcd, hwalk, hrun, hrun3, Res.withPath,
      Bool.false_eq_true, if_false, ne_eq, not_true_eq_false, pure, M.pure]
  · unfold MemLeafAt
    rw [World.leaf?_setLeafFiles_ne _ u t _ hut]; exact hleaf2

end main

/-- reading the result: a path the overlay HIDES (whited out, or never there) is absent from the
copy -/
theorem copy_absent_of_hidden {all : List FMap} {a : Option Entry} {k : Str}
    (h : a.map vcore = (ovisView all k).map vcore) (hh : oview all k = none) : a = none := by
  have : ovisView all k = none := by
    unfold ovisView; split
    · exact hh
    · rfl
  rw [this] at h
  cases a <;> simp at h ⊢

/-- reading the result: on a disciplined path that the view shows, the copy has the same type,
and for a file the bytes the overlay serves -/
theorem copy_faithful_of_shown {all : List FMap} {a : Option Entry} {cs : List Str} {e : Entry}
    (h : a.map vcore = (ovisView all (renderC cs)).map vcore) (hp : OpPath cs)
    (he : oview all (renderC cs) = some e) :
    ∃ e', a = some e' ∧ e'.ftype = e.ftype ∧ (e.ftype = .file → e'.content = e.content) := by
  rw [ovisView_of_vis (Or.inr ⟨cs, hp, rfl⟩), he] at h
  cases a with
  | none => simp at h
  | some e' =>
    simp only [Option.map_some, Option.some.injEq] at h
    have hft : e'.ftype = e.ftype := by
      have := congrArg Prod.fst h; rwa [vcore_fst, vcore_fst] at this
    refine ⟨e', rfl, hft, fun hf => ?_⟩
    rw [vcore_file (hft.trans hf), vcore_file hf] at h
    exact congrArg Prod.snd h

/-! ### H. source and destination in ONE overlay: stated here, proved in Props/C11OverlayWithin.lean -/

/-- `copy_dir` within one overlay, order-insensitive form (PROVED:
`C11.copyDir_within_overlay_exact_holds` in Props/C11OverlayWithin.lean). Destination
`dd ++ [n0]` absent below a directory of the view and not inside the source. Difference to the
cross-filesystem case: the view CHANGES while the iterator runs (each item adds one entry below
the destination), so the generic step lemma is applied with a fresh tree after every item, the
iterator state being kept good for the ORIGINAL view together with its location (below the
source). -/
def copyDir_within_overlay_exact_stmt : Prop :=
  ∀ (w : World) (u idu : Nat) (mu : FMap) (is ids : List Nat) (ms : List FMap),
    OWN w (u :: is) (idu :: ids) (mu :: ms) → OInv mu ms → ViewWF (oview (mu :: ms)) →
    NamesOK (mu :: ms) →
  ∀ (id id' : Nat) (ss dd : List Str) (n0 : Str), OpPath ss → OpPath (dd ++ [n0]) →
    VIsDir (oview (mu :: ms)) (renderC ss) → VIsDir (oview (mu :: ms)) (renderC dd) →
    VAbsent (oview (mu :: ms)) (renderC (dd ++ [n0])) → ¬ InSub ss (renderC (dd ++ [n0])) →
  ∀ (D : List Str), DescList (ovisView (mu :: ms)) (renderC ss) D → ∀ fuel, D.length < fuel →
    ∃ w' mu' ms',
      VPath.copyDir fuel ⟨Overlay.fs (layersN (u :: is) (idu :: ids)), id, renderC ss⟩
        ⟨Overlay.fs (layersN (u :: is) (idu :: ids)), id', renderC (dd ++ [n0])⟩ w
        = (.ok D.length, w') ∧
      OSt u idu is ids ms' w' mu' ∧ LowerSame ms ms' ∧ NamesOK (mu' :: ms') ∧
      VIsDir (oview (mu' :: ms')) (renderC (dd ++ [n0])) ∧
      (∀ ts, ts ≠ [] → OpPath (dd ++ [n0] ++ ts) →
        (oview (mu' :: ms') (renderC (dd ++ [n0] ++ ts))).map vcore
          = (ovisView (mu :: ms) (renderC (ss ++ ts))).map vcore) ∧
      (∀ q, Vis q → ¬ InSub (dd ++ [n0]) q →
        (oview (mu' :: ms') q).map vcore = (oview (mu :: ms) q).map vcore)

/-- the same for `move_dir` within one overlay (copy phase as above, then
`overlay_removeDirAll_exact`): no trace of the source, the rest of the view unchanged (PROVED:
`C11.moveDir_within_overlay_exact_holds` in Props/C11OverlayWithin.lean). -/
def moveDir_within_overlay_exact_stmt : Prop :=
  ∀ (w : World) (u idu : Nat) (mu : FMap) (is ids : List Nat) (ms : List FMap),
    OWN w (u :: is) (idu :: ids) (mu :: ms) → OInv mu ms → ViewWF (oview (mu :: ms)) →
    NamesOK (mu :: ms) →
  ∀ (id id' : Nat) (ss dd : List Str) (n0 : Str), OpPath ss → OpPath (dd ++ [n0]) →
    VIsDir (oview (mu :: ms)) (renderC ss) → VIsDir (oview (mu :: ms)) (renderC dd) →
    VAbsent (oview (mu :: ms)) (renderC (dd ++ [n0])) → ¬ InSub ss (renderC (dd ++ [n0])) →
  ∀ (D : List Str), DescList (ovisView (mu :: ms)) (renderC ss) D → ∀ fuel, D.length < fuel →
    FuelOK (oview (mu :: ms)) ss fuel →
    ∃ w' mu' ms',
      VPath.moveDir fuel ⟨Overlay.fs (layersN (u :: is) (idu :: ids)), id, renderC ss⟩
        ⟨Overlay.fs (layersN (u :: is) (idu :: ids)), id', renderC (dd ++ [n0])⟩ w
        = (.ok (), w') ∧
      OSt u idu is ids ms' w' mu' ∧ LowerSame ms ms' ∧ NamesOK (mu' :: ms') ∧
      VIsDir (oview (mu' :: ms')) (renderC (dd ++ [n0])) ∧
      (∀ ts, ts ≠ [] → OpPath (dd ++ [n0] ++ ts) →
        (oview (mu' :: ms') (renderC (dd ++ [n0] ++ ts))).map vcore
          = (ovisView (mu :: ms) (renderC (ss ++ ts))).map vcore) ∧
      (∀ q, InSub ss q → oview (mu' :: ms') q = none) ∧
      (∀ q, Vis q → ¬ InSub (dd ++ [n0]) q → ¬ InSub ss q →
        (oview (mu' :: ms') q).map vcore = (oview (mu :: ms) q).map vcore)

end Vfs.C11

section audit
open Vfs.C11
#print axioms copyItems_from_overlay
#print axioms copyDir_from_overlay_exact
#print axioms moveDir_from_overlay_exact
end audit
