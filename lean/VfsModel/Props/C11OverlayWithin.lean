/-
  C11 with source AND destination in ONE overlay — `copy_dir` / `move_dir` of a tree of ANY depth
  between two disciplined paths of an overlay over n ≥ 1 in-memory layers produce an exact copy of
  what the overlay SHOWED at the source. Order-insensitive, proved directly on the view. Proves
  the two statements `copyDir_within_overlay_exact_stmt` / `moveDir_within_overlay_exact_stmt` of
  Props/C11OverlaySource.lean.

  SETTING: `OWN`, `OInv`, `ViewWF`, `NamesOK` as in Props/C11OverlaySource.lean; source
  `S = renderC ss` (`OpPath ss`) a directory of the view; destination `renderC (dd ++ [n0])`
  (`OpPath`), ABSENT from the view, its parent `renderC dd` a directory of the view (the root
  `dd = []` included), NOT at or below the source (`¬ InSub ss …`: otherwise the walk would see
  its own output, the divergence documented in Props/C11.lean); ANY `Arc` identities (the overlay
  answers NotSupported on its fast paths); `D` = duplicate-free enumeration of the present
  disciplined paths strictly below `S`, fuel > `D.length`; for `move_dir` also the depth bound
  `FuelOK (oview (mu :: ms)) ss fuel` of `remove_dir_all`.

  PROVED (no sorry; axioms propext, Classical.choice, Quot.sound)
  * `copyDir_within_overlay_exact` (= `copyDir_within_overlay_exact_holds`): `Ok D.length`; the
    destination is a directory of the final view; for EVERY relative path `ts ≠ []` with
    `OpPath (dst ++ ts)`: `(view' (dst/ts)).map vcore = (ovisView (mu :: ms) (S/ts)).map vcore`
    (present iff the original view shows `S/ts`; same type; files with the bytes the overlay
    served; whited-out entries are not copied); every visible path outside the destination subtree
    — the source subtree included — keeps type and bytes; lower layers unchanged up to access
    stamps (`LowerSame`); `OWN`/`OInv`/`ViewWF`/`NamesOK` again.
  * `moveDir_within_overlay_exact` (= `moveDir_within_overlay_exact_holds`): Ok; destination as
    above; NO TRACE of the source (`InSub ss q → view' q = none`); every visible path outside both
    subtrees keeps type and bytes; `LowerSame`; invariants again.
  * `copyItems_within` (the loop; invariant `DInvV` on the view + `GoodV`: the iterator state is
    good for the ORIGINAL view and lies below the source), `walkNext_spec_loc` (the generic step
    lemma `WkG.walkNext_spec'` re-proved with the location of the iterator state),
    `copyPhase_within`, `sub_disjoint` (source and destination subtrees are disjoint).
  Why the cross-filesystem proof does not carry over verbatim: the view changes during the walk
  (one new entry per item), so a tree for `walkNext_spec'` is rebuilt from the CURRENT state at
  every item (`overlay_treeView` + `exists_map`), and `Wk.Good` is transported through the frame
  "nothing outside the destination subtree changed".
  Non-vacuity: Props/C11OverlayWithinEx.lean.
  NOT PROVED: failing runs; a destination inside the source; the relational form against a
  reference leaf (`copyDir_within_overlay_stmt` of Props/C11OverlayTree.lean).
-/
import VfsModel.Props.C11OverlaySource
set_option linter.unusedSimpArgs false
set_option linter.unusedVariables false
set_option linter.unusedSectionVars false
namespace Vfs.C11
open Vfs Vfs.Overlay Vfs.C02 Vfs.C01 Vfs.C09 Vfs.C05 Vfs.Wk
open Vfs.WkG (TreeViewOn TreeView IsNames)

/-! ### 1. one step of the iterator, with the LOCATION of the iterator state -/

theorem walkNext_spec_loc {S : World → Prop} {m : FMap} {P : VPath}
    (tv : TreeViewOn P.fs S m.find?) (hwf : WF m) (R : Str) :
    ∀ (todo inner : List Str) (w : World), S w → Good m inner todo →
      (∀ x ∈ inner, below R x = true) → (∀ d ∈ todo, below R d = true) →
      (∃ w', S w' ∧ VPath.walkNext (WkG.st P inner todo) w = (.ok (none, WkG.st P [] []), w') ∧
        ∀ k, (∃ e, m.find? k = some e) → pending inner todo k = false) ∨
      ∃ x inner' todo' w', S w' ∧
        VPath.walkNext (WkG.st P inner todo) w
          = (.ok (some (.ok (P.withStr x)), WkG.st P inner' todo'), w') ∧
        Good m inner' todo' ∧ (∃ e, m.find? x = some e) ∧ pending inner' todo' x = false ∧
        (∀ k, (∃ e, m.find? k = some e) →
          pending inner todo k = (decide (k = x) || pending inner' todo' k)) ∧
        (∀ b, pending inner' todo' b = true → below b x = false) ∧
        (∀ y ∈ inner', below R y = true) ∧ (∀ d ∈ todo', below R d = true) ∧
        below R x = true := by
  intro todo
  induction todo with
  | nil =>
    intro inner w hw hg hli hlt
    cases inner with
    | nil =>
      left
      exact ⟨w, hw, rfl, fun k _ => rfl⟩
    | cons x rest =>
      right
      obtain ⟨e, hx⟩ := hg.innerKeys x (by simp)
      obtain ⟨g1, g2, g3, g4⟩ := emit_good hwf hg e hx _ rfl
      obtain ⟨w', hS, hrun⟩ := WkG.walkNext_cons' tv w hw x rest [] e hx
      refine ⟨x, rest, _, w', hS, hrun, g1, ⟨e, hx⟩, g2, g3, g4,
        fun y hy => hli y (by simp [hy]), ?_, hli x (by simp)⟩
      intro d hd
      split at hd
      · rcases List.mem_cons.1 hd with rfl | hd
        · exact hli _ (by simp)
        · exact hlt d hd
      · exact hlt d hd
  | cons d todo ih =>
    intro inner w hw hg hli hlt
    cases inner with
    | cons x rest =>
      right
      obtain ⟨e, hx⟩ := hg.innerKeys x (by simp)
      obtain ⟨g1, g2, g3, g4⟩ := emit_good hwf hg e hx _ rfl
      obtain ⟨w', hS, hrun⟩ := WkG.walkNext_cons' tv w hw x rest (d :: todo) e hx
      refine ⟨x, rest, _, w', hS, hrun, g1, ⟨e, hx⟩, g2, g3, g4,
        fun y hy => hli y (by simp [hy]), ?_, hli x (by simp)⟩
      intro d' hd'
      split at hd'
      · rcases List.mem_cons.1 hd' with rfl | hd'
        · exact hli _ (by simp)
        · exact hlt d' hd'
      · exact hlt d' hd'
    | nil =>
      obtain ⟨e, hd, hdir⟩ := hg.todoDirs d (by simp)
      obtain ⟨l, w1, hS1, hl, hrun⟩ := WkG.walkNext_expand' tv w hw d todo e hd hdir
      obtain ⟨g1, g2⟩ := WkG.expand_good' hwf hl hg
      have hll : ∀ y ∈ l, below R y = true := fun y hy =>
        below_trans (hlt d (by simp)) (child_below ((hl.2 y).1 hy))
      rcases ih l w1 hS1 g1 hll (fun d' hd' => hlt d' (by simp [hd'])) with
        ⟨w', hS, h1, h2⟩ | ⟨x, inner', todo', w', hS, h1, h2, h3, h4, h5, h6, h7, h8, h9⟩
      · left
        exact ⟨w', hS, by rw [hrun]; exact h1, fun k hk' => by rw [g2 k hk']; exact h2 k hk'⟩
      · right
        exact ⟨x, inner', todo', w', hS, by rw [hrun]; exact h1, h2, h3, h4,
          fun k hk' => by rw [g2 k hk']; exact h5 k hk', h6, h7, h8, h9⟩

theorem pending_below {R : Str} {inner todo : List Str} (hli : ∀ x ∈ inner, below R x = true)
    (hlt : ∀ d ∈ todo, below R d = true) {k : Str} (h : pending inner todo k = true) :
    below R k = true := by
  unfold pending at h
  rw [Bool.or_eq_true, List.any_eq_true, List.any_eq_true] at h
  rcases h with ⟨x, hx, hw⟩ | ⟨d, hd, hb⟩
  · exact below_of_below_within (hli x hx) hw
  · exact below_trans (hlt d hd) hb

/-! ### 2. the invariant on the VIEW -/

theorem opPath_append {dd ts : List Str} (hd : OpPath dd) (hg : ∀ c ∈ ts, GoodComp c)
    (hw : ∀ c ∈ ts, NoWo c) : OpPath (dd ++ ts) where
  ne := by simp [hd.ne]
  good := fun c hc => by
    rcases List.mem_append.1 hc with h | h
    · exact hd.good c h
    · exact hg c h
  nowo := fun c hc => by
    rcases List.mem_append.1 hc with h | h
    · exact hd.nowo c h
    · exact hw c h
  head := by
    cases dd with
    | nil => exact absurd rfl hd.ne
    | cons a l => simpa using hd.head

theorem opPath_swap {ss dd ts : List Str} (hd : OpPath dd) (hp : OpPath (ss ++ ts)) :
    OpPath (dd ++ ts) :=
  opPath_append hd (fun c hc => hp.good c (by simp [hc])) (fun c hc => hp.nowo c (by simp [hc]))

/-- the current view `v` against the ORIGINAL layers `all0`; `proc` = the source path strings
processed so far -/
structure DInvV (all0 : List FMap) (ss dd : List Str) (v : View) (proc : Str → Prop) : Prop where
  top : VIsDir v (renderC dd)
  done : ∀ ts, ts ≠ [] → OpPath (ss ++ ts) → proc (renderC (ss ++ ts)) →
    (v (renderC (dd ++ ts))).map vcore = (oview all0 (renderC (ss ++ ts))).map vcore
  notyet : ∀ ts, ts ≠ [] → OpPath (dd ++ ts) → ¬ proc (renderC (ss ++ ts)) →
    v (renderC (dd ++ ts)) = none
  frame : ∀ q, Vis q → ¬ InSub dd q → (v q).map vcore = (oview all0 q).map vcore

theorem DInvV.congr {all0 : List FMap} {ss dd : List Str} {v : View} {proc proc' : Str → Prop}
    (h : DInvV all0 ss dd v proc) (hp : ∀ k, proc' k ↔ proc k) : DInvV all0 ss dd v proc' :=
  ⟨h.top, fun ts a b c => h.done ts a b ((hp _).1 c),
    fun ts a b c => h.notyet ts a b (fun h0 => c ((hp _).2 h0)), h.frame⟩

theorem DInvV.step {all0 : List FMap} {ss dd : List Str} {v v1 : View} {proc proc' : Str → Prop}
    (h : DInvV all0 ss dd v proc) (hss : OpPath ss) (hdd : OpPath dd)
    {ts : List Str} (hts : ts ≠ []) (hpt : OpPath (ss ++ ts))
    (hproc : ∀ k, proc' k ↔ (proc k ∨ k = renderC (ss ++ ts)))
    (hnew : (v1 (renderC (dd ++ ts))).map vcore = (oview all0 (renderC (ss ++ ts))).map vcore)
    (hfr : VFrame v v1 (renderC (dd ++ ts))) :
    DInvV all0 ss dd v1 proc' := by
  have hgt : ∀ c ∈ ts, GoodComp c := fun c hc => hpt.good c (by simp [hc])
  refine ⟨?_, ?_, ?_, ?_⟩
  · have hne := ne_of_ts (ts1 := []) (ts2 := ts) hdd.good (by intro c hc; cases hc) hgt (Ne.symm hts)
    rw [List.append_nil] at hne
    exact (isDir_of_vcore (hfr _ hdd.vis hne)).2 h.top
  · intro ts2 hts2 hp2 hpr
    have hg2 : ∀ c ∈ ts2, GoodComp c := fun c hc => hp2.good c (by simp [hc])
    by_cases heq : ts2 = ts
    · subst heq; exact hnew
    · rw [hfr _ (opPath_swap hdd hp2).vis (ne_of_ts hdd.good hg2 hgt heq)]
      rcases (hproc _).1 hpr with hpr | hpr
      · exact h.done ts2 hts2 hp2 hpr
      · exact absurd hpr (ne_of_ts hss.good hg2 hgt heq)
  · intro ts2 hts2 hp2 hnp
    have hg2 : ∀ c ∈ ts2, GoodComp c := fun c hc => hp2.good c (by simp [hc])
    have heq : ts2 ≠ ts := fun h0 => hnp ((hproc _).2 (Or.inr (by rw [h0])))
    exact (none_of_vcore (hfr _ hp2.vis (ne_of_ts hdd.good hg2 hgt heq))).2
      (h.notyet ts2 hts2 hp2 (fun h0 => hnp ((hproc _).2 (Or.inl h0))))
  · intro q hq hns
    have hne : q ≠ renderC (dd ++ ts) := fun h0 => hns ⟨ts, opPath_swap hdd hpt, h0⟩
    exact (hfr q hq hne).trans (h.frame q hq hns)

/-! ### 3. the loop, source and destination in one overlay -/

theorem vcore_some {a b : Option Entry} (h : a.map vcore = b.map vcore) {e : Entry}
    (hb : b = some e) : ∃ e', a = some e' ∧ vcore e' = vcore e := by
  subst hb
  cases a with
  | none => simp at h
  | some e' => exact ⟨e', rfl, by simpa using h⟩

theorem ftype_of_vcore {e e' : Entry} (h : vcore e' = vcore e) : e'.ftype = e.ftype := by
  have := congrArg Prod.fst h; rwa [vcore_fst, vcore_fst] at this

theorem map_ne_none {a b : Option Entry} (h : a.map vcore = b.map vcore) : a ≠ none ↔ b ≠ none := by
  cases a <;> cases b <;> simp at h ⊢

theorem below_of_ne (ss : List Str) {ts : List Str} (hts : ts ≠ []) :
    below (renderC ss) (renderC (ss ++ ts)) = true := by
  cases ts with
  | nil => exact absurd rfl hts
  | cons t1 ts1 =>
    rw [below_iff, renderC_append, renderC_cons]
    exact ⟨t1 ++ renderC ts1, by simp⟩

theorem src_same {all0 cur : List FMap} {ss dd : List Str} (hss : OpPath ss)
    (hdisj : ∀ q, InSub ss q → ¬ InSub dd q) {proc : Str → Prop}
    (h : DInvV all0 ss dd (oview cur) proc) {k : Str} (hb : below (renderC ss) k = true) :
    (ovisView cur k).map vcore = (ovisView all0 k).map vcore := by
  unfold ovisView
  by_cases hv : OVis k
  · rw [if_pos hv, if_pos hv]
    have hin : InSub ss k := (inSub_iff hss k).2 ⟨hv, by unfold within; rw [hb]; simp⟩
    exact h.frame k (vis_of_ovis hv) (hdisj k hin)
  · rw [if_neg hv, if_neg hv]

/-- the iterator state is good for the ORIGINAL view and lies below the source -/
structure GoodV (all0 : List FMap) (R : Str) (inner todo : List Str) : Prop where
  innerKeys : ∀ x ∈ inner, ovisView all0 x ≠ none
  todoDirs : ∀ d ∈ todo, ∃ e, ovisView all0 d = some e ∧ e.ftype = .dir
  apart : (inner ++ todo).Pairwise Apart
  locI : ∀ x ∈ inner, below R x = true
  locT : ∀ d ∈ todo, below R d = true

section loop
variable {u idu : Nat} {is ids : List Nat} {mu0 : FMap} {ms0 : List FMap} {id id' : Nat}
  {ss dd : List Str} (hss : OpPath ss) (hdd : OpPath dd)
  (hdisj : ∀ q, InSub ss q → ¬ InSub dd q)
  {D : List Str} (hD : DescList (ovisView (mu0 :: ms0)) (renderC ss) D)
include hss hdd hdisj hD

local notation "ofs" => Overlay.fs (layersN (u :: is) (idu :: ids))

theorem copyItems_within :
    ∀ (fuel : Nat) (inner todo : List Str) (count : Nat) (w : World) (mu : FMap) (ms : List FMap),
      OSt u idu is ids ms w mu → NamesOK (mu :: ms) → LowerSame ms0 ms →
      GoodV (mu0 :: ms0) (renderC ss) inner todo →
      DInvV (mu0 :: ms0) ss dd (oview (mu :: ms))
        (fun k => k ∈ D ∧ pending inner todo k = false) →
      (D.filter (pending inner todo)).length < fuel →
      ∃ w' mu' ms', VPath.copyItems fuel ⟨ofs, id, renderC ss⟩ ⟨ofs, id', renderC dd⟩
          (WkG.st ⟨ofs, id, renderC ss⟩ inner todo) count w
          = (.ok (count + (D.filter (pending inner todo)).length), w') ∧
        OSt u idu is ids ms' w' mu' ∧ NamesOK (mu' :: ms') ∧ LowerSame ms0 ms' ∧
        DInvV (mu0 :: ms0) ss dd (oview (mu' :: ms')) (fun k => k ∈ D) := by
  intro fuel
  induction fuel with
  | zero => intro inner todo count w mu ms _ _ _ _ _ hf; omega
  | succ fuel ih =>
    intro inner todo count w mu ms st hn hls hgv hDI hf
    have tv0 := overlay_treeView st.own st.inv st.vwf hn
    obtain ⟨m, hm0, hwf, hnk⟩ := WkG.exists_map tv0.finite tv0.root tv0.parent
    have hm : m.find? = ovisView (mu :: ms) := hm0.symm
    have tv : TreeViewOn ofs (fun w' => w' = w) m.find? := by rw [hm]; exact tv0
    have hsame : ∀ k, below (renderC ss) k = true →
        (ovisView (mu :: ms) k).map vcore = (ovisView (mu0 :: ms0) k).map vcore :=
      fun k hb => src_same hss hdisj hDI hb
    have hpres : ∀ k, below (renderC ss) k = true →
        ((∃ e, m.find? k = some e) ↔ ovisView (mu0 :: ms0) k ≠ none) := by
      intro k hb
      rw [hm, ← ne_none_iff]
      exact map_ne_none (hsame k hb)
    have hdirT : ∀ d e, below (renderC ss) d = true → m.find? d = some e → e.ftype = .dir →
        ∃ e0, ovisView (mu0 :: ms0) d = some e0 ∧ e0.ftype = .dir := by
      intro d e hb he hdir
      rw [hm] at he
      have h0 := hsame d hb
      cases hq : ovisView (mu0 :: ms0) d with
      | none => rw [he, hq] at h0; simp at h0
      | some e0 =>
        rw [he, hq] at h0
        simp only [Option.map_some, Option.some.injEq] at h0
        exact ⟨e0, rfl, by rw [← ftype_of_vcore h0]; exact hdir⟩
    have hg : Good m inner todo := by
      refine ⟨fun x hx => (hpres x (hgv.locI x hx)).2 (hgv.innerKeys x hx), ?_, hgv.apart⟩
      intro d hd
      obtain ⟨e0, he0, hdir0⟩ := hgv.todoDirs d hd
      obtain ⟨e', he', hv'⟩ := vcore_some (hsame d (hgv.locT d hd)) he0
      exact ⟨e', by rw [hm]; exact he', by rw [ftype_of_vcore hv']; exact hdir0⟩
    have hDm : ∀ k ∈ D, ∃ e, m.find? k = some e := fun k hk =>
      (hpres k ((hD.2 k).1 hk).2).2 ((hD.2 k).1 hk).1
    rcases walkNext_spec_loc (P := ⟨ofs, id, renderC ss⟩) tv hwf (renderC ss) todo inner w rfl hg
        hgv.locI hgv.locT with
      ⟨w1, hw1, h1, h2⟩ | ⟨x, inner', todo', w1, hw1, h1, hg', ⟨e1, hx⟩, h4, h5, h6, h7, h8, h9⟩
    · subst hw1
      have hnil : D.filter (pending inner todo) = [] :=
        List.filter_eq_nil_iff.2 (fun k hk => by rw [h2 k (hDm k hk)]; simp)
      refine ⟨w1, mu, ms, ?_, st, hn, hls,
        hDI.congr (fun k => ⟨fun hk => ⟨hk, h2 k (hDm k hk)⟩, fun hk => hk.1⟩)⟩
      rw [VPath.copyItems]
      simp only [bind, M.bind, h1, pure, M.pure, hnil]
      rfl
    · subst hw1
      have hx' : ovisView (mu :: ms) x = some e1 := by rw [← hm]; exact hx
      obtain ⟨hov, hxe1⟩ := ovisView_some hx'
      have hin : InSub ss x := (inSub_iff hss x).2 ⟨hov, by unfold within; rw [h9]; simp⟩
      obtain ⟨ts, hpt, hxeq⟩ := hin
      subst hxeq
      have hts : ts ≠ [] := by
        intro h0; subst h0
        rw [List.append_nil, below_irrefl] at h9; cases h9
      have hs0 := hsame _ h9
      cases hq : ovisView (mu0 :: ms0) (renderC (ss ++ ts)) with
      | none => rw [hx', hq] at hs0; simp at hs0
      | some e =>
        rw [hx', hq] at hs0
        simp only [Option.map_some, Option.some.injEq] at hs0
        have hcur : vcore e1 = vcore e := hs0
        obtain ⟨_, hxe⟩ := ovisView_some hq
        have hxD : renderC (ss ++ ts) ∈ D := (hD.2 _).2 ⟨by rw [hq]; simp, h9⟩
        have hpx : pending inner todo (renderC (ss ++ ts)) = true := by
          rw [h5 _ ⟨e1, hx⟩]; simp
        obtain ⟨ts', n, htseq⟩ : ∃ ts' n, ts = ts' ++ [n] := by
          rcases List.eq_nil_or_concat ts with h0 | ⟨a, b, h0⟩
          · exact absurd h0 hts
          · exact ⟨a, b, by rw [h0, List.concat_eq_append]⟩
        subst htseq
        have hpdq : OpPath (dd ++ (ts' ++ [n])) := opPath_swap hdd hpt
        have hpd : OpPath ((dd ++ ts') ++ [n]) := by rw [List.append_assoc]; exact hpdq
        -- the parent of the destination item is a directory of the view
        have hparD : VIsDir (oview (mu :: ms)) (renderC (dd ++ ts')) := by
          by_cases hts' : ts' = []
          · subst hts'; rw [List.append_nil]; exact hDI.top
          · have hpps : parentInternal (renderC (ss ++ (ts' ++ [n]))) = renderC (ss ++ ts') := by
              rw [← List.append_assoc, parentInternal_renderC _ (good_noSlash (by
                rw [List.append_assoc]; exact hpt.good)), List.dropLast_concat]
            obtain ⟨_, pe, hpe1, hpd1⟩ := hwf.2 _ e1 hx (renderC_ne_nil (by simp))
            rw [hpps] at hpe1
            have hpp : OpPath (ss ++ ts') := by
              have : OpPath ((ss ++ ts') ++ [n]) := by rw [List.append_assoc]; exact hpt
              exact this.prefix (by simp [hts'])
            have hbS := below_of_ne ss hts'
            have hbelow : below (renderC (ss ++ ts')) (renderC (ss ++ (ts' ++ [n]))) = true := by
              rw [← hpps]; exact below_parent_self _ (slash_mem_renderC (by simp))
            have hpend' : pending inner' todo' (renderC (ss ++ ts')) = false := by
              cases hq2 : pending inner' todo' (renderC (ss ++ ts')) with
              | false => rfl
              | true => have := h6 _ hq2; rw [hbelow] at this; cases this
            have hne : renderC (ss ++ ts') ≠ renderC (ss ++ (ts' ++ [n])) := by
              intro h0
              rw [h0, below_irrefl] at hbelow; cases hbelow
            have hpend : pending inner todo (renderC (ss ++ ts')) = false := by
              rw [h5 _ ⟨pe, hpe1⟩, hpend', decide_eq_false hne]; rfl
            have hbD : renderC (ss ++ ts') ∈ D :=
              (hD.2 _).2 ⟨(hpres _ hbS).1 ⟨pe, hpe1⟩, hbS⟩
            have hdone := hDI.done ts' hts' hpp ⟨hbD, hpend⟩
            obtain ⟨pe0, hpe0, hd0⟩ := hdirT _ pe hbS hpe1 hpd1
            rw [(ovisView_some hpe0).2] at hdone
            obtain ⟨pe', hpe', hv'⟩ := vcore_some hdone rfl
            exact ⟨pe', hpe', by rw [ftype_of_vcore hv']; exact hd0⟩
        have habs : oview (mu :: ms) (renderC (dd ++ (ts' ++ [n]))) = none :=
          hDI.notyet _ hts hpdq (fun hp => by rw [hpx] at hp; exact absurd hp.2 (by simp))
        have hproc : ∀ k, (k ∈ D ∧ pending inner' todo' k = false) ↔
            ((k ∈ D ∧ pending inner todo k = false) ∨ k = renderC (ss ++ (ts' ++ [n]))) := by
          intro k
          constructor
          · rintro ⟨hk, hp'⟩
            by_cases hkx : k = renderC (ss ++ (ts' ++ [n]))
            · exact Or.inr hkx
            · exact Or.inl ⟨hk, by rw [h5 k (hDm k hk), hp', decide_eq_false hkx]; rfl⟩
          · rintro (⟨hk, hp⟩ | hk)
            · rw [h5 k (hDm k hk)] at hp
              exact ⟨hk, (Bool.or_eq_false_iff.1 hp).2⟩
            · subst hk; exact ⟨hxD, h4⟩
        have hlen : (D.filter (pending inner todo)).length
            = (D.filter (pending inner' todo')).length + 1 :=
          WkG.filter_length_succ D hD.1 _ _ _ hxD hpx h4 (fun k hk hne => by
            rw [h5 k (hDm k hk), decide_eq_false hne]; rfl)
        have hgv' : GoodV (mu0 :: ms0) (renderC ss) inner' todo' := by
          refine ⟨fun y hy => (hpres y (h7 y hy)).1 (hg'.innerKeys y hy), ?_, hg'.apart, h7, h8⟩
          intro d hd
          obtain ⟨ed, hed, hdir⟩ := hg'.todoDirs d hd
          exact hdirT d ed (h8 d hd) hed hdir
        have h1' : VPath.walkNext (WkG.st ⟨ofs, id, renderC ss⟩ inner todo) w1
            = (.ok (some (.ok ⟨ofs, id, renderC (ss ++ (ts' ++ [n]))⟩),
                WkG.st ⟨ofs, id, renderC ss⟩ inner' todo'), w1) := h1
        have hmeta := o_metadata st id hpt hxe1
        have hrel := relJoin_item ofs id' (S := renderC ss) (cs := dd) (ts := ts' ++ [n])
          (x := ⟨ofs, id, renderC (ss ++ (ts' ++ [n]))⟩) (by simp) hts hpdq
        have hmf : e1.meta.ftype = e1.ftype := rfl
        have hcount : count + (D.filter (pending inner todo)).length
            = count + 1 + (D.filter (pending inner' todo')).length := by omega
        rw [VPath.copyItems]
        simp only [bind, M.bind, h1', M.ret, hrel, hmeta, hmf]
        cases hfte : e1.ftype with
        | dir =>
          obtain ⟨r, mu1, hcd, hown1, inv1, hc⟩ :=
            vpath_overlay_createDir_contractN st.own st.inv st.vwf hpd id'
          have hop : OpOK (.createDir (renderC ((dd ++ ts') ++ [n]))) := ⟨dd ++ ts', n, hpd, rfl⟩
          have hr : r = .ok () := isOk_unit (hc.ok_iff.2
            ⟨by rw [hpd.parent]; exact hparD, by rw [List.append_assoc]; exact habs⟩)
          subst hr
          obtain ⟨⟨hdir1, _⟩, hframe1⟩ := hc.effect rfl
          have hv1 := viewWF_of_contract st.vwf hop hc
          have hn1 := namesOK_step hn hop hc
          rw [List.append_assoc] at hcd hdir1 hframe1
          have hframe1' : VFrame (oview (mu :: ms)) (oview (mu1 :: ms))
              (renderC (dd ++ (ts' ++ [n]))) := hframe1
          simp only [M.bind, hcd]
          have hD1 := hDI.step hss hdd hts hpt hproc (by
            obtain ⟨ed, hed, hdd1⟩ := hdir1
            rw [hed, hxe]
            simp only [Option.map_some, Option.some.injEq]
            rw [vcore_dir hdd1, vcore_dir ((ftype_of_vcore hcur) ▸ hfte)]) hframe1'
          obtain ⟨w', mu', ms', hrun, rest⟩ := ih inner' todo' (count + 1) _ mu1 ms
            ⟨hown1, inv1, hv1⟩ hn1 hls hgv' hD1 (by omega)
          exact ⟨w', mu', ms', by rw [hrun, hcount], rest⟩
        | file =>
          have hfile : VHasFile (oview (mu :: ms)) (renderC (ss ++ (ts' ++ [n]))) e1.content :=
            ⟨e1, hxe1, hfte, rfl⟩
          obtain ⟨w2, mu1, ms1, hcopy, hown1, hl1, inv1, hv1, hn1, hdst1, _, hframe1⟩ :=
            overlay_copyFile_exact st.own st.inv st.vwf id id' hpt hpd hfile hparD
              (by rw [List.append_assoc]; exact habs)
          rw [List.append_assoc] at hcopy hdst1 hframe1
          simp only [M.bind, hcopy]
          have hD1 := hDI.step hss hdd hts hpt hproc (by
            obtain ⟨ef, hef, hff, hcf⟩ := hdst1
            rw [hef, hxe]
            simp only [Option.map_some, Option.some.injEq]
            rw [← hcur, vcore_file hff, vcore_file hfte, hcf]) hframe1
          obtain ⟨w', mu', ms', hrun, rest⟩ := ih inner' todo' (count + 1) _ mu1 ms1
            ⟨hown1, inv1, hv1⟩ (hn1 hn) (hls.trans hl1) hgv' hD1 (by omega)
          exact ⟨w', mu', ms', by rw [hrun, hcount], rest⟩

end loop

/-! ### 4. `copy_dir` / `move_dir` within one overlay -/

theorem DInvV.result {all0 : List FMap} {ss dd : List Str} {v : View} {D : List Str}
    (h : DInvV all0 ss dd v (fun k => k ∈ D)) (hss : OpPath ss)
    (hD : DescList (ovisView all0) (renderC ss) D) :
    ∀ ts, ts ≠ [] → OpPath (dd ++ ts) →
      (v (renderC (dd ++ ts))).map vcore = (ovisView all0 (renderC (ss ++ ts))).map vcore := by
  intro ts hts hpd
  have hgt : ∀ c ∈ ts, GoodComp c := fun c hc => hpd.good c (by simp [hc])
  cases hq : ovisView all0 (renderC (ss ++ ts)) with
  | none =>
    rw [h.notyet ts hts hpd (fun hk => ((hD.2 _).1 hk).1 hq)]
  | some e2 =>
    obtain ⟨hov, he2⟩ := ovisView_some hq
    have hp : OpPath (ss ++ ts) := by
      rcases hov with h0 | ⟨cs, hcs, h0⟩
      · exact absurd h0 (renderC_ne_nil (by simp [hts]))
      · have := C06.renderC_injective _ _ (good_noSlash (good_append hss.good hgt))
          (good_noSlash hcs.good) h0
        rw [this]; exact hcs
    have := h.done ts hts hp ((hD.2 _).2 ⟨by rw [hq]; simp, below_of_ne ss hts⟩)
    rw [he2] at this
    exact this

section main
variable {w : World} {u idu : Nat} {mu : FMap} {is ids : List Nat} {ms : List FMap}
  (h : OWN w (u :: is) (idu :: ids) (mu :: ms)) (inv : OInv mu ms)
  (hv : ViewWF (oview (mu :: ms))) (hn : NamesOK (mu :: ms))
include h inv hv hn

/-- source subtree and destination subtree are disjoint -/
theorem sub_disjoint {ss dd : List Str} {n0 : Str} (hss : OpPath ss) (hd : OpPath (dd ++ [n0]))
    (hsrc : VIsDir (oview (mu :: ms)) (renderC ss))
    (habs : VAbsent (oview (mu :: ms)) (renderC (dd ++ [n0])))
    (hnin : ¬ InSub ss (renderC (dd ++ [n0]))) :
    ∀ q, InSub ss q → ¬ InSub (dd ++ [n0]) q := by
  rintro q ⟨a, hpa, hqa⟩ ⟨b, hpb, hqb⟩
  rw [hqa] at hqb
  have heq := C06.renderC_injective _ _ (good_noSlash hpa.good) (good_noSlash hpb.good) hqb
  rcases List.append_eq_append_iff.1 heq with ⟨a', h1, _⟩ | ⟨c', h1, _⟩
  · exact hnin ⟨a', by rw [← h1]; exact hd, by rw [h1]⟩
  · by_cases hc' : c' = []
    · subst hc'
      rw [List.append_nil] at h1
      rw [h1] at hsrc
      exact not_absent_of_dir hsrc habs
    · have hp : OpPath ((dd ++ [n0]) ++ c') := by rw [← h1]; exact hss
      have hpres : oview (mu :: ms) (renderC ((dd ++ [n0]) ++ c')) ≠ none := by
        rw [← h1]; exact not_absent_of_dir hsrc
      exact not_absent_of_dir (present_below_dir hv (by simp) c' hc' hp hpres) habs

/-- the copy phase shared by `copy_dir` and `move_dir` within one overlay -/
theorem copyPhase_within (id id' : Nat) {ss dd : List Str} {n0 : Str} (hss : OpPath ss)
    (hd : OpPath (dd ++ [n0])) (hsrc : VIsDir (oview (mu :: ms)) (renderC ss))
    (hpar : VIsDir (oview (mu :: ms)) (renderC dd))
    (habs : VAbsent (oview (mu :: ms)) (renderC (dd ++ [n0])))
    (hnin : ¬ InSub ss (renderC (dd ++ [n0])))
    {D : List Str} (hD : DescList (ovisView (mu :: ms)) (renderC ss) D) {fuel : Nat}
    (hfuel : D.length < fuel) :
    ∃ w1 St w' mu' ms',
      VPath.exists_ ⟨Overlay.fs (layersN (u :: is) (idu :: ids)), id', renderC (dd ++ [n0])⟩ w
        = (.ok false, w) ∧
      VPath.createDir ⟨Overlay.fs (layersN (u :: is) (idu :: ids)), id', renderC (dd ++ [n0])⟩ w
        = (.ok (), w1) ∧
      VPath.walkDir ⟨Overlay.fs (layersN (u :: is) (idu :: ids)), id, renderC ss⟩ w1
        = (.ok St, w1) ∧
      VPath.copyItems fuel ⟨Overlay.fs (layersN (u :: is) (idu :: ids)), id, renderC ss⟩
        ⟨Overlay.fs (layersN (u :: is) (idu :: ids)), id', renderC (dd ++ [n0])⟩ St 0 w1
        = (.ok D.length, w') ∧
      OSt u idu is ids ms' w' mu' ∧ NamesOK (mu' :: ms') ∧ LowerSame ms ms' ∧
      DInvV (mu :: ms) ss (dd ++ [n0]) (oview (mu' :: ms')) (fun k => k ∈ D) := by
  have st : OSt u idu is ids ms w mu := ⟨h, inv, hv⟩
  have hdisj := sub_disjoint h inv hv hn hss hd hsrc habs hnin
  have hex := o_exists st id' hd
  rw [show oview (mu :: ms) (renderC (dd ++ [n0])) = none from habs] at hex
  simp only [Option.isSome_none] at hex
  obtain ⟨r, mu1, hcd, hown1, inv1, hc⟩ := vpath_overlay_createDir_contractN h inv hv hd id'
  have hop : OpOK (.createDir (renderC (dd ++ [n0]))) := ⟨dd, n0, hd, rfl⟩
  have hr : r = .ok () := isOk_unit (hc.ok_iff.2 ⟨by rw [hd.parent]; exact hpar, habs⟩)
  subst hr
  obtain ⟨⟨hdir1, _⟩, hframe1⟩ := hc.effect rfl
  have hframe1' : VFrame (oview (mu :: ms)) (oview (mu1 :: ms)) (renderC (dd ++ [n0])) := hframe1
  have hv1 := viewWF_of_contract hv hop hc
  have hn1 : NamesOK (mu1 :: ms) := namesOK_step hn hop hc
  have st1 : OSt u idu is ids ms (w.setLeafFiles u mu1) mu1 := ⟨hown1, inv1, hv1⟩
  -- the walk starts in the state after `create_dir`
  have tv0 := overlay_treeView st1.own st1.inv st1.vwf hn1
  obtain ⟨m, hm0, hwf, hnk⟩ := WkG.exists_map tv0.finite tv0.root tv0.parent
  have hm : m.find? = ovisView (mu1 :: ms) := hm0.symm
  have tv : TreeViewOn (Overlay.fs (layersN (u :: is) (idu :: ids)))
      (fun w' => w' = w.setLeafFiles u mu1) m.find? := by rw [hm]; exact tv0
  have hS_ne : renderC ss ≠ renderC (dd ++ [n0]) := by
    intro h0; rw [h0] at hsrc; exact not_absent_of_dir hsrc habs
  obtain ⟨e, hse, hsd⟩ := (isDir_of_vcore (hframe1' _ hss.vis hS_ne)).2 hsrc
  have hsm : m.find? (renderC ss) = some e := by
    rw [hm, ovisView_of_vis (Or.inr ⟨ss, hss, rfl⟩)]; exact hse
  obtain ⟨l, w1', hw1', hl, hrd⟩ := WkG.run_readDir'
    (P := ⟨Overlay.fs (layersN (u :: is) (idu :: ids)), id, renderC ss⟩) tv _ rfl (renderC ss) e
    hsm hsd
  subst hw1'
  obtain ⟨hg, hpend⟩ := WkG.start_good' hwf (renderC ss) e hsm hsd hl
  have hrd' : VPath.readDir ⟨Overlay.fs (layersN (u :: is) (idu :: ids)), id, renderC ss⟩
      (w.setLeafFiles u mu1)
      = (.ok (l.map (VPath.withStr ⟨Overlay.fs (layersN (u :: is) (idu :: ids)), id, renderC ss⟩)),
          w.setLeafFiles u mu1) := hrd
  have hwalk : VPath.walkDir ⟨Overlay.fs (layersN (u :: is) (idu :: ids)), id, renderC ss⟩
      (w.setLeafFiles u mu1)
      = (.ok (WkG.st ⟨Overlay.fs (layersN (u :: is) (idu :: ids)), id, renderC ss⟩ l []),
          w.setLeafFiles u mu1) := by
    unfold VPath.walkDir
    simp only [bind, M.bind, hrd', pure, M.pure]
    rfl
  -- every member of `D` is present in the state after `create_dir`, hence pending
  have hDpend : ∀ k ∈ D, pending l [] k = true := by
    intro k hk
    obtain ⟨hpres, hb⟩ := (hD.2 k).1 hk
    obtain ⟨hov, hpres'⟩ := ovisView_ne_none_iff.1 hpres
    have hin : InSub ss k := (inSub_iff hss k).2 ⟨hov, by unfold within; rw [hb]; simp⟩
    have hne : k ≠ renderC (dd ++ [n0]) := fun h0 => hdisj k hin (h0 ▸ InSub.self hd)
    have h1 : oview (mu1 :: ms) k ≠ none :=
      fun h0 => hpres' ((none_of_vcore (hframe1' k (vis_of_ovis hov) hne)).1 h0)
    have hk' : ∃ e, m.find? k = some e := by
      rw [hm, ← ne_none_iff]; exact ovisView_ne_none_iff.2 ⟨hov, h1⟩
    rw [hpend k hk']; exact hb
  have hD1 : DInvV (mu :: ms) ss (dd ++ [n0]) (oview (mu1 :: ms))
      (fun k => k ∈ D ∧ pending l [] k = false) := by
    refine ⟨hdir1, ?_, ?_, ?_⟩
    · rintro ts _ _ ⟨hk, hpf⟩
      rw [hDpend _ hk] at hpf; cases hpf
    · intro ts hts hp _
      have hne := ne_of_ts (ts1 := ts) (ts2 := []) hd.good
        (fun c hc => hp.good c (by simp [hc])) (by intro c hc; cases hc) hts
      rw [List.append_nil] at hne
      apply (none_of_vcore (hframe1' _ hp.vis hne)).2
      cases hq : oview (mu :: ms) (renderC (dd ++ [n0] ++ ts)) with
      | none => rfl
      | some e0 =>
        exact absurd habs (not_absent_of_dir
          (present_below_dir hv (by simp) ts hts hp (by rw [hq]; simp)))
    · intro q hq hns
      exact hframe1' q hq (fun h0 => hns (h0 ▸ InSub.self hd))
  have hgv : GoodV (mu :: ms) (renderC ss) l [] := by
    have hloc : ∀ x ∈ l, below (renderC ss) x = true := fun x hx => child_below ((hl.2 x).1 hx)
    refine ⟨?_, (by intro d hd; cases hd), hg.apart, hloc, (by intro d hd; cases hd)⟩
    intro x hx
    have h0 := src_same hss hdisj hD1 (hloc x hx)
    obtain ⟨ex, hex'⟩ := hg.innerKeys x hx
    rw [hm] at hex'
    exact (map_ne_none h0).1 (by rw [hex']; simp)
  have hflen : (D.filter (pending l [])).length = D.length := by
    rw [List.filter_eq_self.2 hDpend]
  obtain ⟨w', mu', ms', hrun, st', hn', hls', hD'⟩ := copyItems_within (id := id) (id' := id') hss hd
    hdisj hD fuel l [] 0 _ mu1 ms st1 hn1 (LowerSame.refl ms) hgv hD1 (by omega)
  rw [Nat.zero_add, hflen] at hrun
  exact ⟨_, _, w', mu', ms', hex, hcd, hwalk, hrun, st', hn', hls', hD'⟩

/-- **copy_dir of a tree of ANY depth WITHIN one overlay** (the statement
`copyDir_within_overlay_exact_stmt` of Props/C11OverlaySource.lean) -/
theorem copyDir_within_overlay_exact (id id' : Nat) {ss dd : List Str} {n0 : Str} (hss : OpPath ss)
    (hd : OpPath (dd ++ [n0])) (hsrc : VIsDir (oview (mu :: ms)) (renderC ss))
    (hpar : VIsDir (oview (mu :: ms)) (renderC dd))
    (habs : VAbsent (oview (mu :: ms)) (renderC (dd ++ [n0])))
    (hnin : ¬ InSub ss (renderC (dd ++ [n0])))
    {D : List Str} (hD : DescList (ovisView (mu :: ms)) (renderC ss) D) {fuel : Nat}
    (hfuel : D.length < fuel) :
    ∃ w' mu' ms',
      VPath.copyDir fuel ⟨Overlay.fs (layersN (u :: is) (idu :: ids)), id, renderC ss⟩
        ⟨Overlay.fs (layersN (u :: is) (idu :: ids)), id', renderC (dd ++ [n0])⟩ w
        = (.ok D.length, w') ∧
      OSt u idu is ids ms' w' mu' ∧ LowerSame ms ms' ∧ NamesOK (mu' :: ms') ∧
      VIsDir (oview (mu' :: ms')) (renderC (dd ++ [n0])) ∧
      (∀ ts, ts ≠ [] → OpPath (dd ++ [n0] ++ ts) →
        (oview (mu' :: ms') (renderC (dd ++ [n0] ++ ts))).map vcore
          = (ovisView (mu :: ms) (renderC (ss ++ ts))).map vcore) ∧
      (∀ q, Vis q → ¬ InSub (dd ++ [n0]) q →
        (oview (mu' :: ms') q).map vcore = (oview (mu :: ms) q).map vcore) := by
  obtain ⟨w1, St, w', mu', ms', hex, hcd, hwalk, hrun, st', hn', hls', hD'⟩ :=
    copyPhase_within h inv hv hn id id' hss hd hsrc hpar habs hnin hD hfuel
  refine ⟨w', mu', ms', ?_, st', hls', hn', hD'.top, hD'.result hss hD, hD'.frame⟩
  unfold VPath.copyDir
  simp only [M.withPath, bind, M.bind, hex, hcd, hwalk, hrun, Res.withPath, Bool.false_eq_true,
    if_false]

/-- **move_dir of a tree of ANY depth WITHIN one overlay** (the statement
`moveDir_within_overlay_exact_stmt`): the copy phase, then `remove_dir_all` of the source with
the same fuel (depth bound `FuelOK`) -/
theorem moveDir_within_overlay_exact (id id' : Nat) {ss dd : List Str} {n0 : Str} (hss : OpPath ss)
    (hd : OpPath (dd ++ [n0])) (hsrc : VIsDir (oview (mu :: ms)) (renderC ss))
    (hpar : VIsDir (oview (mu :: ms)) (renderC dd))
    (habs : VAbsent (oview (mu :: ms)) (renderC (dd ++ [n0])))
    (hnin : ¬ InSub ss (renderC (dd ++ [n0])))
    {D : List Str} (hD : DescList (ovisView (mu :: ms)) (renderC ss) D) {fuel : Nat}
    (hfuel : D.length < fuel) (hdepth : FuelOK (oview (mu :: ms)) ss fuel) :
    ∃ w' mu' ms',
      VPath.moveDir fuel ⟨Overlay.fs (layersN (u :: is) (idu :: ids)), id, renderC ss⟩
        ⟨Overlay.fs (layersN (u :: is) (idu :: ids)), id', renderC (dd ++ [n0])⟩ w
        = (.ok (), w') ∧
      OSt u idu is ids ms' w' mu' ∧ LowerSame ms ms' ∧ NamesOK (mu' :: ms') ∧
      VIsDir (oview (mu' :: ms')) (renderC (dd ++ [n0])) ∧
      (∀ ts, ts ≠ [] → OpPath (dd ++ [n0] ++ ts) →
        (oview (mu' :: ms') (renderC (dd ++ [n0] ++ ts))).map vcore
          = (ovisView (mu :: ms) (renderC (ss ++ ts))).map vcore) ∧
      (∀ q, InSub ss q → oview (mu' :: ms') q = none) ∧
      (∀ q, Vis q → ¬ InSub (dd ++ [n0]) q → ¬ InSub ss q →
        (oview (mu' :: ms') q).map vcore = (oview (mu :: ms) q).map vcore) := by
  have hdisj := sub_disjoint h inv hv hn hss hd hsrc habs hnin
  obtain ⟨w1, St, w2, mu2, ms2, hex, hcd, hwalk, hrun, st2, hn2, hls2, hD2⟩ :=
    copyPhase_within h inv hv hn id id' hss hd hsrc hpar habs hnin hD hfuel
  have hsrc2 : VIsDir (oview (mu2 :: ms2)) (renderC ss) :=
    (isDir_of_vcore (hD2.frame _ hss.vis (hdisj _ (InSub.self hss)))).2 hsrc
  have hdepth2 : FuelOK (oview (mu2 :: ms2)) ss fuel := by
    intro ts hp hpres
    exact hdepth ts hp (fun h0 => hpres
      ((none_of_vcore (hD2.frame _ hp.vis (hdisj _ ⟨ts, hp, rfl⟩))).2 h0))
  obtain ⟨mu3, hrun3, own3, inv3, vwf3, hn3, hgone3, hframe3⟩ :=
    overlay_removeDirAll_exact st2.own st2.inv st2.vwf id hn2 fuel hss hsrc2 hdepth2
  have hnotsrc : ∀ q, InSub (dd ++ [n0]) q → ¬ InSub ss q := fun q h1 h2 => hdisj q h2 h1
  refine ⟨_, mu3, ms2, ?_, ⟨own3, inv3, vwf3⟩, hls2, hn3, ?_, ?_, hgone3, ?_⟩
  · unfold VPath.moveDir
    simp only [M.withPath, bind, M.bind, hex, fail, overlay_fast_moveDir, hcd, hwalk, hrun, hrun3,
      Res.withPath, Bool.false_eq_true, if_false, ne_eq, not_true_eq_false]
  · exact (isDir_of_vcore (hframe3 _ hd.vis (hnotsrc _ (InSub.self hd)))).2 hD2.top
  · intro ts hts hp
    rw [hframe3 _ hp.vis (hnotsrc _ ⟨ts, hp, rfl⟩)]
    exact hD2.result hss hD ts hts hp
  · intro q hq h1 h2
    exact (hframe3 q hq h2).trans (hD2.frame q hq h1)

end main

/-- the statements left open in Props/C11OverlaySource.lean hold -/
theorem copyDir_within_overlay_exact_holds : copyDir_within_overlay_exact_stmt := by
  intro w u idu mu is ids ms h inv hv hn id id' ss dd n0 hss hd hsrc hpar habs hnin D hD fuel hfuel
  exact copyDir_within_overlay_exact h inv hv hn id id' hss hd hsrc hpar habs hnin hD hfuel

theorem moveDir_within_overlay_exact_holds : moveDir_within_overlay_exact_stmt := by
  intro w u idu mu is ids ms h inv hv hn id id' ss dd n0 hss hd hsrc hpar habs hnin D hD fuel hfuel
    hdepth
  exact moveDir_within_overlay_exact h inv hv hn id id' hss hd hsrc hpar habs hnin hD hfuel hdepth

end Vfs.C11

section audit
open Vfs.C11
#print axioms copyItems_within
#print axioms copyDir_within_overlay_exact
#print axioms moveDir_within_overlay_exact
#print axioms copyDir_within_overlay_exact_holds
#print axioms moveDir_within_overlay_exact_holds
end audit
