/-
  C07 — AltrootFS is an exact and confined re-rooting.

  "Every operation on path q of an altroot filesystem rooted at directory P of another
  filesystem has the same outcome and the same effect as that operation on P/q of the
  underlying filesystem. No path expression — however many '..', absolute segments or odd
  characters it contains — lets any call read, create, change or remove anything outside P."

  Reading of the statement in the model:
    * P is the path string of the altroot's root `VfsPath`; it is canonical (`Canon`), as is
      every path string of a `VfsPath` (C06.join_canonical): `P = renderC ps`.
    * the paths q handed to the trait methods of the altroot by the `VfsPath` layer are the
      path strings of `VfsPath`s of the altroot filesystem; they are canonical too. "Path
      expressions" are the arguments of `VfsPath::join`; `join_never_escapes` shows that whatever
      the argument, the result is canonical and is mapped below P.
    * EXACT  (`altroot_path_append`, `altroot_exact_*`): each method on q IS (equal as a state
      transformer `World → Res × World`, so same outcome and same effect) the `VfsPath`
      operation on the path `P ++ q` of the root's filesystem.
    * CONFINED (`altroot_confined`, `altroot_confined_log`, `altroot_confined_strict`): the only
      calls that reach the root's filesystem carry canonical paths that have P as a
      component-wise prefix; the single exception is the parent probe (`exists`, `metadata` —
      observers) that `VfsPath::create_dir` / `create_file` issue when called on the altroot's
      own root "", which looks at the directory just above P and never mutates it.
    * `physical_get_path_confined`: below a `PhysicalFS`, a canonical path is appended to the
      host root directory (never replaces it, contains no ".." component).

  The hypothesis "q canonical" cannot be dropped for RAW trait calls: see `raw_call_escapes`.
  Helper lemmas live in Proofs/AltrootLemmas.lean.
-/
import VfsModel.Proofs.AltrootLemmas
import VfsModel.Proofs.LeafFrame
namespace Vfs.C07

/-! ### 1. `AltrootFS::path` appends -/

/-- `"c1/c2/…".split('/')` (the argument `&path[1..]` that `AltrootFS::path` hands to `join`)
gives back the components -/
theorem split_tail (qs : List Str) (hne : qs ≠ []) (hqs : ∀ c ∈ qs, GoodComp c) :
    splitSlash ((renderC qs).drop 1) = qs :=
  splitSlash_drop_renderC qs hne (good_noSlash hqs)

/-- resolving canonical components pushes all of them -/
theorem resolve_good (s qs : List Str) (hqs : ∀ c ∈ qs, GoodComp c) : resolve s qs = s ++ qs :=
  resolve_good_append s qs hqs

/-- **Theorem 1.** For an altroot rooted at the canonical path `/p1/…/pn` and a canonical
argument `/q1/…/qm`, `AltrootFS::path` succeeds with the path `/p1/…/pn/q1/…/qm` of the same
filesystem (same `Arc`). Structure equality, for every filesystem value and identity. -/
theorem altroot_path_append (fs : FS) (id : Nat) (ps qs : List Str)
    (hps : ∀ c ∈ ps, GoodComp c) (hqs : ∀ c ∈ qs, GoodComp c) :
    Altroot.path { fs := fs, fsId := id, path := renderC ps } (renderC qs)
      = .ok { fs := fs, fsId := id, path := renderC ps ++ renderC qs } := by
  rw [Altroot.path_renderC _ ps qs rfl hps hqs, renderC_append]
  rfl

/-- the same for an arbitrary root `VfsPath` with canonical path string -/
theorem altroot_path_canon (root : VPath) (q : Str) (hroot : Canon root.path) (hq : Canon q) :
    Altroot.path root q = .ok (root.withStr (root.path ++ q)) :=
  Altroot.path_canon root q hroot hq

/-- in the form "∃ r": path string is the rendering of the concatenated component lists -/
theorem altroot_path_append' (root : VPath) (ps qs : List Str) (hroot : root.path = renderC ps)
    (hps : ∀ c ∈ ps, GoodComp c) (hqs : ∀ c ∈ qs, GoodComp c) :
    ∃ r, Altroot.path root (renderC qs) = .ok r ∧ r.path = renderC (ps ++ qs) ∧
      r.fs = root.fs ∧ r.fsId = root.fsId :=
  ⟨_, Altroot.path_renderC root ps qs hroot hps hqs, rfl, rfl, rfl⟩

/-! ### 2. no join argument climbs above the altroot -/

/-- **Theorem 2.** From a canonical path `q` of the altroot filesystem, joining ANY argument
string (any number of "..", leading or doubled '/', ".", any characters) either fails (then no
call is made at all) or yields a canonical `r = /r1/…/rk`, and the altroot maps `r` to the path
`/p1/…/pn/r1/…/rk` of the underlying filesystem: the altroot directory is a component-wise
prefix, and no component is "..", "." or empty. -/
theorem join_never_escapes (root : VPath) (ps : List Str) (hroot : root.path = renderC ps)
    (hps : ∀ c ∈ ps, GoodComp c) (q arg r : Str) (hq : Canon q)
    (hj : joinInternal q arg = .ok r) :
    Canon r ∧ Altroot.path root r = .ok (root.withStr (renderC ps ++ r)) ∧
      ∃ rs : List Str, (∀ c ∈ rs, GoodComp c) ∧ r = renderC rs ∧ ps <+: ps ++ rs ∧
        (∀ c ∈ ps ++ rs, GoodComp c) ∧
        Altroot.path root r = .ok (root.withStr (renderC (ps ++ rs))) := by
  have hr : Canon r := C06.join_canonical q arg r hq hj
  obtain ⟨rs, hrs, rfl⟩ := hr
  have hp := Altroot.path_renderC root ps rs hroot hps hrs
  refine ⟨⟨rs, hrs, rfl⟩, ?_, rs, hrs, rfl, List.prefix_append _ _, good_append hps hrs, hp⟩
  rw [hp, renderC_append]

/-- a chain of joins -/
def joinMany : Str → List Str → Res Str
  | q, [] => .ok q
  | q, a :: rest =>
    match joinInternal q a with
    | .ok r => joinMany r rest
    | .err k p => .err k p
    | .panic => .panic

/-- any number of joins, starting from the root `""` of the altroot filesystem or any other
canonical path of it, stays below the altroot directory -/
theorem joins_never_escape (root : VPath) (ps : List Str) (hroot : root.path = renderC ps)
    (hps : ∀ c ∈ ps, GoodComp c) (q : Str) (args : List Str) (r : Str) (hq : Canon q)
    (hj : joinMany q args = .ok r) :
    Canon r ∧ Altroot.path root r = .ok (root.withStr (renderC ps ++ r)) := by
  induction args generalizing q with
  | nil =>
    simp only [joinMany, Res.ok.injEq] at hj
    subst hj
    obtain ⟨qs, hqs, rfl⟩ := hq
    refine ⟨⟨qs, hqs, rfl⟩, ?_⟩
    rw [Altroot.path_renderC root ps qs hroot hps hqs, renderC_append]
  | cons a rest ih =>
    unfold joinMany at hj
    cases h1 : joinInternal q a with
    | ok r1 =>
      rw [h1] at hj
      exact ih r1 (C06.join_canonical q a r1 hq h1) hj
    | err k p => rw [h1] at hj; cases hj
    | panic => rw [h1] at hj; cases hj

/-- at the `VfsPath` level: `join` on a path of the altroot filesystem with canonical string
gives a path of the same filesystem with canonical string -/
theorem vpath_join_canonical (a b : VPath) (arg : Str) (ha : Canon a.path)
    (hj : a.join arg = .ok b) : b.fs = a.fs ∧ b.fsId = a.fsId ∧ Canon b.path := by
  have h := VPath.join_fs a b arg hj
  refine ⟨h.1, h.2, ?_⟩
  unfold VPath.join at hj
  cases hi : joinInternal a.path arg with
  | ok r =>
    rw [hi] at hj
    simp only [Res.map, Res.ok.injEq] at hj
    subst hj
    exact C06.join_canonical a.path arg r ha hi
  | err k p => rw [hi] at hj; cases hj
  | panic => rw [hi] at hj; cases hj

/-- The hypothesis "q canonical" is necessary for RAW calls of the trait methods (calls that do
not come from a `VfsPath`, whose strings are always canonical): `AltrootFS::path` strips one
leading '/' and joins, and `join` restarts from the root of the INNER filesystem on a leading
'/', and climbs on "..". (The Rust source says so itself: "should only be used for convenience,
NOT FOR SECURITY".) -/
theorem raw_call_escapes :
    (Altroot.path { fs := default, fsId := 0, path := "/r".toList } "//etc".toList).map (·.path)
        = .ok "/etc".toList ∧
    (Altroot.path { fs := default, fsId := 0, path := "/r".toList } "/../etc".toList).map (·.path)
        = .ok "/etc".toList := by
  constructor <;> decide

/-! ### 3. exactness: each method is the `VfsPath` operation on `P ++ q` -/

section exact
variable (root : VPath) (q : Str) (hroot : Canon root.path) (hq : Canon q)
include hroot hq

theorem altroot_exact_createDir :
    (Altroot.fs root).createDir q = (root.withStr (root.path ++ q)).createDir :=
  Altroot.bind_path root q _ (Altroot.path_canon root q hroot hq) (fun v => v.createDir)

theorem altroot_exact_openFile :
    (Altroot.fs root).openFile q = (root.withStr (root.path ++ q)).openFile :=
  Altroot.bind_path root q _ (Altroot.path_canon root q hroot hq) (fun v => v.openFile)

theorem altroot_exact_createFile :
    (Altroot.fs root).createFile q = (root.withStr (root.path ++ q)).createFile :=
  Altroot.bind_path root q _ (Altroot.path_canon root q hroot hq) (fun v => v.createFile)

theorem altroot_exact_appendFile :
    (Altroot.fs root).appendFile q = (root.withStr (root.path ++ q)).appendFile :=
  Altroot.bind_path root q _ (Altroot.path_canon root q hroot hq) (fun v => v.appendFile)

theorem altroot_exact_metadata :
    (Altroot.fs root).metadata q = (root.withStr (root.path ++ q)).metadata :=
  Altroot.bind_path root q _ (Altroot.path_canon root q hroot hq) (fun v => v.metadata)

theorem altroot_exact_removeFile :
    (Altroot.fs root).removeFile q = (root.withStr (root.path ++ q)).removeFile :=
  Altroot.bind_path root q _ (Altroot.path_canon root q hroot hq) (fun v => v.removeFile)

theorem altroot_exact_removeDir :
    (Altroot.fs root).removeDir q = (root.withStr (root.path ++ q)).removeDir :=
  Altroot.bind_path root q _ (Altroot.path_canon root q hroot hq) (fun v => v.removeDir)

theorem altroot_exact_setCreationTime (t : Int) :
    (Altroot.fs root).setCreationTime q t = (root.withStr (root.path ++ q)).setCreationTime t :=
  Altroot.bind_path root q _ (Altroot.path_canon root q hroot hq) (fun v => v.setCreationTime t)

theorem altroot_exact_setModificationTime (t : Int) :
    (Altroot.fs root).setModificationTime q t
      = (root.withStr (root.path ++ q)).setModificationTime t :=
  Altroot.bind_path root q _ (Altroot.path_canon root q hroot hq)
    (fun v => v.setModificationTime t)

theorem altroot_exact_setAccessTime (t : Int) :
    (Altroot.fs root).setAccessTime q t = (root.withStr (root.path ++ q)).setAccessTime t :=
  Altroot.bind_path root q _ (Altroot.path_canon root q hroot hq) (fun v => v.setAccessTime t)

theorem altroot_exact_exists :
    (Altroot.fs root).exists_ q = (root.withStr (root.path ++ q)).exists_ := by
  simp only [Altroot.fs, Altroot.path_canon root q hroot hq]

/-- `read_dir`: the listing of `P ++ q`, each child path reduced to its file name -/
theorem altroot_exact_readDir :
    (Altroot.fs root).readDir q = (do
      let l ← (root.withStr (root.path ++ q)).readDir
      pure (l.map fun c => filenameInternal c.path)) :=
  Altroot.bind_path root q _ (Altroot.path_canon root q hroot hq)
    (fun v => do
      let l ← v.readDir
      pure (l.map fun (c : VPath) => filenameInternal c.path))

/-- `read_dir` spelled out against the trait method of the underlying filesystem: same world
transformation; on success the names it returned (reduced to what follows their last '/': the
names themselves when they contain none); on failure the same error kind, labelled `P ++ q` -/
theorem altroot_exact_readDir_run (w : World) :
    (Altroot.fs root).readDir q w =
      match root.fs.readDir (root.path ++ q) w with
      | (.ok names, w') => (.ok (names.map filenameInternal), w')
      | (.err k _, w') => (.err k (some (root.path ++ q)), w')
      | (.panic, w') => (.panic, w') := by
  rw [altroot_exact_readDir root q hroot hq]
  show M.bind (M.bind (M.withPath _ (root.fs.readDir (root.path ++ q))) _) _ w = _
  unfold M.bind M.withPath
  cases hres : root.fs.readDir (root.path ++ q) w with
  | mk r w' =>
    cases r with
    | ok names =>
      simp only [Res.withPath, VPath.withStr, Pure.pure, M.pure, List.map_map]
      congr 2
      apply List.map_congr_left
      intro n _
      show filenameInternal ((root.path ++ q) ++ '/' :: n) = filenameInternal n
      unfold filenameInternal
      induction (root.path ++ q) with
      | nil =>
        by_cases hs : '/' ∈ n
        · simp [afterLast, hs]
        · simp [afterLast, hs, afterLast_no_delim '/' n hs]
      | cons c cs ih => simp [afterLast, ih]
    | err k p => rfl
    | panic => rfl

/-- if the underlying `read_dir` returns plain names (no '/'), the altroot returns exactly them -/
theorem altroot_exact_readDir_names (w w' : World) (names : List Str)
    (hrun : root.fs.readDir (root.path ++ q) w = (.ok names, w'))
    (hn : ∀ n ∈ names, '/' ∉ n) : (Altroot.fs root).readDir q w = (.ok names, w') := by
  rw [altroot_exact_readDir_run root q hroot hq w, hrun]
  simp only
  congr 2
  conv => rhs; rw [← List.map_id names]
  apply List.map_congr_left
  intro n hm
  exact afterLast_no_delim '/' n (hn n hm)

/-- `copy_file`: for canonical source and canonical non-empty destination, the `VfsPath`
copy between `P ++ s` and `P ++ d` -/
theorem altroot_exact_copyFile (d : Str) (hd : Canon d) (hne : d ≠ []) :
    (Altroot.fs root).copyFile q d
      = (root.withStr (root.path ++ q)).copyFile (root.withStr (root.path ++ d)) := by
  simp only [Altroot.fs, if_neg hne]
  rw [Altroot.bind_path root q _ (Altroot.path_canon root q hroot hq)]
  exact Altroot.bind_path root d _ (Altroot.path_canon root d hroot hd) _

omit hroot hq in
/-- `copy_file` onto the altroot's own root "" is refused without any call -/
theorem altroot_copyFile_root : (Altroot.fs root).copyFile q [] = M.failK .notSupported := by
  simp only [Altroot.fs, if_pos]

omit hroot hq in
/-- `move_file` / `move_dir` are the trait defaults (`NotSupported`): no call at all -/
theorem altroot_move_unsupported (d : Str) :
    (Altroot.fs root).moveFile q d = M.failK .notSupported ∧
    (Altroot.fs root).moveDir q d = M.failK .notSupported := ⟨rfl, rfl⟩

end exact

/-! ### 4. `PhysicalFS::get_path` below the altroot -/

/-- **Theorem 4.** `PhysicalFS::get_path` (model `physGetPath` in Proofs/AltrootLemmas.lean:
strip one leading '/', then `PathBuf::join`, where an absolute argument REPLACES the base) on a
canonical path `/c1/…/cn`: the argument handed to `join` is the relative string `c1/…/cn`, so
it is APPENDED to the host root directory after a separator (`pathSep root` is "/" unless
`root` is empty or already ends in '/'). For the root `""` the result is the host root
directory followed by that separator (`PathBuf::join("")` appends a trailing separator).
The host root is a prefix of the result, and the appended part splits at '/' into exactly the
components `c1 … cn`: none is "..", "." or empty. -/
theorem physical_get_path_confined (root : Str) (cs : List Str) (hcs : ∀ c ∈ cs, GoodComp c) :
    physGetPath root (renderC cs) = root ++ pathSep root ++ (renderC cs).drop 1 ∧
    root <+: physGetPath root (renderC cs) ∧
    (cs ≠ [] → splitSlash ((renderC cs).drop 1) = cs) := by
  have h := physGetPath_renderC root cs hcs
  refine ⟨h, ?_, fun hne => split_tail cs hne hcs⟩
  rw [h, List.append_assoc]
  exact List.prefix_append _ _

/-- the usual case: a non-empty host root that does not end in '/' -/
theorem physical_get_path_confined' (root : Str) (cs : List Str) (hcs : ∀ c ∈ cs, GoodComp c)
    (hr : root ≠ []) (hl : root.getLast? ≠ some '/') :
    physGetPath root (renderC cs) = root ++ ['/'] ++ (renderC cs).drop 1 := by
  rw [physGetPath_renderC root cs hcs]
  unfold pathSep
  rw [if_neg (by simp [hr, hl])]

/-- the root `""` of the filesystem: the host root directory itself (with a trailing separator) -/
theorem physical_get_path_root (root : Str) : physGetPath root [] = root ++ pathSep root := by
  simp [physGetPath, pathBufJoin]

/-- why canonicity matters here too: a doubled leading '/' (which no `VfsPath` string has)
would make `PathBuf::join` replace the host root -/
example : physGetPath "/srv/data".toList "//etc/passwd".toList = "/etc/passwd".toList := by decide
example : physGetPath "/srv/data".toList "/a/b".toList = "/srv/data/a/b".toList := by decide
example : physGetPath "/srv/data".toList [] = "/srv/data/".toList := by decide

/-! ### 5. confinement -/

/-- **Confinement, general form.** Let the altroot be rooted at `/p1/…/pn` of a filesystem
`root.fs`, and let `I` be ANY invariant of the world that `root.fs` preserves whenever it is
called with a canonical path at or below `/p1/…/pn` (observers `exists`, `metadata`: also
with an ancestor directory of it). Then every method of the altroot, called with any canonical
path(s), preserves `I`, and so does every write handle it returns. In other words the altroot
issues no other call. `FS.PresAt`, `BelowC`, `Ancestor`: Proofs/AltrootLemmas.lean. -/
theorem altroot_confined {I : World → Prop} (root : VPath) (ps : List Str)
    (hroot : root.path = renderC ps) (hps : ∀ c ∈ ps, GoodComp c)
    (h : root.fs.PresAt I (BelowC ps) (Ancestor ps)) :
    (Altroot.fs root).PresAt I Canon (fun _ => False) :=
  Altroot.presAt root ps hroot hps h

/-- altroots nest: an altroot rooted in a directory of an altroot is confined to the outer one -/
theorem altroot_confined_nested {I : World → Prop} (root root2 : VPath) (ps ps2 : List Str)
    (hroot : root.path = renderC ps) (hps : ∀ c ∈ ps, GoodComp c)
    (h : root.fs.PresAt I (BelowC ps) (Ancestor ps))
    (hfs2 : root2.fs = Altroot.fs root) (hroot2 : root2.path = renderC ps2)
    (hps2 : ∀ c ∈ ps2, GoodComp c) :
    (Altroot.fs root2).PresAt I Canon (fun _ => False) := by
  apply Altroot.presAt root2 ps2 hroot2 hps2
  rw [hfs2]
  exact (Altroot.presAt root ps hroot hps h).mono (fun _ hb => hb.canon hps2)
    (fun _ ha => Or.inl (ha.canon hps2))

/-- `s` is `/p1/…/pn` or continues it after a '/' -/
def Below (ps : List Str) (s : Str) : Prop :=
  ∃ rest, s = renderC ps ++ rest ∧ (rest = [] ∨ rest.head? = some '/')

theorem below_of_belowC {ps : List Str} {s : Str} (h : BelowC ps s) : Below ps s := by
  obtain ⟨qs, _, rfl⟩ := h
  refine ⟨renderC qs, renderC_append _ _, ?_⟩
  cases qs with
  | nil => left; rfl
  | cons c cs => right; simp

/-- the ghost log confines the calls tagged `t` to `/p1/…/pn`: every such entry carries a path
at or below it — or is the observing parent probe (`exists` / `metadata`) of an ancestor -/
def LogBelow (t : Nat) (ps : List Str) (w : World) : Prop :=
  ∀ e ∈ w.log, e.tag = t →
    (∃ rest, e.path = renderC ps ++ rest ∧ (rest = [] ∨ rest.head? = some '/')) ∨
    (e.method.mutating = false ∧ (e.method = .exists_ ∨ e.method = .metadata) ∧
      ∃ k, e.path = renderC (ps.take k))

/-- stronger: paths are canonical and component-wise below; the second path of a two-path call
(`copy_file`) is below as well; the probe carries no second path -/
def EntryConfined (ps : List Str) (e : LogEntry) : Prop :=
  (BelowC ps e.path ∧ (e.path2 = [] ∨ BelowC ps e.path2)) ∨
  ((e.method = .exists_ ∨ e.method = .metadata) ∧ Ancestor ps e.path ∧ e.path2 = [])

def LogConfined (t : Nat) (ps : List Str) (w : World) : Prop :=
  ∀ e ∈ w.log, e.tag = t → EntryConfined ps e

theorem LogConfined.logBelow {t : Nat} {ps : List Str} {w : World} (h : LogConfined t ps w) :
    LogBelow t ps w := by
  intro e he ht
  rcases h e he ht with ⟨hb, _⟩ | ⟨hm, ha, _⟩
  · exact Or.inl (below_of_belowC hb)
  · refine Or.inr ⟨?_, hm, ha⟩
    rcases hm with hm | hm <;> rw [hm] <;> rfl

/-- a log invariant given entry-wise -/
def LogAll (t : Nat) (P : LogEntry → Prop) (w : World) : Prop := ∀ e ∈ w.log, e.tag = t → P e

/-- the entries an altroot rooted at `ps` is allowed to produce satisfy `P` -/
structure Allows (t : Nat) (ps : List Str) (P : LogEntry → Prop) : Prop where
  below : ∀ m p, BelowC ps p → P { tag := t, method := m, path := p }
  probe : ∀ m p, m = .exists_ ∨ m = .metadata → Ancestor ps p →
    P { tag := t, method := m, path := p }
  two : ∀ m s d, BelowC ps s → BelowC ps d → P { tag := t, method := m, path := s, path2 := d }

theorem logCall_all (t : Nat) (P : LogEntry → Prop) (m : Method) (p p2 : Str)
    (h : P { tag := t, method := m, path := p, path2 := p2 }) :
    Preserves (LogAll t P) (logCall t m p p2) := by
  refine ⟨fun w hw => ?_⟩
  unfold logCall LogAll at *
  intro e he
  simp only [List.mem_append, List.mem_singleton] at he
  rcases he with he | rfl
  · exact hw e he
  · exact fun _ => h

/-- a recording wrapper around a filesystem that itself keeps the log invariant, called at
paths below `ps` (probes: ancestors), keeps the log invariant -/
theorem recordFS_presAt (t : Nat) (ps : List Str) (P : LogEntry → Prop) (hP : Allows t ps P)
    (inner : FS) (hi : inner.AllPreserve (LogAll t P)) :
    (recordFS t inner).PresAt (LogAll t P) (BelowC ps) (Ancestor ps) where
  readDir p hp := Preserves.bind (logCall_all t P _ p [] (hP.below _ p hp)) (fun _ => hi.readDir p)
  createDir p hp :=
    Preserves.bind (logCall_all t P _ p [] (hP.below _ p hp)) (fun _ => hi.createDir p)
  openFile p hp :=
    Preserves.bind (logCall_all t P _ p [] (hP.below _ p hp)) (fun _ => hi.openFile p)
  createFile p hp :=
    Preserves.bind (logCall_all t P _ p [] (hP.below _ p hp)) (fun _ => hi.createFile p)
  appendFile p hp :=
    Preserves.bind (logCall_all t P _ p [] (hP.below _ p hp)) (fun _ => hi.appendFile p)
  metadata p hp :=
    Preserves.bind (logCall_all t P _ p []
      (hp.elim (hP.below _ p) (hP.probe _ p (Or.inr rfl)))) (fun _ => hi.metadata p)
  setCreationTime p x hp :=
    Preserves.bind (logCall_all t P _ p [] (hP.below _ p hp)) (fun _ => hi.setCreationTime p x)
  setModificationTime p x hp :=
    Preserves.bind (logCall_all t P _ p [] (hP.below _ p hp))
      (fun _ => hi.setModificationTime p x)
  setAccessTime p x hp :=
    Preserves.bind (logCall_all t P _ p [] (hP.below _ p hp)) (fun _ => hi.setAccessTime p x)
  exists_ p hp :=
    Preserves.bind (logCall_all t P _ p []
      (hp.elim (hP.below _ p) (hP.probe _ p (Or.inl rfl)))) (fun _ => hi.exists_ p)
  removeFile p hp :=
    Preserves.bind (logCall_all t P _ p [] (hP.below _ p hp)) (fun _ => hi.removeFile p)
  removeDir p hp :=
    Preserves.bind (logCall_all t P _ p [] (hP.below _ p hp)) (fun _ => hi.removeDir p)
  copyFile s d hs hd :=
    Preserves.bind (logCall_all t P _ s d (hP.two _ s d hs hd)) (fun _ => hi.copyFile s d)
  moveFile s d hs hd :=
    Preserves.bind (logCall_all t P _ s d (hP.two _ s d hs hd)) (fun _ => hi.moveFile s d)
  moveDir s d hs hd :=
    Preserves.bind (logCall_all t P _ s d (hP.two _ s d hs hd)) (fun _ => hi.moveDir s d)
  createHandle p _ := Returns.bind (fun _ => hi.createHandle p)
  appendHandle p _ := Returns.bind (fun _ => hi.appendHandle p)

theorem allows_confined (t : Nat) (ps : List Str) : Allows t ps (EntryConfined ps) where
  below _ _ hp := Or.inl ⟨hp, Or.inl rfl⟩
  probe _ _ hm ha := Or.inr ⟨hm, ha, rfl⟩
  two _ _ _ hs hd := Or.inl ⟨hs, Or.inr hd⟩

theorem allows_below (t : Nat) (ps : List Str) :
    Allows t ps (fun e =>
      (∃ rest, e.path = renderC ps ++ rest ∧ (rest = [] ∨ rest.head? = some '/')) ∨
      (e.method.mutating = false ∧ (e.method = .exists_ ∨ e.method = .metadata) ∧
        ∃ k, e.path = renderC (ps.take k))) where
  below _ _ hp := Or.inl (below_of_belowC hp)
  probe m _ hm ha := Or.inr ⟨by rcases hm with hm | hm <;> rw [hm] <;> rfl, hm, ha⟩
  two _ _ _ hs _ := Or.inl (below_of_belowC hs)

/-- a leaf filesystem never writes to the log -/
theorem leafFS_logAll (t i : Nat) (P : LogEntry → Prop) : (leafFS i).AllPreserve (LogAll t P) :=
  leafFS_all_preserve i (fun w f h => by unfold LogAll World.setLeafFiles at *; exact h)

/-- **Theorem 5 (confinement on the ghost call log).** The altroot is rooted at `/p1/…/pn` of a
recording wrapper (tag `t`) around an arbitrary filesystem `inner` that itself keeps the log
confined (a leaf; another recorded stack; …). Then every method of the altroot — all 13
forwarding methods, `copy_file` with both paths, `move_file` / `move_dir` (which make no call)
— called with canonical path(s), keeps `LogBelow t ps`; and so does every write through the
handles returned by `create_file` / `append_file`. Whether the call succeeds, fails or panics. -/
theorem altroot_confined_log (t : Nat) (ps : List Str) (root : VPath) (inner : FS)
    (hfs : root.fs = recordFS t inner) (hroot : root.path = renderC ps)
    (hps : ∀ c ∈ ps, GoodComp c) (hi : inner.AllPreserve (LogBelow t ps)) :
    (Altroot.fs root).PresAt (LogBelow t ps) Canon (fun _ => False) := by
  apply Altroot.presAt root ps hroot hps
  rw [hfs]
  exact recordFS_presAt t ps _ (allows_below t ps) inner hi

/-- the same for the stronger log invariant `LogConfined` (canonical, component-wise below,
second path of `copy_file` included) -/
theorem altroot_confined_strict (t : Nat) (ps : List Str) (root : VPath) (inner : FS)
    (hfs : root.fs = recordFS t inner) (hroot : root.path = renderC ps)
    (hps : ∀ c ∈ ps, GoodComp c) (hi : inner.AllPreserve (LogConfined t ps)) :
    (Altroot.fs root).PresAt (LogConfined t ps) Canon (fun _ => False) := by
  apply Altroot.presAt root ps hroot hps
  rw [hfs]
  exact recordFS_presAt t ps _ (allows_confined t ps) inner hi

/-! The thirteen forwarding methods, spelled out. -/
section spelled
variable (t : Nat) (ps : List Str) (root : VPath) (inner : FS)
  (hfs : root.fs = recordFS t inner) (hroot : root.path = renderC ps)
  (hps : ∀ c ∈ ps, GoodComp c) (hi : inner.AllPreserve (LogBelow t ps))
  (q : Str) (hq : Canon q)
include hfs hroot hps hi hq

theorem altroot_confined_log_readDir : Preserves (LogBelow t ps) ((Altroot.fs root).readDir q) :=
  (altroot_confined_log t ps root inner hfs hroot hps hi).readDir q hq
theorem altroot_confined_log_createDir :
    Preserves (LogBelow t ps) ((Altroot.fs root).createDir q) :=
  (altroot_confined_log t ps root inner hfs hroot hps hi).createDir q hq
theorem altroot_confined_log_openFile :
    Preserves (LogBelow t ps) ((Altroot.fs root).openFile q) :=
  (altroot_confined_log t ps root inner hfs hroot hps hi).openFile q hq
theorem altroot_confined_log_createFile :
    Preserves (LogBelow t ps) ((Altroot.fs root).createFile q) :=
  (altroot_confined_log t ps root inner hfs hroot hps hi).createFile q hq
theorem altroot_confined_log_appendFile :
    Preserves (LogBelow t ps) ((Altroot.fs root).appendFile q) :=
  (altroot_confined_log t ps root inner hfs hroot hps hi).appendFile q hq
theorem altroot_confined_log_metadata :
    Preserves (LogBelow t ps) ((Altroot.fs root).metadata q) :=
  (altroot_confined_log t ps root inner hfs hroot hps hi).metadata q (Or.inl hq)
theorem altroot_confined_log_setCreationTime (x : Int) :
    Preserves (LogBelow t ps) ((Altroot.fs root).setCreationTime q x) :=
  (altroot_confined_log t ps root inner hfs hroot hps hi).setCreationTime q x hq
theorem altroot_confined_log_setModificationTime (x : Int) :
    Preserves (LogBelow t ps) ((Altroot.fs root).setModificationTime q x) :=
  (altroot_confined_log t ps root inner hfs hroot hps hi).setModificationTime q x hq
theorem altroot_confined_log_setAccessTime (x : Int) :
    Preserves (LogBelow t ps) ((Altroot.fs root).setAccessTime q x) :=
  (altroot_confined_log t ps root inner hfs hroot hps hi).setAccessTime q x hq
theorem altroot_confined_log_exists :
    Preserves (LogBelow t ps) ((Altroot.fs root).exists_ q) :=
  (altroot_confined_log t ps root inner hfs hroot hps hi).exists_ q (Or.inl hq)
theorem altroot_confined_log_removeFile :
    Preserves (LogBelow t ps) ((Altroot.fs root).removeFile q) :=
  (altroot_confined_log t ps root inner hfs hroot hps hi).removeFile q hq
theorem altroot_confined_log_removeDir :
    Preserves (LogBelow t ps) ((Altroot.fs root).removeDir q) :=
  (altroot_confined_log t ps root inner hfs hroot hps hi).removeDir q hq
/-- `copy_file`: any canonical destination (for `""` no call is made) -/
theorem altroot_confined_log_copyFile (d : Str) (hd : Canon d) :
    Preserves (LogBelow t ps) ((Altroot.fs root).copyFile q d) :=
  (altroot_confined_log t ps root inner hfs hroot hps hi).copyFile q d hq hd
/-- write handles handed out by the altroot stay confined -/
theorem altroot_confined_log_handles :
    Returns ((Altroot.fs root).createFile q) (HandleOK (LogBelow t ps)) ∧
    Returns ((Altroot.fs root).appendFile q) (HandleOK (LogBelow t ps)) :=
  ⟨(altroot_confined_log t ps root inner hfs hroot hps hi).createHandle q hq,
   (altroot_confined_log t ps root inner hfs hroot hps hi).appendHandle q hq⟩

end spelled

/-! ### Non-vacuity -/

/-- a concrete altroot: directory "/r" of a recorded memory leaf -/
def exRoot : VPath := { fs := recordFS 0 (leafFS 0), fsId := 1, path := "/r".toList }
def exPs : List Str := ["r".toList]

/-- the hypotheses of `altroot_path_append`, `join_never_escapes`, `altroot_exact_*` hold -/
example : (∀ c ∈ exPs, GoodComp c) ∧ exRoot.path = renderC exPs ∧ Canon exRoot.path :=
  ⟨by decide, by decide, exPs, by decide, by decide⟩
example : Canon "/a/b".toList := ⟨["a".toList, "b".toList], by decide, by decide⟩
example : (Altroot.path exRoot "/a/b".toList).map (·.path) = .ok "/r/a/b".toList := by decide
/-- hostile join arguments from a canonical path of the altroot filesystem -/
example : joinInternal "/a".toList "../../../../etc/passwd".toList = .ok "/etc/passwd".toList ∧
    (Altroot.path exRoot "/etc/passwd".toList).map (·.path) = .ok "/r/etc/passwd".toList := by
  constructor <;> decide
example : joinInternal "/a".toList "//x/./..//..".toList = .ok [] ∧
    (Altroot.path exRoot []).map (·.path) = .ok "/r".toList := by
  constructor <;> decide

/-- the hypotheses of `altroot_confined_log` / `altroot_confined_strict` hold for `exRoot` -/
example : exRoot.fs = recordFS 0 (leafFS 0) ∧ exRoot.path = renderC exPs ∧
    (∀ c ∈ exPs, GoodComp c) ∧ (leafFS 0).AllPreserve (LogBelow 0 exPs) ∧
    (leafFS 0).AllPreserve (LogConfined 0 exPs) :=
  ⟨rfl, by decide, by decide, leafFS_logAll 0 0 _, leafFS_logAll 0 0 _⟩

/-- … so the conclusion holds for it -/
example : (Altroot.fs exRoot).PresAt (LogBelow 0 exPs) Canon (fun _ => False) :=
  altroot_confined_log 0 exPs exRoot (leafFS 0) rfl (by decide) (by decide) (leafFS_logAll 0 0 _)

/-- the hypothesis of the general form `altroot_confined` is satisfiable as well -/
example : ({ fs := leafFS 0, fsId := 1, path := "/r".toList } : VPath).fs.PresAt
    (LogBelow 0 exPs) (BelowC exPs) (Ancestor exPs) :=
  (leafFS_logAll 0 0 _).presAt _ _

/-- the invariant is not trivially true: it starts true and a call outside "/r" breaks it -/
example : LogBelow 0 exPs { leaves := [] } := by
  intro e he; simp at he
example : ¬ LogBelow 0 exPs
    { leaves := [], log := [{ tag := 0, method := .removeFile, path := "/etc".toList }] } := by
  intro h
  rcases h _ (List.mem_singleton.2 rfl) rfl with ⟨rest, he, _⟩ | ⟨hm, _⟩
  · simp [exPs] at he
  · cases hm

/-- a concrete run on a memory leaf holding the directories "" and "/r": the recorded calls of
`create_dir("/a")` through the altroot are the parent probe of "/r" and `create_dir("/r/a")`;
`create_dir("")` probes the directory above "/r" with the two observers (the second disjunct of
`LogBelow`) and then asks for "/r" itself -/
def exDir : Entry :=
  { ftype := .dir, content := [], created := .now, modified := .unset, accessed := .unset }
def exWorld : World :=
  { leaves := [{ kind := .mem, files := [("/r".toList, exDir), ([], exDir)] }] }

example : ((Altroot.fs exRoot).createDir "/a".toList exWorld).1 = .ok () ∧
    (((Altroot.fs exRoot).createDir "/a".toList exWorld).2.log.map fun e => (e.method, e.path))
      = [(.exists_, "/r".toList), (.metadata, "/r".toList), (.createDir, "/r/a".toList)] := by
  constructor <;> decide
example : (((Altroot.fs exRoot).createDir [] exWorld).2.log.map fun e => (e.method, e.path))
    = [(.exists_, []), (.metadata, []), (.createDir, "/r".toList)] := by decide

end Vfs.C07
