/-
  C14 over WHOLE SCRIPTS — read handles (part 1: specification, script theorems, corollaries).

  1. AN INDEPENDENT SPECIFICATION of `std::io::Cursor<&[u8]>` as `Read + Seek`, written from the
     std documentation by structural recursion (no `RHandle.*`, `cursorRead`, `cursorSeek`,
     `List.drop`, `List.take` in it):
       `ROp  = read n | seek s`,  `ROut = bytes b | moved pos | invalidSeek`,
       `rspecRead content pos n`  : skip `pos` bytes, then copy at most `n` (structural recursion),
       `rspecSeek len pos s`      : Start never fails; Current / End: `none` when the target is
                                    negative or does not fit a `u64`,
       `rspecStep content pos op : ROut × Nat`,  `rspecRun content pos ops : List (ROut × Nat)`
       (the outcome of every call with the position after it).
     MODEL SIDE: `ROp.apply r op` (the answer of `RHandle.read` / `RHandle.seek` as a
     `Res Bytes ⊕ Res Nat`, and the handle afterwards), `runROps r ops` (the trace: every answer
     with the handle's position after the call, and the final handle).
  2. `read_script_is_cursor`  (hyp.: `Good r`, `r.content.length < 2^64`; ANY position, ANY script)
       the trace of the model is, call by call, the specification's trace (`ROut.toModel`:
       `bytes b ↦ Ok(b)`, `moved n ↦ Ok(n)`, `invalidSeek ↦ Err(io, no path)`), and the final handle
       is the start handle with the specification's final position.
       `read_script_is_cursor_63` the same under the task's hypothesis `< 2^63`.
     Sanity of the specification (it is the cursor std documents): `rspecRead_eq`
     (= `content[pos..].take n`), `rspecRead_length` (= `min n (len - pos)`), `rspecRead_getElem?`.
     Corollaries, each AFTER ANY SCRIPT `pre` (the handle reached is again good, same content):
       (a) `script_read_contiguous`  a read of `n` returns `Ok(b)` with `b.length = k`,
           `k = min n (len - pos)`, `k ≤ n`, `pos + k ≤ len` when `k > 0`, and
           `b[j] = content[pos + j]` for every `j < k` (contiguous, in order, in range); position
           becomes `pos + k`.
       (b) `script_read_past_end`    at or past the end: `Ok([])`, handle unchanged.
       (c) `script_seek_before_start` Current / End seek landing before 0: `Err(io)`, handle
           unchanged; `script_seek_past_end`: any target in `[0, 2^64)` — past the end included —
           is accepted and becomes the position.
       (d) `reads_concat`  reads of positive sizes and no seeks from a good handle: when the last
           read returned 0 bytes, the concatenation of all results is exactly the rest of the
           content (`content.drop pos`; the whole content from position 0: `reads_concat_fresh`);
           `reads_concat_prefix`: in any case it is the next `Σ sizes` bytes.
     BAD handles (PhysicalFS `File::open` on a directory): `bad_script_all_fail` — every call of
     every script fails with `Err(io)` and the handle never moves.
  3. Non-vacuity by `decide`: a script with End-relative seeks (negative and positive offsets),
     a failing seek before the start, reads beyond the data, on both specification and model.

  NOT PROVED HERE: anything about positions that do not fit a `u64` given to `seek(Start(o))`
  (`o : Nat` in the model stands for a `u64`; the specification, like the model, accepts any `o`);
  `read_to_end` inside scripts (single-call fact `C04.readToEnd_fresh`). Write handles and the
  backends are in Props/C14ScriptsWrite.lean, C14ScriptsBackends.lean, C14ScriptsOverlay.lean.
-/
import VfsModel.Props.C04
namespace Vfs.C14

/-! ## 1. the specification -/

inductive ROp where
  | read (n : Nat)
  | seek (s : SeekFrom)
  deriving DecidableEq, Repr

/-- what a call answers: the bytes of a read, the new position of a seek, or "invalid seek to a
negative or overflowing position" -/
inductive ROut where
  | bytes (b : Bytes)
  | moved (pos : Nat)
  | invalidSeek
  deriving DecidableEq, Repr

/-- `Cursor::read` into a buffer of `n` bytes at position `pos`: the first `pos` bytes are
skipped (nothing is left when the position is at or past the end), then bytes are copied in order
until the buffer is full or the data ends -/
def rspecRead : Bytes → Nat → Nat → Bytes
  | [], _, _ => []
  | _ :: rest, pos + 1, n => rspecRead rest pos n
  | _ :: _, 0, 0 => []
  | b :: rest, 0, n + 1 => b :: rspecRead rest 0 n

/-- an integer as a `u64` position: `none` when negative or too large -/
def u64OfInt : Int → Option Nat
  | .ofNat t => if t < 18446744073709551616 then some t else none
  | .negSucc _ => none

/-- `Cursor::seek`: `Start(o)` sets the position; `Current(o)` / `End(o)` add the signed offset to
the position / the length, and fail when the result is negative or does not fit a `u64` -/
def rspecSeek (len pos : Nat) : SeekFrom → Option Nat
  | .start o => some o
  | .cur o => u64OfInt ((pos : Int) + o)
  | .fromEnd o => u64OfInt ((len : Int) + o)

/-- one call: the answer and the position afterwards (a failing seek leaves the position) -/
def rspecStep (content : Bytes) (pos : Nat) : ROp → ROut × Nat
  | .read n => (.bytes (rspecRead content pos n), pos + (rspecRead content pos n).length)
  | .seek s =>
    match rspecSeek content.length pos s with
    | some t => (.moved t, t)
    | none => (.invalidSeek, pos)

/-- a script: every answer with the position after the call -/
def rspecRun (content : Bytes) (pos : Nat) : List ROp → List (ROut × Nat)
  | [] => []
  | op :: rest => rspecStep content pos op :: rspecRun content (rspecStep content pos op).2 rest

/-- the position after a script -/
def rspecPos (content : Bytes) (pos : Nat) : List ROp → Nat
  | [] => pos
  | op :: rest => rspecPos content (rspecStep content pos op).2 rest

/-! ### the specification is the cursor std documents -/

theorem rspecRead_eq (content : Bytes) (pos n : Nat) :
    rspecRead content pos n = (content.drop pos).take n := by
  induction content generalizing pos n with
  | nil => simp [rspecRead]
  | cons b rest ih =>
    cases pos with
    | succ p => simp [rspecRead, ih]
    | zero =>
      cases n with
      | zero => simp [rspecRead]
      | succ k => simp [rspecRead, ih]

theorem rspecRead_length (content : Bytes) (pos n : Nat) :
    (rspecRead content pos n).length = min n (content.length - pos) := by
  rw [rspecRead_eq, List.length_take, List.length_drop]

/-- the `j`-th byte returned is the byte at `pos + j` of the content -/
theorem rspecRead_getElem? (content : Bytes) (pos n j : Nat) (hj : j < min n (content.length - pos)) :
    (rspecRead content pos n)[j]? = content[pos + j]? := by
  rw [rspecRead_eq, List.getElem?_take, if_pos (by omega), List.getElem?_drop]

theorem rspecRead_past_end (content : Bytes) (pos n : Nat) (h : content.length ≤ pos) :
    rspecRead content pos n = [] := by
  apply List.eq_nil_of_length_eq_zero
  rw [rspecRead_length]; omega

theorem u64OfInt_eq (x : Int) :
    u64OfInt x = if x < 0 ∨ x ≥ 18446744073709551616 then none else some x.toNat := by
  cases x with
  | ofNat t =>
    show (if t < 18446744073709551616 then some t else none) =
      if (t : Int) < 0 ∨ (t : Int) ≥ 18446744073709551616 then none else some (t : Int).toNat
    rw [Int.toNat_natCast]
    by_cases ht : t < 18446744073709551616
    · rw [if_pos ht, if_neg (by omega)]
    · rw [if_neg ht, if_pos (by omega)]
  | negSucc t =>
    show none = _
    rw [if_pos (Or.inl (Int.negSucc_lt_zero t))]

theorem rspecSeek_cur (len pos : Nat) (o : Int) :
    rspecSeek len pos (.cur o) =
      if (pos : Int) + o < 0 ∨ (pos : Int) + o ≥ 18446744073709551616 then none
      else some ((pos : Int) + o).toNat := u64OfInt_eq _

theorem rspecSeek_end (len pos : Nat) (o : Int) :
    rspecSeek len pos (.fromEnd o) =
      if (len : Int) + o < 0 ∨ (len : Int) + o ≥ 18446744073709551616 then none
      else some ((len : Int) + o).toNat := u64OfInt_eq _

theorem rspecRun_append (content : Bytes) (pos : Nat) (a b : List ROp) :
    rspecRun content pos (a ++ b) = rspecRun content pos a ++ rspecRun content (rspecPos content pos a) b := by
  induction a generalizing pos with
  | nil => rfl
  | cons op rest ih => simp only [List.cons_append, rspecRun, rspecPos, ih]

theorem rspecPos_append (content : Bytes) (pos : Nat) (a b : List ROp) :
    rspecPos content pos (a ++ b) = rspecPos content (rspecPos content pos a) b := by
  induction a generalizing pos with
  | nil => rfl
  | cons op rest ih => simp only [List.cons_append, rspecPos, ih]

/-! ## 2. the model side -/

/-- an answer of the model: of a read (`Res Bytes`) or of a seek (`Res Nat`) -/
abbrev RAns := Res Bytes ⊕ Res Nat

/-- what the specification's answers look like at the Rust interface -/
def ROut.toModel : ROut → RAns
  | .bytes b => .inl (.ok b)
  | .moved n => .inr (.ok n)
  | .invalidSeek => .inr (fail .io)

/-- one call through the handle: the answer and the handle afterwards -/
def ROp.apply (r : RHandle) : ROp → RAns × RHandle
  | .read n => (.inl (r.read n).1, (r.read n).2)
  | .seek s => (.inr (r.seek s).1, (r.seek s).2)

/-- a script through the handle: every answer with the handle's position after the call, and the
final handle -/
def runROps (r : RHandle) : List ROp → List (RAns × Nat) × RHandle
  | [] => ([], r)
  | op :: rest =>
    (((op.apply r).1, (op.apply r).2.pos) :: (runROps (op.apply r).2 rest).1,
      (runROps (op.apply r).2 rest).2)

theorem runROps_append (r : RHandle) (a b : List ROp) :
    runROps r (a ++ b) =
      ((runROps r a).1 ++ (runROps (runROps r a).2 b).1, (runROps (runROps r a).2 b).2) := by
  induction a generalizing r with
  | nil => rfl
  | cons op rest ih => simp only [List.cons_append, runROps, ih]

/-- **one call is the specification's call** -/
theorem step_is_cursor (r : RHandle) (op : ROp) (hg : Good r) (hlen : r.content.length < u64Max) :
    op.apply r = ((rspecStep r.content r.pos op).1.toModel,
      { r with pos := (rspecStep r.content r.pos op).2 }) := by
  cases op with
  | read n =>
    obtain ⟨h1, h2, h3⟩ := read_is_cursor r n hg hlen
    have hb : (r.read n).2.bad = r.bad := by
      unfold RHandle.read
      split
      · rfl
      · split
        · rfl
        · split <;> rfl
    have hcr : cursorRead r.content r.pos n = rspecRead r.content r.pos n := by
      rw [rspecRead_eq]; rfl
    simp only [ROp.apply, rspecStep, ROut.toModel]
    rw [h1, hcr]
    congr 1
    cases hr : r.read n with
    | mk a r' =>
      rw [hr] at h2 h3 hb
      cases r' with
      | mk c p b =>
        simp only at h2 h3 hb
        subst h3 hb
        rw [h2, hcr]
  | seek s =>
    obtain ⟨h1, h2, h3, h4⟩ := seek_is_cursor r s hg
    have hb : (r.seek s).2.bad = r.bad := by
      unfold RHandle.seek
      split
      · rfl
      · cases s with
        | start o => rfl
        | cur o => simp only; split <;> rfl
        | fromEnd o => simp only; split <;> rfl
    have hspec : cursorSeek r.content.length r.pos s =
        (match rspecSeek r.content.length r.pos s with
          | some t => .ok t
          | none => fail .io) := by
      cases s with
      | start o => rfl
      | cur o =>
        rw [rspecSeek_cur]
        unfold cursorSeek u64Max
        dsimp only
        by_cases h : (r.pos : Int) + o < 0 ∨ (r.pos : Int) + o ≥ 18446744073709551616
        · rw [if_pos h, if_neg (by omega)]
        · rw [if_neg h, if_pos (by omega)]
      | fromEnd o =>
        rw [rspecSeek_end]
        unfold cursorSeek u64Max
        dsimp only
        by_cases h : (r.content.length : Int) + o < 0 ∨ (r.content.length : Int) + o ≥ 18446744073709551616
        · rw [if_pos h, if_neg (by omega)]
        · rw [if_neg h, if_pos (by omega)]
    simp only [ROp.apply, rspecStep]
    cases ht : rspecSeek r.content.length r.pos s with
    | some t =>
      rw [ht] at hspec
      have hok : (r.seek s).1 = .ok t := by rw [h1, hspec]
      have hp := h2 t hok
      simp only [ROut.toModel]
      rw [hok]
      congr 1
      cases hr : r.seek s with
      | mk a r' =>
        rw [hr] at hp h4 hb
        cases r' with
        | mk c p b =>
          simp only at hp h4 hb
          subst hp h4 hb
          rfl
    | none =>
      rw [ht] at hspec
      have hf : (r.seek s).1 = fail .io := by rw [h1, hspec]
      have hsame := h3 (by rw [hf]; rfl)
      simp only [ROut.toModel]
      rw [hf, hsame]

/-- the handle reached by any script is good again, over the same bytes -/
theorem runROps_good (r : RHandle) (ops : List ROp) (hg : Good r) (hlen : r.content.length < u64Max) :
    (runROps r ops).2 = { r with pos := rspecPos r.content r.pos ops } := by
  induction ops generalizing r with
  | nil => rfl
  | cons op rest ih =>
    simp only [runROps, rspecPos]
    rw [step_is_cursor r op hg hlen]
    simp only
    have hg' : Good { r with pos := (rspecStep r.content r.pos op).2 } := hg
    rw [ih _ hg' hlen]

/-- **read_script_is_cursor.** For every byte list shorter than 2^64, every good handle over it at
any position and every script of read and seek calls: the model answers, call by call, exactly
what the specification answers, with the same position after every call; the final handle is the
start handle moved to the specification's final position. -/
theorem read_script_is_cursor (r : RHandle) (ops : List ROp) (hg : Good r)
    (hlen : r.content.length < u64Max) :
    runROps r ops =
      ((rspecRun r.content r.pos ops).map (fun o => (o.1.toModel, o.2)),
        { r with pos := rspecPos r.content r.pos ops }) := by
  induction ops generalizing r with
  | nil => rfl
  | cons op rest ih =>
    simp only [runROps, rspecRun, rspecPos, List.map_cons]
    rw [step_is_cursor r op hg hlen]
    simp only
    have hg' : Good { r with pos := (rspecStep r.content r.pos op).2 } := hg
    rw [ih _ hg' hlen]

/-- the same under the hypothesis "shorter than 2^63" -/
theorem read_script_is_cursor_63 (r : RHandle) (ops : List ROp) (hg : Good r)
    (hlen : r.content.length < 2 ^ 63) :
    runROps r ops =
      ((rspecRun r.content r.pos ops).map (fun o => (o.1.toModel, o.2)),
        { r with pos := rspecPos r.content r.pos ops }) :=
  read_script_is_cursor r ops hg (by unfold u64Max; omega)

/-! ## 3. the property's words, after any script -/

section after
variable (r : RHandle) (pre : List ROp) (hg : Good r) (hlen : r.content.length < u64Max)
include hg hlen

/-- (a) **contiguous, in order, in range.** After any script, a read into `n` bytes returns
`Ok(b)` where `b` has `k = min n (len - pos)` bytes (so `k ≤ n`, and `pos + k ≤ len`), the `j`-th
of which is the byte `pos + j` of the content; the position advances by exactly `k`. -/
theorem script_read_contiguous (n : Nat) :
    let p := rspecPos r.content r.pos pre
    let k := min n (r.content.length - p)
    ∃ b, runROps r (pre ++ [.read n]) =
        ((runROps r pre).1 ++ [(.inl (.ok b), p + k)], { r with pos := p + k }) ∧
      b.length = k ∧ k ≤ n ∧ (0 < k → p + k ≤ r.content.length) ∧
      (∀ j, j < k → b[j]? = r.content[p + j]?) ∧
      b = (r.content.drop p).take k := by
  intro p k
  refine ⟨rspecRead r.content p n, ?_, rspecRead_length _ _ _, Nat.min_le_left _ _, by omega,
    fun j hj => rspecRead_getElem? _ _ _ _ hj, ?_⟩
  · rw [runROps_append, runROps_good r pre hg hlen]
    have hg' : Good { r with pos := p } := hg
    simp only [runROps]
    rw [step_is_cursor _ _ hg' hlen]
    simp only [rspecStep, ROut.toModel, rspecRead_length]
    rfl
  · rw [rspecRead_eq]
    rw [List.take_eq_take_iff, List.length_drop]
    omega

/-- (b) after any script that leaves the position at or past the end, a read returns 0 bytes and
the handle stays where it is -/
theorem script_read_past_end (n : Nat) (hend : r.content.length ≤ rspecPos r.content r.pos pre) :
    runROps r (pre ++ [.read n]) =
      ((runROps r pre).1 ++ [(.inl (.ok []), rspecPos r.content r.pos pre)], (runROps r pre).2) := by
  rw [runROps_append, runROps_good r pre hg hlen]
  have hg' : Good { r with pos := rspecPos r.content r.pos pre } := hg
  simp only [runROps]
  rw [step_is_cursor _ _ hg' hlen]
  simp only [rspecStep, ROut.toModel, rspecRead_past_end _ _ _ hend, List.length_nil, Nat.add_zero]

/-- (c) after any script, a seek relative to the position or to the end that would land before
the start is an error (`io`, no path) and leaves the handle where it is -/
theorem script_seek_before_start (s : SeekFrom)
    (hneg : (∃ o, s = .cur o ∧ (rspecPos r.content r.pos pre : Int) + o < 0) ∨
            (∃ o, s = .fromEnd o ∧ (r.content.length : Int) + o < 0)) :
    runROps r (pre ++ [.seek s]) =
      ((runROps r pre).1 ++ [(.inr (fail .io), rspecPos r.content r.pos pre)], (runROps r pre).2) := by
  rw [runROps_append, runROps_good r pre hg hlen]
  have hg' : Good { r with pos := rspecPos r.content r.pos pre } := hg
  simp only [runROps]
  rw [step_is_cursor _ _ hg' hlen]
  have hn : rspecSeek r.content.length (rspecPos r.content r.pos pre) s = none := by
    rcases hneg with ⟨o, rfl, h⟩ | ⟨o, rfl, h⟩
    · rw [rspecSeek_cur, if_pos (Or.inl h)]
    · rw [rspecSeek_end, if_pos (Or.inl h)]
  simp only [rspecStep, hn, ROut.toModel]

/-- (c') after any script, a seek to any target in `[0, 2^64)` — beyond the end of the data
included — succeeds, answers the target, and the target is the new position -/
theorem script_seek_past_end (s : SeekFrom) (t : Nat)
    (htgt : s = .start t ∨
      (∃ o, s = .cur o ∧ (rspecPos r.content r.pos pre : Int) + o = t ∧ t < u64Max) ∨
      (∃ o, s = .fromEnd o ∧ (r.content.length : Int) + o = t ∧ t < u64Max)) :
    runROps r (pre ++ [.seek s]) =
      ((runROps r pre).1 ++ [(.inr (.ok t), t)], { r with pos := t }) := by
  rw [runROps_append, runROps_good r pre hg hlen]
  have hg' : Good { r with pos := rspecPos r.content r.pos pre } := hg
  simp only [runROps]
  rw [step_is_cursor _ _ hg' hlen]
  have hn : rspecSeek r.content.length (rspecPos r.content r.pos pre) s = some t := by
    unfold u64Max at htgt
    rcases htgt with rfl | ⟨o, rfl, h, hl⟩ | ⟨o, rfl, h, hl⟩
    · rfl
    · rw [rspecSeek_cur, if_neg (by omega), h]; rfl
    · rw [rspecSeek_end, if_neg (by omega), h]; rfl
  simp only [rspecStep, hn, ROut.toModel]

end after

/-! ### (d) reading a file to its end in pieces -/

/-- the byte lists returned by successive reads (a failing read contributes nothing) -/
def readOuts (r : RHandle) (ns : List Nat) : List Bytes :=
  (runROps r (ns.map .read)).1.filterMap fun a =>
    match a.1 with
    | .inl (.ok b) => some b
    | _ => none

theorem readOuts_cons (r : RHandle) (n : Nat) (ns : List Nat) (hg : Good r)
    (hlen : r.content.length < u64Max) :
    readOuts r (n :: ns) = rspecRead r.content r.pos n ::
      readOuts { r with pos := r.pos + (rspecRead r.content r.pos n).length } ns := by
  unfold readOuts
  simp only [List.map_cons, runROps]
  rw [step_is_cursor r (.read n) hg hlen]
  simp only [rspecStep, ROut.toModel, List.filterMap_cons]

/-- in any case the concatenation is the next `Σ sizes` bytes: nothing skipped, repeated or
reordered -/
theorem reads_concat_prefix (r : RHandle) (ns : List Nat) (hg : Good r)
    (hlen : r.content.length < u64Max) :
    (readOuts r ns).flatten = (r.content.drop r.pos).take ns.sum := by
  induction ns generalizing r with
  | nil => simp [readOuts, runROps]
  | cons n ns ih =>
    have hg' : Good { r with pos := r.pos + (rspecRead r.content r.pos n).length } := hg
    rw [readOuts_cons r n ns hg hlen, List.flatten_cons, ih _ hg' hlen]
    simp only [List.sum_cons, rspecRead_eq, List.length_take]
    rw [← List.drop_drop]
    generalize List.drop r.pos r.content = l
    by_cases ha : n ≤ l.length
    · rw [Nat.min_eq_left ha, List.take_add]
    · have hl : l.length ≤ n := by omega
      rw [Nat.min_eq_right hl, List.drop_length, List.take_nil, List.append_nil,
        List.take_of_length_le hl, List.take_of_length_le (by omega)]

/-- (d) **reads_concat.** Reads of positive sizes, no seeks, from a good handle: once a read has
returned 0 bytes (the last one), the concatenation of everything returned is exactly the content
from the starting position on -/
theorem reads_concat (r : RHandle) (ns : List Nat) (hg : Good r)
    (hlen : r.content.length < u64Max) (hpos : ∀ n ∈ ns, 0 < n)
    (hlast : (readOuts r ns).getLast? = some []) :
    (readOuts r ns).flatten = r.content.drop r.pos := by
  induction ns generalizing r with
  | nil => simp [readOuts, runROps] at hlast
  | cons n ns ih =>
    rw [readOuts_cons r n ns hg hlen] at hlast ⊢
    have hn : 0 < n := hpos n (by simp)
    cases ns with
    | nil =>
      simp only [readOuts, List.map_nil, runROps, List.filterMap_nil, List.getLast?_singleton,
        Option.some.injEq] at hlast
      have hl := rspecRead_length r.content r.pos n
      rw [hlast] at hl
      simp only [List.length_nil] at hl
      have : r.content.length ≤ r.pos := by omega
      simp [readOuts, runROps, hlast, List.drop_of_length_le this]
    | cons n' ns' =>
      have hg' : Good { r with pos := r.pos + (rspecRead r.content r.pos n).length } := hg
      have hne : readOuts { r with pos := r.pos + (rspecRead r.content r.pos n).length } (n' :: ns') ≠ [] := by
        rw [readOuts_cons _ _ _ hg' hlen]; simp
      rw [List.getLast?_cons_of_ne_nil hne] at hlast
      rw [List.flatten_cons, ih _ hg' hlen (fun k hk => hpos k (by simp [hk])) hlast]
      simp only [rspecRead_eq, List.length_take]
      rw [← List.drop_drop]
      generalize List.drop r.pos r.content = l
      by_cases ha : n ≤ l.length
      · rw [Nat.min_eq_left ha, List.take_append_drop]
      · have hl : l.length ≤ n := by omega
        rw [Nat.min_eq_right hl, List.drop_length, List.append_nil, List.take_of_length_le hl]

/-- from a freshly opened handle: exactly the content -/
theorem reads_concat_fresh (content : Bytes) (ns : List Nat) (hlen : content.length < u64Max)
    (hpos : ∀ n ∈ ns, 0 < n)
    (hlast : (readOuts { content := content, pos := 0 } ns).getLast? = some []) :
    (readOuts { content := content, pos := 0 } ns).flatten = content := by
  have := reads_concat { content := content, pos := 0 } ns rfl hlen hpos hlast
  simpa using this

/-- conversely the 0-byte read does come: as soon as the sizes read so far add up to the rest of
the content, every further read returns 0 bytes -/
theorem reads_end_reached (r : RHandle) (ns : List Nat) (n : Nat) (hg : Good r)
    (hlen : r.content.length < u64Max) (hsum : r.content.length - r.pos ≤ ns.sum) :
    (readOuts r (ns ++ [n])).getLast? = some [] := by
  induction ns generalizing r with
  | nil =>
    simp only [List.sum_nil, Nat.le_zero_eq] at hsum
    rw [List.nil_append, readOuts_cons r n [] hg hlen]
    simp only [readOuts, List.map_nil, runROps, List.filterMap_nil, List.getLast?_singleton]
    rw [rspecRead_past_end _ _ _ (by omega)]
  | cons k ks ih =>
    rw [List.cons_append, readOuts_cons r k _ hg hlen]
    have hg' : Good { r with pos := r.pos + (rspecRead r.content r.pos k).length } := hg
    have hne : readOuts { r with pos := r.pos + (rspecRead r.content r.pos k).length } (ks ++ [n]) ≠ [] := by
      cases ks with
      | nil => rw [List.nil_append, readOuts_cons _ _ _ hg' hlen]; simp
      | cons a as => rw [List.cons_append, readOuts_cons _ _ _ hg' hlen]; simp
    rw [List.getLast?_cons_of_ne_nil hne]
    apply ih _ hg' hlen
    simp only [rspecRead_length, List.sum_cons] at hsum ⊢
    omega

/-! ### bad handles (PhysicalFS: `File::open` on a directory) -/

/-- a handle whose reads fail: every call of every script answers `Err(io)`, nothing moves -/
theorem bad_script_all_fail (r : RHandle) (hb : r.bad = true) (ops : List ROp) :
    (runROps r ops).2 = r ∧
    ∀ a ∈ (runROps r ops).1, (a.1 = .inl (fail .io) ∨ a.1 = .inr (fail .io)) ∧ a.2 = r.pos := by
  induction ops with
  | nil => exact ⟨rfl, by simp [runROps]⟩
  | cons op rest ih =>
    have hstep : (op.apply r).2 = r ∧
        ((op.apply r).1 = .inl (fail .io) ∨ (op.apply r).1 = .inr (fail .io)) := by
      cases op with
      | read n => simp [ROp.apply, RHandle.read, hb]
      | seek s => simp [ROp.apply, RHandle.seek, hb]
    simp only [runROps, hstep.1]
    refine ⟨ih.1, ?_⟩
    intro a ha
    rcases List.mem_cons.1 ha with rfl | ha
    · exact ⟨hstep.2, rfl⟩
    · exact ih.2 a ha

/-! ## 4. non-vacuity -/

/-- seek to 2 before the end, read 5 (2 come), seek 3 past the end, read (0 bytes), seek before
the start relative to the end (error, position stays), seek back relative to the position, read 1,
absolute seek, read 2, read at the end -/
def exScript : List ROp :=
  [.seek (.fromEnd (-2)), .read 5, .seek (.fromEnd 3), .read 4, .seek (.fromEnd (-7)),
   .seek (.cur (-100)), .seek (.cur (-8)), .read 1, .seek (.start 1), .read 2, .read 0,
   .seek (.fromEnd 0), .read 9]

example : rspecRun [10, 11, 12, 13, 14] 0 exScript =
    [(.moved 3, 3), (.bytes [13, 14], 5), (.moved 8, 8), (.bytes [], 8), (.invalidSeek, 8),
     (.invalidSeek, 8), (.moved 0, 0), (.bytes [10], 1), (.moved 1, 1), (.bytes [11, 12], 3),
     (.bytes [], 3), (.moved 5, 5), (.bytes [], 5)] := by decide

example : runROps { content := [10, 11, 12, 13, 14], pos := 0 } exScript =
    ([(.inr (.ok 3), 3), (.inl (.ok [13, 14]), 5), (.inr (.ok 8), 8), (.inl (.ok []), 8),
      (.inr (fail .io), 8), (.inr (fail .io), 8), (.inr (.ok 0), 0), (.inl (.ok [10]), 1),
      (.inr (.ok 1), 1), (.inl (.ok [11, 12]), 3), (.inl (.ok []), 3), (.inr (.ok 5), 5),
      (.inl (.ok []), 5)],
     { content := [10, 11, 12, 13, 14], pos := 5 }) := by decide

/-- the hypotheses of `read_script_is_cursor` on that handle -/
example : Good { content := [10, 11, 12, 13, 14], pos := 0 } ∧
    ([10, 11, 12, 13, 14] : Bytes).length < u64Max := by
  refine ⟨rfl, ?_⟩
  unfold u64Max; decide

/-- `reads_concat`: reads of sizes 2, 2, 2, 2 over five bytes — the last returns 0 bytes -/
example : readOuts { content := [10, 11, 12, 13, 14], pos := 0 } [2, 2, 2, 2] =
    [[10, 11], [12, 13], [14], []] := by decide

example : (readOuts { content := [10, 11, 12, 13, 14], pos := 0 } [2, 2, 2, 2]).getLast? = some [] := by
  decide

/-- a bad handle -/
example : (runROps { content := [], pos := 0, bad := true } [.read 3, .seek (.start 1)]).1 =
    [(.inl (fail .io), 0), (.inr (fail .io), 0)] := by decide

end Vfs.C14

#print axioms Vfs.C14.read_script_is_cursor
#print axioms Vfs.C14.read_script_is_cursor_63
#print axioms Vfs.C14.script_read_contiguous
#print axioms Vfs.C14.script_read_past_end
#print axioms Vfs.C14.script_seek_before_start
#print axioms Vfs.C14.script_seek_past_end
#print axioms Vfs.C14.reads_concat
#print axioms Vfs.C14.reads_concat_fresh
#print axioms Vfs.C14.reads_concat_prefix
#print axioms Vfs.C14.reads_end_reached
#print axioms Vfs.C14.bad_script_all_fail
