/-
  C01 for an ALTROOT ON TOP OF AN OVERLAY — `alt(ovl(mem, …, mem))`: an `AltrootFS` whose root is
  the path `Q` of the overlay filesystem `Overlay.fs (layersN …)` over n ≥ 1 memory layers.

  PROVED (no sorry; axioms propext, Classical.choice, Quot.sound)
   * `Mut.shift Q op`: the operation with its path prefixed by `Q`.
   * `ostep_altroot_eq` (from `C07.altroot_exact_*`): for canonical `Q` and a canonical path `q`,
     a mutator at `q` through the altroot (trait level of the altroot) IS — equal as a state
     transformer — the user-level (`VfsPath`) mutator of the underlying filesystem at `Q ++ q`:
         ostep (Altroot.fs ⟨fs, idQ, Q⟩) op = vstep fs idQ (op.shift Q).
   * `vsub Q v`: the view restricted below `Q` (`vsub Q v q = v (Q ++ q)`), and
     `VContract.restrict`: a contract at `Q ++ q` relative to `v` is a contract at `q` relative
     to `vsub Q v` (for `Q` canonical outside ".whiteout", `q` canonical, non-root).
   * `altroot_over_overlay_contract`: in the setting of `overlay_contractN` (`OWN`, `OInv`,
     `ViewWF`), for `Q = renderC Qs` and an operation at `q = renderC (qs ++ [n])` with
     `OpPath (Qs ++ (qs ++ [n]))` (canonical, outside ".whiteout", no "_wo" components) and the
     O3 discipline at `Q ++ q`: the call through the altroot
       - ends in a world that is again in the setting (lower maps `LowerSame`, `OInv`, `ViewWF`),
       - obeys `VContract (oview …) (op.shift Q)` — the overlay's contract at `Q ++ q` —,
       - obeys `VContract (vsub Q (oview …)) op` — the contract AT `q` relative to the view
         restricted below `Q`: what a user of the altroot sees —,
       - and a failure is labelled `Q ++ q` (the altroot's methods hand the label of the
         underlying `VfsPath` up unchanged).
   * non-vacuity: the 3-layer world of Props/C09Refine.lean with the altroot at "/d".
  HYPOTHESES not needed: that `Q` is a directory of the view (if it is not, every call fails with
  the view unchanged, and the contract says so: the parent of `Q ++ q` is not a directory, or — for
  `qs = []` — `Q` itself is not).
  NOT PROVED: the user-level call THROUGH THE ALTROOT'S OWN `VfsPath` layer
  (`vstep (Altroot.fs ⟨ovl, idQ, Q⟩) id op`: one more parent probe, which goes through the altroot
  to the overlay, and one more relabelling with `q`) — only the altroot's trait methods, which is
  what `altroot_exact_*` speaks about; operations on the altroot's own root `q = ""` (`create_dir("")`, `remove_dir("")`:
  outside `OpPath`); physical or nested layers below the overlay.
-/
import VfsModel.Props.C01Overlay
import VfsModel.Props.C07
set_option linter.unusedSimpArgs false
set_option linter.unusedVariables false
set_option linter.unusedSectionVars false
namespace Vfs.C01
open Vfs Vfs.Overlay Vfs.C02 Vfs.C09

/-- the operation with its path prefixed by `Q` -/
def _root_.Vfs.C02.Mut.shift (Q : Str) : Mut → Mut
  | .createDir p => .createDir (Q ++ p)
  | .write p bs => .write (Q ++ p) bs
  | .append p bs => .append (Q ++ p) bs
  | .removeFile p => .removeFile (Q ++ p)
  | .removeDir p => .removeDir (Q ++ p)

theorem shift_path (Q : Str) (op : Mut) : (op.shift Q).path = Q ++ op.path := by
  cases op <;> rfl

theorem shift_needsTarget (Q : Str) (op : Mut) : needsTarget (op.shift Q) = needsTarget op := by
  cases op <;> rfl

/-- **exactness**: a mutator at `q` through the altroot rooted at `Q` IS the user-level mutator
of the underlying filesystem at `Q ++ q` -/
theorem ostep_altroot_eq (fs : FS) (idQ : Nat) {Q : Str} (hQ : Canon Q) (op : Mut)
    (hq : Canon op.path) :
    ostep (Altroot.fs ⟨fs, idQ, Q⟩) op = vstep fs idQ (op.shift Q) := by
  cases op with
  | createDir p => exact C07.altroot_exact_createDir ⟨fs, idQ, Q⟩ p hQ hq
  | write p bs =>
    show ((Altroot.fs ⟨fs, idQ, Q⟩).createFile p >>= fun hd => hd.writeAllAndDrop bs) = _
    rw [C07.altroot_exact_createFile ⟨fs, idQ, Q⟩ p hQ hq]; rfl
  | append p bs =>
    show ((Altroot.fs ⟨fs, idQ, Q⟩).appendFile p >>= fun hd => hd.writeAllAndDrop bs) = _
    rw [C07.altroot_exact_appendFile ⟨fs, idQ, Q⟩ p hQ hq]; rfl
  | removeFile p => exact C07.altroot_exact_removeFile ⟨fs, idQ, Q⟩ p hQ hq
  | removeDir p => exact C07.altroot_exact_removeDir ⟨fs, idQ, Q⟩ p hQ hq

/-! ### the view below `Q` -/

/-- the view restricted below `Q` -/
def vsub (Q : Str) (v : View) : View := fun q => v (Q ++ q)

/-- `Q` keeps visible paths visible: `Q` is "" or an absolute canonical path outside ".whiteout" -/
theorem vis_append {Qs : List Str} (hQs : ∀ c ∈ Qs, GoodComp c) (hhead : Qs.head? ≠ some woDir)
    {x : Str} (hx : Vis x) : Vis (renderC Qs ++ x) := by
  cases Qs with
  | nil => simpa using hx
  | cons c cs =>
    right
    refine ⟨by simp, ?_⟩
    have hrw : renderC (c :: cs) ++ x = '/' :: (c ++ (renderC cs ++ x)) := by
      simp [List.append_assoc]
    rw [hrw, firstComp_cons c _ (hQs c (by simp)).noSlash ?_]
    · intro h0; apply hhead; simp [h0]
    · rcases hx with rfl | hx
      · simpa using renderC_nil_or_head cs
      · right
        cases cs with
        | nil =>
          have := hx.1
          simpa using this
        | cons d ds => simp

section restrict
variable {Qs qs : List Str} {n : Str} (hp : OpPath (Qs ++ (qs ++ [n])))
include hp

theorem shift_parent :
    parentInternal (renderC Qs ++ renderC (qs ++ [n])) = renderC Qs ++ parentInternal (renderC (qs ++ [n])) := by
  have hp' : OpPath ((Qs ++ qs) ++ [n]) := by rw [List.append_assoc]; exact hp
  have hqs : ∀ c ∈ qs, GoodComp c := fun c hc => hp'.hds c (by simp [hc])
  rw [← renderC_append, ← List.append_assoc, hp'.parent, parent_snoc qs n hqs hp'.hn, renderC_append]

/-- **a contract at `Q ++ q` relative to `v` is a contract at `q` relative to the view below `Q`** -/
theorem VContract.restrict {v v' : View} {op : Mut} (hpath : op.path = renderC (qs ++ [n]))
    {r : Res Unit} (hc : VContract v (op.shift (renderC Qs)) r v') :
    VContract (vsub (renderC Qs) v) op r (vsub (renderC Qs) v') := by
  have hQs : ∀ c ∈ Qs, GoodComp c := fun c hc => hp.good c (by simp [hc])
  have hhead : Qs.head? ≠ some woDir := by
    intro h0; apply hp.head
    cases Qs with
    | nil => simp at h0
    | cons c cs => simpa using h0
  have hpar := shift_parent hp
  have hvis : ∀ {x}, Vis x → Vis (renderC Qs ++ x) := fun hx => vis_append hQs hhead hx
  -- the predicates, translated
  have hpre : VPre (vsub (renderC Qs) v) op ↔ VPre v (op.shift (renderC Qs)) := by
    cases op with
    | createDir p =>
      simp only [Mut.path] at hpath; subst hpath
      simp only [VPre, Mut.shift, VIsDir, VAbsent, vsub, hpar]
    | write p bs =>
      simp only [Mut.path] at hpath; subst hpath
      simp only [VPre, Mut.shift, VIsDir, VAbsent, vsub, hpar]
    | append p bs => simp only [VPre, Mut.shift, VIsFile, vsub]
    | removeFile p => simp only [VPre, Mut.shift, VIsFile, vsub]
    | removeDir p =>
      simp only [VPre, Mut.shift, VIsDir, VNoChildren, vsub, List.append_assoc]
  have hsame : VSame v v' → VSame (vsub (renderC Qs) v) (vsub (renderC Qs) v') :=
    fun hs x hx => hs _ (hvis hx)
  have hframe : ∀ p, VFrame v v' (renderC Qs ++ p) →
      VFrame (vsub (renderC Qs) v) (vsub (renderC Qs) v') p :=
    fun p hf x hx hne => hf _ (hvis hx) (fun h0 => hne (List.append_cancel_left h0))
  have heff : VEffect v v' (op.shift (renderC Qs)) →
      VEffect (vsub (renderC Qs) v) (vsub (renderC Qs) v') op := by
    intro ⟨hnamed, hfr⟩
    rw [shift_path] at hfr
    refine ⟨?_, hframe _ hfr⟩
    cases op with
    | createDir p =>
      simpa only [VNamed, Mut.shift, VIsDir, VNoChildren, vsub, List.append_assoc] using hnamed
    | write p bs => simpa only [VNamed, Mut.shift, VHasFile, vsub] using hnamed
    | append p bs => simpa only [VNamed, Mut.shift, VHasFile, vsub] using hnamed
    | removeFile p => simpa only [VNamed, Mut.shift, VAbsent, vsub] using hnamed
    | removeDir p => simpa only [VNamed, Mut.shift, VAbsent, vsub] using hnamed
  have hparent : VIsDir (vsub (renderC Qs) v) (parentInternal op.path) →
      VIsDir v (parentInternal (op.shift (renderC Qs)).path) := by
    intro hd
    rw [shift_path, hpath, hpar]
    rw [hpath] at hd
    exact hd
  exact {
    ok_iff := hc.ok_iff.trans hpre.symm
    effect := fun hr => heff (hc.effect hr)
    unchanged := fun hr => hsame (hc.unchanged hr)
    missing := fun hn hd ha =>
      hc.missing (by rw [shift_needsTarget]; exact hn) (hparent hd) (by rw [shift_path]; exact ha)
    occupied := by
      intro q hq hd
      subst hq
      have := hc.occupied (renderC Qs ++ q) rfl (hparent hd)
      exact this
    no_panic := hc.no_panic }

end restrict

/-! ### the contract through the altroot -/

section settingN
variable {w : World} {u idu : Nat} {mu : FMap} {is ids : List Nat} {ms : List FMap}
  (h : OWN w (u :: is) (idu :: ids) (mu :: ms)) (inv : OInv mu ms)
  (hv : ViewWF (oview (mu :: ms)))
  {Qs qs : List Str} {n : Str} (hp : OpPath (Qs ++ (qs ++ [n])))
include h inv hv hp

/-- **altroot_over_overlay_contract.** An `AltrootFS` rooted at the canonical path `Q =
renderC Qs` of the overlay over n ≥ 1 memory layers; a mutator at the canonical path `q =
renderC (qs ++ [n])` through the altroot is the overlay's user-level mutator at `Q ++ q`; hence it
obeys the overlay's contract at `Q ++ q` relative to the n-layer view, and the contract at `q`
relative to the view restricted below `Q`; the world is in the setting again; a failure is
labelled `Q ++ q`. -/
theorem altroot_over_overlay_contract (idQ : Nat) (op : Mut) (hpath : op.path = renderC (qs ++ [n]))
    (hdisc : O3Free (oview (mu :: ms)) (op.shift (renderC Qs))) :
    ∃ r w' mu' ms',
      ostep (Altroot.fs ⟨Overlay.fs (layersN (u :: is) (idu :: ids)), idQ, renderC Qs⟩) op w
        = (r, w') ∧
      vstep (Overlay.fs (layersN (u :: is) (idu :: ids))) idQ (op.shift (renderC Qs)) w = (r, w') ∧
      OWN w' (u :: is) (idu :: ids) (mu' :: ms') ∧ LowerSame ms ms' ∧
      ((∀ p bs, op ≠ .append p bs) → ms' = ms) ∧
      OInv mu' ms' ∧ ViewWF (oview (mu' :: ms')) ∧
      VContract (oview (mu :: ms)) (op.shift (renderC Qs)) r (oview (mu' :: ms')) ∧
      VContract (vsub (renderC Qs) (oview (mu :: ms))) op r
        (vsub (renderC Qs) (oview (mu' :: ms'))) ∧
      (∀ k pth, r = .err k pth → pth = some (renderC Qs ++ op.path)) := by
  have hQs : ∀ c ∈ Qs, GoodComp c := fun c hc => hp.good c (by simp [hc])
  have hqn : ∀ c ∈ qs ++ [n], GoodComp c := fun c hc => hp.good c (by simp [hc])
  have hopQ : OpOK (op.shift (renderC Qs)) := by
    refine ⟨Qs ++ qs, n, by rw [List.append_assoc]; exact hp, ?_⟩
    rw [shift_path, hpath, ← renderC_append, List.append_assoc]
  obtain ⟨r, w', mu', ms', hrun, hown, hls, hms, inv', hv', hc, hlab, _⟩ :=
    vpath_overlay_contractN h inv hv idQ (op.shift (renderC Qs)) hopQ hdisc
  refine ⟨r, w', mu', ms', ?_, hrun, hown, hls, ?_, inv', hv', hc,
    VContract.restrict hp hpath hc, ?_⟩
  · rw [ostep_altroot_eq _ idQ ⟨Qs, hQs, rfl⟩ op (by rw [hpath]; exact ⟨_, hqn, rfl⟩)]
    exact hrun
  · intro hna
    apply hms
    intro p bs h0
    cases op <;> simp [Mut.shift] at h0
    exact hna _ _ rfl
  · intro k pth he
    rw [hlab k pth he, shift_path]

end settingN

/-! ### non-vacuity: the 3-layer world of Props/C09Refine.lean, altroot at "/d" -/

section example3

/-- the altroot over the overlay, rooted at "/d" (a directory split over layers 1 and 2) -/
def xAlt : FS := Altroot.fs ⟨xfs, 4, "/d".toList⟩

-- the hypotheses hold for a call of each kind ("/new", "/x", "/c", "/b" below "/d"; "/sub/deep"
-- below a missing parent)
example := altroot_over_overlay_contract xw_setting xw_inv xw_viewWF (Qs := ["d".toList])
  (qs := []) (n := "new".toList) (by decide) 4 (.createDir "/new".toList) rfl
  (by intro p hp; cases hp)
example := altroot_over_overlay_contract xw_setting xw_inv xw_viewWF (Qs := ["d".toList])
  (qs := []) (n := "x".toList) (by decide) 4 (.write "/x".toList [1, 2]) rfl
  (by intro p hp; cases hp)
example := altroot_over_overlay_contract xw_setting xw_inv xw_viewWF (Qs := ["d".toList])
  (qs := []) (n := "c".toList) (by decide) 4 (.append "/c".toList [9]) rfl
  (by intro p hp; cases hp)
example := altroot_over_overlay_contract xw_setting xw_inv xw_viewWF (Qs := ["d".toList])
  (qs := []) (n := "b".toList) (by decide) 4 (.removeFile "/b".toList) rfl
  (by intro p hp; injection hp with hp; subst hp; decide)
example := altroot_over_overlay_contract xw_setting xw_inv xw_viewWF (Qs := ["d".toList])
  (qs := ["sub".toList]) (n := "deep".toList) (by decide) 4 (.createDir "/sub/deep".toList) rfl
  (by intro p hp; cases hp)

/-- by evaluation: the outcomes through the altroot, the label of the failure, and the view
below "/d" before and after the append with copy-up from layer 2 -/
example :
    (ostep xAlt (.createDir "/new".toList) xw).1 = .ok () ∧
    (ostep xAlt (.removeFile "/b".toList) xw).1 = .ok () ∧
    (ostep xAlt (.createDir "/sub/deep".toList) xw).1 = .err .other (some "/d/sub/deep".toList) ∧
    (ostep xAlt (.createDir "/x".toList) xw).1 = .err .fileExists (some "/d/x".toList) ∧
    (vsub "/d".toList (oview [xU, xA, xB]) "/c".toList).map vcore = some (.file, [67]) ∧
    (vsub "/d".toList (oview (C10.mapsOfN (ostep xAlt (.append "/c".toList [9]) xw).2 [2, 0, 1]))
      "/c".toList).map vcore = some (.file, [67, 9]) := by
  refine ⟨?_, ?_, ?_, ?_, ?_, ?_⟩ <;> decide +kernel

end example3

section audit
#print axioms ostep_altroot_eq
#print axioms VContract.restrict
#print axioms altroot_over_overlay_contract
end audit

end Vfs.C01
