/-
  C13 (termination) for the PHYSICAL leaf model — fuel adequacy of the recursive `VfsPath`
  operations (`walk_dir`, `remove_dir_all`, `copy_dir`, `move_dir`) over `leafFS i` when leaf `i`
  is a physical leaf (`PhysLeafAt w i m`: the POSIX tree `m` of Leaf.lean, `Phys.*`).
  Props/C13.lean proves for every backend "a `.panic` of these functions can only be the
  out-of-fuel sentinel"; Props/C13Term.lean proves for the MEMORY leaf that the sentinel is
  unreachable with explicit fuel. This file does the latter for the physical leaf.

  METHOD. Not by the memory/physical simulation: the class simulation (Proofs/ClassSim*.lean,
  Props/C02Iter.lean) does not cover the operations that iterate over listings (`iter_stmt` is
  open there; its result relation `CRes` does distinguish `.panic`, but there is no theorem to
  transfer along). Instead:
   * walk: the physical leaf is a `TreeView` (Proofs/WalkGeneric.lean) — `phys_treeView`;
   * remove_dir_all: the predicate `RemoveDirAllOut` of C13.lean ("the run reaches the `0 =>`
     branch") is refuted by a key-length argument (`phys_removeDirAllOut_false`);
   * copy_dir / move_dir: `CopyItemsOut` is refuted by a generic counting argument over a tree
     view whose world stays in a set `S` (`copyItemsOut_false`), and over a source map that
     CHANGES outside the source subtree (`copyItemsOut_false_var`).

  PROVED (no sorry; axioms propext, Classical.choice, Quot.sound). `WF m`, `NodupKeys m` as in
  C13Term; `descCount m p` = number of keys strictly below `p`.
   1. `phys_walk_terminates` (hyp: PhysLeafAt, WF, NodupKeys; ANY path string): directory and
      fuel > descCount ⇒ `.ok` list of `.ok` items; any fuel > descCount (or fuel = m.length) ⇒
      not the sentinel; sentinel IFF directory ∧ fuel ≤ descCount (exact bound); world unchanged.
      `phys_walk_spec` (exactly the entries below `p`, each once, ancestors first),
      `phys_walk_short`, `phys_walk_not_dir` (file / absent / below a file ⇒ an error).
   2. `phys_remove_dir_all_terminates` (hyp: PhysLeafAt ONLY — no well-formedness —, fuel ≥ 1,
      `|k| < |p| + fuel` for every key): never `.panic`, ANY path string (root included).
      `…_fuel` (fuel > longest key), `…_keyFuel` (computed fuel `keyFuel m`).
   3. `phys_copy_dir_terminates_two`, `phys_move_dir_terminates_two`: source on a physical leaf
      `i` (WF, NodupKeys), destination on ANY other leaf `j` that exists (memory or physical, any
      content, any destination string, no canonicity), `sid ≠ did`; fuel > descCount ms S (move:
      also `|k| < |S| + fuel` for the final remove_dir_all): never `.panic`, EVERY kind of source.
      Weaker hypotheses than the memory theorems (no canonical keys / destination).
   4. `phys_copy_dir_terminates_same` / `…_same_canon`: source and destination on the SAME
      physical leaf with the same `Arc` (fast path `std::fs::copy` per file): '/' ∈ D, `D` not at or
      below `S`, `D` not a proper ancestor of `S`, relative parts joined unchanged (canonical keys),
      fuel > descCount ms S: never `.panic`.
   5. item 4 of the task (a `.panic` for a reason other than fuel): none found. `C13.phys_total`,
      `C13.leaf_no_panic` (every `Phys.*` function is total; `leafFS i` never panics while leaf `i`
      exists) and `C13.*_panic_is_fuel` already exclude every other source; the `unwrap`s of
      physical.rs are not reachable in the model (non-UTF-8 names are outside it). No witness.
   6. non-vacuity: `wP` (physical leaf holding `C11.mN`: depth 4, empty directory, empty file,
      siblings a / ab / a.b; a second physical leaf; a memory leaf): every theorem instantiated
      with hypotheses by `decide`, outcomes and exactness of the bounds evaluated by the kernel
      (walk 8 vs 9; remove_dir_all 3 vs 4; copy_dir 8 vs 9 and 5 vs 6).

  NOT PROVED
   * `move_dir` within ONE physical filesystem (`phys_move_dir_same_stmt`): there the fast path
     `std::fs::rename` answers; when it fails the generic route fails before its loop
     (`create_dir` of the destination or `walk_dir` of the source) — argued on paper, not proved.
   * same leaf with DIFFERENT `Arc` identities (two `PhysicalFS` values over one directory): the
     generic open/create/write route with a live write handle on the walked leaf.
   * item 3: altroot over a PHYSICAL leaf. (Altroot over a memory leaf: Props/C13Altroot.lean,
     unchanged.) The subtree simulation `AltSub` / `LeafRootSimT` is stated for memory leaves only;
     no physical analogue exists yet.
   * that `under S D = false` is NECESSARY on the physical model (copy_dir into the own subtree;
     for memory: `C13.copyDir_into_own_subtree_diverges`) is not shown: a kernel evaluation with
     fuel 50 was attempted and abandoned (it exhausted memory), so there is no witness here.
   * the remove_dir_all bound is sufficient, not exact (key lengths bound the nesting depth).
-/
import VfsModel.Props.C13Term
import VfsModel.Proofs.WalkGeneric
import VfsModel.Proofs.PhysPath
set_option linter.unusedVariables false
set_option linter.unusedSectionVars false
set_option linter.unusedSimpArgs false
namespace Vfs.C13
open Vfs.C05 (walkCollect descCount okItems)
open Vfs.Wk (mk below Good pending)
open Vfs.WkG

/-! ## 0. how the trait methods run on a physical leaf -/

section run
variable {w : World} {i : Nat} {m : FMap} (h : PhysLeafAt w i m)
include h

theorem prun_readDir (p : Str) : (leafFS i).readDir p w = (Phys.readDir m p, w) := by
  show onLeaf i _ w = _
  rw [run_onLeaf_phys h]
  simp [World.setLeafFiles_self w i _ h]

theorem prun_metadata (p : Str) : (leafFS i).metadata p w = (Phys.metadata m p, w) := by
  show onLeaf i _ w = _
  rw [run_onLeaf_phys h]
  simp [World.setLeafFiles_self w i _ h]

theorem prun_removeFile (p : Str) :
    (leafFS i).removeFile p w = ((Phys.removeFile m p).1, w.setLeafFiles i (Phys.removeFile m p).2) := by
  show onLeaf i _ w = _
  rw [run_onLeaf_phys h]

theorem prun_removeDir (p : Str) :
    (leafFS i).removeDir p w = ((Phys.removeDir m p).1, w.setLeafFiles i (Phys.removeDir m p).2) := by
  show onLeaf i _ w = _
  rw [run_onLeaf_phys h]

end run

/-! ## 1. the physical leaf is a tree view; `walk_dir` -/

theorem ne_none_iff' {α} (o : Option α) : o ≠ none ↔ ∃ e, o = some e := by
  cases o <;> simp

/-- the listing the host computes is a listing in the sense of the interface -/
theorem names_of_map' (m : FMap) (hk : FMap.NodupKeys m) (p : Str) :
    IsNames m.find? p (m.keys.filterMap (childName p)) := by
  refine ⟨filterMap_childName_nodup m p hk, fun n => ?_⟩
  rw [mem_filterMap_childName]
  constructor
  · rintro ⟨k, e, he, hs, hp, ha⟩
    obtain ⟨h1, h2⟩ := split_last '/' k hs
    unfold parentInternal at hp
    rw [hp, ha] at h1
    rw [ha] at h2
    exact ⟨h2, by rw [← h1, he]; simp⟩
  · rintro ⟨hs, hpres⟩
    obtain ⟨e, he⟩ := (ne_none_iff' _).1 hpres
    exact ⟨p ++ '/' :: n, e, he, by simp, parent_of_child p n hs,
      afterLast_append_delim '/' p n hs⟩

theorem Phys.readDir_dir {m : FMap} (hwf : WF m) (p : Str) (e : Entry) (hp : m.find? p = some e)
    (hd : e.ftype = .dir) : Phys.readDir m p = .ok (m.keys.filterMap (childName p)) := by
  unfold Phys.readDir
  rw [hwf.lookup_present p e hp]
  simp [hd, Phys.children]

theorem Phys.readDir_file {m : FMap} (hwf : WF m) (p : Str) (e : Entry) (hp : m.find? p = some e)
    (hd : e.ftype = .file) : Phys.readDir m p = .err .io none := by
  unfold Phys.readDir
  rw [hwf.lookup_present p e hp]
  simp [hd, fail]

theorem Phys.metadata_present {m : FMap} (hwf : WF m) (p : Str) (e : Entry)
    (hp : m.find? p = some e) :
    ∃ md, Phys.metadata m p = .ok md ∧ md.ftype = e.ftype := by
  unfold Phys.metadata
  rw [hwf.lookup_present p e hp]
  exact ⟨_, rfl, rfl⟩

/-- an absent path: the host answers an error to `read_dir` (`ENOENT` or `ENOTDIR`) -/
theorem Phys.readDir_absent (m : FMap) (p : Str) (hp : m.find? p = none) :
    ∃ k pth, Phys.readDir m p = .err k pth := by
  unfold Phys.readDir Phys.lookup
  cases hr : Phys.resolveParent m p with
  | ok _ => simp [hp, fail]
  | err k pth => exact ⟨k, pth, rfl⟩
  | panic =>
    exfalso
    unfold Phys.resolveParent at hr
    split at hr
    · cases hr
    · split at hr <;> simp [fail] at hr

section walk
variable {w : World} {i : Nat} {m : FMap} (h : PhysLeafAt w i m) (hwf : WF m)
  (hk : FMap.NodupKeys m)
include h hwf hk

/-- **PhysicalFS shows the tree of its map** (on a well-formed tree with unique keys) -/
theorem phys_treeView : TreeView (leafFS i) w m.find? where
  finite := ⟨m.keys, fun k hk' => (FMap.mem_keys_iff m k).2 ((ne_none_iff' _).1 hk')⟩
  root := hwf.1
  parent := hwf.2
  readDir := by
    intro w' hw' p e hp hd
    cases hw'
    exact ⟨_, _, by rw [prun_readDir h p, Phys.readDir_dir hwf p e hp hd], rfl,
      names_of_map' m hk p⟩
  metadata := by
    intro w' hw' p e hp
    cases hw'
    obtain ⟨md, h1, h2⟩ := Phys.metadata_present hwf p e hp
    exact ⟨md, _, by rw [prun_metadata h p, h1], rfl, h2⟩

/-- **`walk_dir` on the physical leaf, exact.** From a directory `p`, with more fuel than there are
entries strictly below `p`: an `.ok` list of `.ok` items — exactly the entries strictly below `p`,
each once, no entry before one of its ancestors — and the world is unchanged. -/
theorem phys_walk_spec (id : Nat) (p : Str) (e : Entry) (hp : m.find? p = some e)
    (hd : e.ftype = .dir) (fuel : Nat) (hf : descCount m p < fuel) :
    ∃ L : List Str, walkCollect fuel (mk i id p) w = (.ok (okItems i id L), w) ∧
      (∀ k, k ∈ L ↔ k ∈ m.keys ∧ below p k = true) ∧ L.Nodup ∧
      L.Pairwise (fun a b => below b a = false) := by
  have tv := phys_treeView h hwf hk
  obtain ⟨L, w', hw', hrun, h2, h3, h4⟩ :=
    (walk_from_dir (P := mk i id p) tv hwf hk w rfl p e hp hd fuel).1 hf
  cases hw'
  exact ⟨L, hrun, h2, h3, h4⟩

/-- … and with no more fuel than entries below `p` the outcome is the sentinel: the bound is exact -/
theorem phys_walk_short (id : Nat) (p : Str) (e : Entry) (hp : m.find? p = some e)
    (hd : e.ftype = .dir) (fuel : Nat) (hf : fuel ≤ descCount m p) :
    walkCollect fuel (mk i id p) w = (.panic, w) := by
  have tv := phys_treeView h hwf hk
  obtain ⟨w', hw', hrun⟩ :=
    (walk_from_dir (P := mk i id p) tv hwf hk w rfl p e hp hd fuel).2 hf
  cases hw'
  exact hrun

omit hk in
/-- `walk_dir` on a path that is not a directory (a file, or absent — below a file included):
an error with the path filled in, world unchanged, any fuel -/
theorem phys_walk_not_dir (id : Nat) (p : Str) (hnd : ¬ IsDirOf m p) (fuel : Nat) :
    ∃ k, walkCollect fuel (mk i id p) w = (.err k (some p), w) := by
  have herr : ∃ k pth, Phys.readDir m p = .err k pth := by
    cases hp : m.find? p with
    | none => exact Phys.readDir_absent m p hp
    | some e =>
      cases hf : e.ftype with
      | dir => exact absurd ⟨e, hp, hf⟩ hnd
      | file => exact ⟨_, _, Phys.readDir_file hwf p e hp hf⟩
  obtain ⟨k, pth, hr⟩ := herr
  exact ⟨k, (collect_readDir_err fuel (mk i id p) w w k pth (by
    show (leafFS i).readDir p w = _
    rw [prun_readDir h p, hr])).2⟩

/-- **`phys_walk_terminates`**: on a physical leaf with a well-formed tree, the collected
`walk_dir` from ANY path `p` with fuel above the number of entries below `p` is not the sentinel:
from a directory it is an `.ok` list of `.ok` items; otherwise an error. (1) fuel = number of
entries is enough; (2) the sentinel is the outcome IFF `p` is a directory and
fuel ≤ #descendants; (3) the world is unchanged. -/
theorem phys_walk_terminates (id : Nat) (p : Str) :
    (∀ fuel, descCount m p < fuel → IsDirOf m p →
      ∃ L : List Str, walkCollect fuel (mk i id p) w = (.ok (okItems i id L), w)) ∧
    (∀ fuel, descCount m p < fuel → (walkCollect fuel (mk i id p) w).1 ≠ .panic) ∧
    (walkCollect m.length (mk i id p) w).1 ≠ .panic ∧
    (∀ fuel, (walkCollect fuel (mk i id p) w).1 = .panic ↔ IsDirOf m p ∧ fuel ≤ descCount m p) ∧
    (∀ fuel, (walkCollect fuel (mk i id p) w).2 = w) := by
  have hiff : ∀ fuel, (walkCollect fuel (mk i id p) w).1 = .panic ↔
      IsDirOf m p ∧ fuel ≤ descCount m p := by
    intro fuel
    by_cases hd : IsDirOf m p
    · obtain ⟨e, he, hdir⟩ := hd
      by_cases hf : descCount m p < fuel
      · obtain ⟨L, hrun, _⟩ := phys_walk_spec h hwf hk id p e he hdir fuel hf
        rw [hrun]
        exact ⟨fun hc => (by cases hc), fun hc => (by omega)⟩
      · rw [phys_walk_short h hwf hk id p e he hdir fuel (by omega)]
        exact ⟨fun _ => ⟨⟨e, he, hdir⟩, by omega⟩, fun _ => rfl⟩
    · obtain ⟨k, hrun⟩ := phys_walk_not_dir h hwf id p hd fuel
      rw [hrun]
      exact ⟨fun hc => (by cases hc), fun hc => absurd hc.1 hd⟩
  have h2 : ∀ fuel, descCount m p < fuel → (walkCollect fuel (mk i id p) w).1 ≠ .panic := by
    intro fuel hf hpan
    have := ((hiff fuel).1 hpan).2
    omega
  refine ⟨?_, h2, h2 _ (descCount_lt_length_any hwf p), hiff, ?_⟩
  · rintro fuel hf ⟨e, he, hdir⟩
    obtain ⟨L, hrun, _⟩ := phys_walk_spec h hwf hk id p e he hdir fuel hf
    exact ⟨L, hrun⟩
  · intro fuel
    by_cases hd : IsDirOf m p
    · obtain ⟨e, he, hdir⟩ := hd
      by_cases hf : descCount m p < fuel
      · obtain ⟨L, hrun, _⟩ := phys_walk_spec h hwf hk id p e he hdir fuel hf
        rw [hrun]
      · rw [phys_walk_short h hwf hk id p e he hdir fuel (by omega)]
    · obtain ⟨k, hrun⟩ := phys_walk_not_dir h hwf id p hd fuel
      rw [hrun]

end walk

/-! ## 2. `remove_dir_all` on the physical leaf -/

/-- leaf `i` is a physical leaf all of whose keys are shorter than `B` -/
def PhysBound (i B : Nat) (w : World) : Prop :=
  ∃ m, PhysLeafAt w i m ∧ ∀ k e, m.find? k = some e → k.length < B

/-- an `onLeaf` action on a physical leaf whose new map has no new keys keeps the bound -/
theorem physBound_onLeaf {α} (i B : Nat) (f : Leaf → Res α × FMap)
    (hf : ∀ m k e, (f { kind := .phys, files := m }).2.find? k = some e → ∃ e', m.find? k = some e') :
    Preserves (PhysBound i B) (onLeaf i f) := by
  refine ⟨fun w hw => ?_⟩
  obtain ⟨m, hm, hb⟩ := hw
  rw [run_onLeaf_phys hm]
  refine ⟨_, hm.set _, fun k e hk => ?_⟩
  obtain ⟨e', he'⟩ := hf m k e hk
  exact hb k e' he'

theorem Phys.removeFile_keys (m : FMap) (p k : Str) (e : Entry)
    (h : (Phys.removeFile m p).2.find? k = some e) : ∃ e', m.find? k = some e' := by
  unfold Phys.removeFile at h
  split at h
  · exact ⟨e, h⟩
  · split at h
    · exact ⟨e, h⟩
    · rw [FMap.find?_erase] at h
      split at h
      · cases h
      · exact ⟨e, h⟩
  · exact ⟨e, h⟩
  · exact ⟨e, h⟩

theorem Phys.removeDir_keys (m : FMap) (p k : Str) (e : Entry)
    (h : (Phys.removeDir m p).2.find? k = some e) : ∃ e', m.find? k = some e' := by
  unfold Phys.removeDir at h
  split at h
  · exact ⟨e, h⟩
  · split at h
    · exact ⟨e, h⟩
    · split at h
      · exact ⟨e, h⟩
      · rw [FMap.find?_erase] at h
        split at h
        · cases h
        · exact ⟨e, h⟩
  · exact ⟨e, h⟩
  · exact ⟨e, h⟩

/-- the methods `remove_dir_all` calls -/
structure RmPreserve (I : World → Prop) (fs : FS) : Prop where
  obs : fs.ObsPreserve I
  removeFile : ∀ p, Preserves I (fs.removeFile p)
  removeDir : ∀ p, Preserves I (fs.removeDir p)

theorem leaf_rmPreserve (i B : Nat) : RmPreserve (PhysBound i B) (leafFS i) where
  obs := by
    refine ⟨fun p => ?_, fun p => ?_, fun p => ?_, fun p => ?_⟩ <;>
    · refine physBound_onLeaf i B _ (fun m k e hk => ?_)
      exact ⟨e, hk⟩
  removeFile := fun p => physBound_onLeaf i B _ (fun m k e hk => Phys.removeFile_keys m p k e hk)
  removeDir := fun p => physBound_onLeaf i B _ (fun m k e hk => Phys.removeDir_keys m p k e hk)

mutual
theorem pres_removeDirAll' {I : World → Prop} (fuel : Nat) (p : VPath) (h : RmPreserve I p.fs) :
    Preserves I (VPath.removeDirAll fuel p) := by
  cases fuel with
  | zero => unfold VPath.removeDirAll; exact Preserves.ret _
  | succ fuel =>
    unfold VPath.removeDirAll
    apply Preserves.bind (VPath.pres_exists p h.obs)
    intro b
    split
    · exact Preserves.pure _
    · apply Preserves.bindQ _ (VPath.pres_readDir p h.obs) (VPath.readDir_fs p)
      intro children hc
      apply Preserves.bind
      · exact pres_removeChildren' fuel children (fun c hm => by rw [(hc c hm).1]; exact h)
      · intro _; exact Preserves.withPath _ (h.removeDir _)
theorem pres_removeChildren' {I : World → Prop} (fuel : Nat) (l : List VPath)
    (h : ∀ c ∈ l, RmPreserve I c.fs) : Preserves I (VPath.removeChildren fuel l) := by
  cases l with
  | nil => unfold VPath.removeChildren; exact Preserves.pure _
  | cons c rest =>
    unfold VPath.removeChildren
    have hc := h c (by simp)
    apply Preserves.bind (VPath.pres_metadata c hc.obs)
    intro md
    dsimp only
    split
    · apply Preserves.bind (Preserves.withPath _ (hc.removeFile _))
      intro _
      exact pres_removeChildren' fuel rest (fun x hx => h x (by simp [hx]))
    · apply Preserves.bind (pres_removeDirAll' fuel c hc)
      intro _
      exact pres_removeChildren' fuel rest (fun x hx => h x (by simp [hx]))
end

/-- a successful `metadata` on a physical leaf: the world is unchanged and the path is present -/
theorem phys_metadata_ok {w w1 : World} {i : Nat} {m : FMap} (h : PhysLeafAt w i m) (id : Nat)
    (p : Str) (md : Meta) (hmd : (mk i id p).metadata w = (.ok md, w1)) :
    w1 = w ∧ ∃ e, m.find? p = some e := by
  unfold VPath.metadata M.withPath at hmd
  have h1 : (mk i id p).fs.metadata (mk i id p).path w = (Phys.metadata m p, w) := prun_metadata h p
  simp only [h1] at hmd
  have hw : w1 = w := (congrArg Prod.snd hmd).symm
  refine ⟨hw, ?_⟩
  have hr : (Phys.metadata m p).withPath p = .ok md := congrArg Prod.fst hmd
  unfold Phys.metadata Phys.lookup at hr
  cases hrp : Phys.resolveParent m p with
  | ok _ =>
    rw [hrp] at hr
    cases hf : m.find? p with
    | none => rw [hf] at hr; simp [fail, Res.withPath] at hr
    | some e => exact ⟨e, rfl⟩
  | err k pth => rw [hrp] at hr; simp [Res.withPath] at hr
  | panic => rw [hrp] at hr; simp [Res.withPath] at hr

section remove
variable {i : Nat} (id : Nat)

/-- the loop over the children of `p` cannot run out of fuel when no key is longer than
`|p| + fuel` -/
theorem phys_childrenOut_false (fuel : Nat) (p : Str)
    (ih : ∀ (c : Str) (w : World) (m : FMap), PhysLeafAt w i m →
      (∀ k e, m.find? k = some e → k.length < c.length + fuel) → (∃ e, m.find? c = some e) →
      ¬ VPath.RemoveDirAllOut fuel (mk i id c) w) :
    ∀ (l : List VPath) (w : World), (∀ c ∈ l, ∃ n, c = mk i id (p ++ '/' :: n)) →
      PhysBound i (p.length + fuel + 1) w →
      ¬ VPath.ChildrenOut (VPath.removeDirAll fuel) (VPath.RemoveDirAllOut fuel) l w := by
  intro l
  induction l with
  | nil => intro w _ _ hc; exact hc
  | cons c rest ihl =>
    intro w hl hJ hc
    obtain ⟨n, rfl⟩ := hl c (by simp)
    have hl' : ∀ c ∈ rest, ∃ n, c = mk i id (p ++ '/' :: n) := fun x hx => hl x (by simp [hx])
    unfold VPath.ChildrenOut at hc
    obtain ⟨md, w1, hmd, hcase⟩ := hc
    obtain ⟨m, hm, hb⟩ := hJ
    obtain ⟨hw1, hpres⟩ := phys_metadata_ok hm id _ md hmd
    subst hw1
    have hJ1 : PhysBound i (p.length + fuel + 1) w1 := ⟨m, hm, hb⟩
    rcases hcase with ⟨_, hR⟩ | ⟨_, w2, hact, hrest⟩ | ⟨_, w2, hact, hrest⟩
    · refine ih _ w1 m hm (fun k e hk => ?_) hpres hR
      have := hb k e hk
      simp only [List.length_append, List.length_cons]
      omega
    · have := (pres_removeDirAll' fuel (mk i id (p ++ '/' :: n))
        (leaf_rmPreserve i (p.length + fuel + 1))).pres w1 hJ1
      rw [hact] at this
      exact ihl w2 hl' this hrest
    · have := (Preserves.withPath (I := PhysBound i (p.length + fuel + 1)) (p ++ '/' :: n)
        ((leaf_rmPreserve i (p.length + fuel + 1)).removeFile (p ++ '/' :: n))).pres w1 hJ1
      have hact' : VPath.removeFile (mk i id (p ++ '/' :: n)) w1 = (.ok (), w2) := hact
      unfold VPath.removeFile at hact'
      rw [show (mk i id (p ++ '/' :: n)).fs = leafFS i from rfl,
        show (mk i id (p ++ '/' :: n)).path = p ++ '/' :: n from rfl] at hact'
      rw [hact'] at this
      exact ihl w2 hl' this hrest

/-- `remove_dir_all` on a present path of a physical leaf cannot reach the `0 =>` branch when
no key is longer than `|p| + fuel` -/
theorem phys_removeDirAllOut_false : ∀ (fuel : Nat) (p : Str) (w : World) (m : FMap),
    PhysLeafAt w i m → (∀ k e, m.find? k = some e → k.length < p.length + fuel) →
    (∃ e, m.find? p = some e) → ¬ VPath.RemoveDirAllOut fuel (mk i id p) w := by
  intro fuel
  induction fuel with
  | zero =>
    intro p w m hm hb ⟨e, he⟩ _
    have := hb p e he
    omega
  | succ fuel ih =>
    intro p w m hm hb hp hout
    unfold VPath.RemoveDirAllOut at hout
    obtain ⟨w1, children, w2, hex, hrd, hco⟩ := hout
    have hw1 : w1 = w := by
      have : VPath.exists_ (mk i id p) w = (.ok (Phys.exists_ m p), w) := run_exists_phys hm p
      rw [this] at hex
      exact (congrArg Prod.snd hex).symm
    subst hw1
    -- the listing: children are `p/n`, world unchanged
    have hrd' := hrd
    have h1 : (mk i id p).fs.readDir (mk i id p).path w1 = (Phys.readDir m p, w1) :=
      prun_readDir hm p
    unfold VPath.readDir at hrd'
    simp only [bind, M.bind, M.withPath, h1] at hrd'
    cases hr : Phys.readDir m p with
    | panic => rw [hr] at hrd'; simp [Res.withPath] at hrd'
    | err k pth => rw [hr] at hrd'; simp [Res.withPath] at hrd'
    | ok names =>
      rw [hr] at hrd'
      simp only [Res.withPath, pure, M.pure] at hrd'
      have hch : children = names.map (fun n => (mk i id p).withStr ((mk i id p).path ++ '/' :: n)) := by
        have := congrArg Prod.fst hrd'
        simp only [Res.ok.injEq] at this
        exact this.symm
      have hw2 : w2 = w1 := (congrArg Prod.snd hrd').symm
      subst hw2
      refine phys_childrenOut_false id fuel p ih children w2 ?_ ⟨m, hm, fun k e hk => ?_⟩ hco
      · intro c hc
        rw [hch, List.mem_map] at hc
        obtain ⟨n, _, rfl⟩ := hc
        exact ⟨n, rfl⟩
      · have := hb k e hk
        omega

/-- **`phys_remove_dir_all_terminates`**: on a physical leaf — ANY map (well-formedness is not
needed), ANY path string `p` (absent, file, directory, root, below a file) — with fuel ≥ 1 and
`|k| < |p| + fuel` for every key `k` (the bound of `C13.removeDirAll_never_panics` for the memory
leaf: it bounds the nesting depth below `p`), `remove_dir_all` returns `.ok` or `.err`, never
`.panic`: the recursion terminates. -/
theorem phys_remove_dir_all_terminates {w : World} {m : FMap} (h : PhysLeafAt w i m)
    (fuel : Nat) (p : Str) (hf0 : 0 < fuel)
    (hfuel : ∀ k e, m.find? k = some e → k.length < p.length + fuel) :
    (VPath.removeDirAll fuel (mk i id p) w).1 ≠ .panic := by
  intro hpan
  have hle : LeafExists i w := by
    unfold LeafExists; unfold PhysLeafAt at h; rw [h]; simp
  have hout := removeDirAll_panic_is_fuel fuel (mk i id p) (leaf_no_panic i) w hle hpan
  cases hp : m.find? p with
  | some e => exact phys_removeDirAllOut_false id fuel p w m h hfuel ⟨e, hp⟩ hout
  | none =>
    obtain ⟨f, rfl⟩ : ∃ f, fuel = f + 1 := ⟨fuel - 1, by omega⟩
    refine removeDirAll_missing f (mk i id p) w ?_ hout
    have : VPath.exists_ (mk i id p) w = (.ok (Phys.exists_ m p), w) := run_exists_phys h p
    rw [this, Phys.exists_absent m p hp]

/-- the plain bound: more fuel than the longest key is long -/
theorem phys_remove_dir_all_terminates_fuel {w : World} {m : FMap} (h : PhysLeafAt w i m)
    (fuel : Nat) (p : Str) (hf0 : 0 < fuel) (hfuel : ∀ k e, m.find? k = some e → k.length < fuel) :
    (VPath.removeDirAll fuel (mk i id p) w).1 ≠ .panic :=
  phys_remove_dir_all_terminates id h fuel p hf0 (fun k e hk => by have := hfuel k e hk; omega)

/-- the computed fuel `keyFuel m` = longest key length + 1 -/
theorem phys_remove_dir_all_terminates_keyFuel {w : World} {m : FMap} (h : PhysLeafAt w i m)
    (p : Str) : (VPath.removeDirAll (keyFuel m) (mk i id p) w).1 ≠ .panic :=
  phys_remove_dir_all_terminates_fuel id h (keyFuel m) p (by unfold keyFuel; omega) (keyFuel_bound m)

/-- `.ok` or `.err`: the form of the task statement -/
theorem ok_or_err_of_ne_panic {α} {r : Res α} (h : r ≠ .panic) :
    (∃ a, r = .ok a) ∨ (∃ k pth, r = .err k pth) := by
  cases r with
  | ok a => exact Or.inl ⟨a, rfl⟩
  | err k pth => exact Or.inr ⟨k, pth, rfl⟩
  | panic => exact absurd rfl h

end remove

/-! ## 3. `copy_dir` / `move_dir` — the generic argument

The loop of `copy_dir` / `move_dir` interleaves the walk over the source with writes to the
destination. If the writes keep the world inside a set `S` of worlds in which the source
filesystem shows ONE finite well-formed tree `m` (`TreeViewOn`), the number of keys still pending
in the walk drops with every item, so the loop cannot take `fuel` steps. -/

/-- relJoin returns a path of the destination filesystem -/
theorem relJoin_fs {dst : VPath} {n : Nat} {x d : VPath} (h : VPath.relJoin dst n x = .ok d) :
    d.fs = dst.fs ∧ d.fsId = dst.fsId := by
  unfold VPath.relJoin at h
  split at h
  · cases h
  · exact VPath.join_fs dst d _ h

section generic
variable {S : World → Prop} {m : FMap} {src dst : VPath}

/-- **the copy loop over a tree view cannot run out of fuel** when the fuel exceeds the number
of keys pending in the walk and the per-item writes keep the world in `S` -/
theorem copyItemsOut_false (tv : TreeViewOn src.fs S m.find?) (hwf : WF m)
    (hstep : ∀ (x : Str) (d : VPath), d.fs = dst.fs → d.fsId = dst.fsId →
      Preserves S d.createDir ∧ Preserves S ((src.withStr x).copyFile d)) :
    ∀ (fuel : Nat) (inner todo : List Str) (w : World), S w → Good m inner todo →
      (m.keys.filter (pending inner todo)).length < fuel →
      ¬ VPath.CopyItemsOut src dst fuel (st src inner todo) w := by
  intro fuel
  induction fuel with
  | zero => intro inner todo w _ _ hf; omega
  | succ fuel ih =>
    intro inner todo w hw hg hf hout
    unfold VPath.CopyItemsOut at hout
    obtain ⟨x, s', w1, d, md, w2, w3, hnext, hrj, hmd, hcase, hrest⟩ := hout
    rcases walkNext_spec' tv hwf todo inner w hw hg with
      ⟨w1', hS1, h1, h2⟩ | ⟨x0, inner', todo', w1', hS1, h1, h2, h3, h4, h5, h6⟩
    · rw [h1] at hnext
      cases hnext
    · rw [h1] at hnext
      have hx : x = src.withStr x0 := by
        have := congrArg Prod.fst hnext
        simp only [Res.ok.injEq, Prod.mk.injEq, Option.some.injEq] at this
        exact this.1.symm
      have hs' : s' = st src inner' todo' := by
        have := congrArg Prod.fst hnext
        simp only [Res.ok.injEq, Prod.mk.injEq] at this
        exact this.2.symm
      have hw1 : w1 = w1' := (congrArg Prod.snd hnext).symm
      subst hx hs' hw1
      obtain ⟨e0, he0⟩ := h3
      obtain ⟨md', w2', hS2, hmd', _⟩ := run_metadata' tv w1 hS1 x0 e0 he0
      rw [hmd'] at hmd
      have hw2 : w2 = w2' := (congrArg Prod.snd hmd).symm
      subst hw2
      obtain ⟨hdfs, hdid⟩ := relJoin_fs hrj
      obtain ⟨hp1, hp2⟩ := hstep x0 d hdfs hdid
      have hS3 : S w3 := by
        rcases hcase with ⟨_, hc⟩ | ⟨_, hc⟩
        · have := hp1.pres w2 hS2; rw [hc] at this; exact this
        · have := hp2.pres w2 hS2; rw [hc] at this; exact this
      have hxk : x0 ∈ m.keys := (FMap.mem_keys_iff m x0).2 ⟨e0, he0⟩
      have hpx : pending inner todo x0 = true := by rw [h5 x0 ⟨e0, he0⟩]; simp
      have hlt : (m.keys.filter (pending inner' todo')).length <
          (m.keys.filter (pending inner todo)).length := by
        apply Wk.filter_length_lt _ _ _ x0 hxk hpx h4
        intro k hk' hp
        rw [h5 k ((FMap.mem_keys_iff m k).1 hk'), hp]; simp
      exact ih inner' todo' w3 hS3 h2 (by omega) hrest

/-- from `walk_dir` on: `src.walk_dir()?` then the copy loop, with fuel above the number of keys
strictly below the source directory, cannot run out of fuel -/
theorem walk_copyItemsOut_false (tv : TreeViewOn src.fs S m.find?) (hwf : WF m)
    (hstep : ∀ (x : Str) (d : VPath), d.fs = dst.fs → d.fsId = dst.fsId →
      Preserves S d.createDir ∧ Preserves S ((src.withStr x).copyFile d))
    (e : Entry) (hp : m.find? src.path = some e) (hd : e.ftype = .dir)
    (fuel : Nat) (hf : descCount m src.path < fuel) (w : World) (hw : S w) (s : VPath.Walk)
    (w3 : World) (hwalk : src.walkDir w = (.ok s, w3)) :
    ¬ VPath.CopyItemsOut src dst fuel s w3 := by
  obtain ⟨l, w', hS', hl, hrun⟩ := run_walkDir' (P := src) tv w hw src.path e hp hd
  have : src.withStr src.path = src := rfl
  rw [this, hwalk] at hrun
  have hs : s = st src l [] := by
    have := congrArg Prod.fst hrun
    simp only [Res.ok.injEq] at this
    exact this
  have hw3 : w3 = w' := congrArg Prod.snd hrun
  subst hs hw3
  obtain ⟨g1, g2⟩ := start_good' hwf src.path e hp hd hl
  have hfilt : m.keys.filter (pending l []) = m.keys.filter (below src.path) :=
    List.filter_congr (fun k hk' => g2 k ((FMap.mem_keys_iff m k).1 hk'))
  exact copyItemsOut_false tv hwf hstep fuel l [] w3 hS' g1 (by rw [hfilt]; exact hf)

end generic

/-! ## 4. `copy_dir` / `move_dir` from a physical leaf to ANOTHER leaf -/

/-- the set of worlds in which leaf `i` is the physical leaf holding `m` -/
def PhysIs (i : Nat) (m : FMap) (w : World) : Prop := PhysLeafAt w i m

theorem physIs_ignores (i j : Nat) (m : FMap) (hij : i ≠ j) : IgnoresLeaf (PhysIs i m) j := by
  intro w f hw
  unfold PhysIs PhysLeafAt at *
  rw [World.leaf?_setLeafFiles_ne w j i f (fun h => hij h.symm)]
  exact hw

/-- an `onLeaf` action on the physical leaf that returns the map it found -/
theorem physIs_onLeaf {α} (i : Nat) (m : FMap) (f : Leaf → Res α × FMap)
    (hf : (f { kind := .phys, files := m }).2 = m) : Preserves (PhysIs i m) (onLeaf i f) := by
  refine ⟨fun w hw => ?_⟩
  have hw' : PhysLeafAt w i m := hw
  rw [run_onLeaf_phys hw', hf]
  exact hw'.set m

/-- the observers of the physical leaf keep its map -/
theorem physIs_obs (i : Nat) (m : FMap) : (leafFS i).ObsPreserve (PhysIs i m) where
  readDir _ := physIs_onLeaf i m _ rfl
  openFile _ := physIs_onLeaf i m _ rfl
  metadata _ := physIs_onLeaf i m _ rfl
  exists_ _ := physIs_onLeaf i m _ rfl

/-- the physical leaf shows its tree in every world in which it holds `m` -/
theorem phys_treeViewOn (i : Nat) {m : FMap} (hwf : WF m) (hk : FMap.NodupKeys m) :
    TreeViewOn (leafFS i) (PhysIs i m) m.find? where
  finite := ⟨m.keys, fun k hk' => (FMap.mem_keys_iff m k).2 ((ne_none_iff' _).1 hk')⟩
  root := hwf.1
  parent := hwf.2
  readDir := by
    intro w hw p e hp hd
    have hw' : PhysLeafAt w i m := hw
    exact ⟨_, _, by rw [prun_readDir hw' p, Phys.readDir_dir hwf p e hp hd], hw,
      names_of_map' m hk p⟩
  metadata := by
    intro w hw p e hp
    have hw' : PhysLeafAt w i m := hw
    obtain ⟨md, h1, h2⟩ := Phys.metadata_present hwf p e hp
    exact ⟨md, _, by rw [prun_metadata hw' p, h1], hw, h2⟩

theorem leaf_lt_of_some {w : World} {i : Nat} (h : w.leaf? i ≠ none) : i < w.leaves.length := by
  unfold World.leaf? at h
  apply Nat.lt_of_not_le
  intro hle
  exact h (List.getElem?_eq_none hle)

section twoLeaves
variable {w : World} {i j : Nat} {ms : FMap} (hi : PhysLeafAt w i ms) (hj : w.leaf? j ≠ none)
  (hwf : WF ms) (hk : FMap.NodupKeys ms) (hij : i ≠ j) (sid did : Nat) (hid : sid ≠ did)
  (fuel : Nat) (S D : Str)
include hi hj hwf hk hij hid

/-- the per-item writes go to leaf `j` only -/
theorem twoLeaves_step (x : Str) (d : VPath) (hfs : d.fs = leafFS j) (hdid : d.fsId = did) :
    Preserves (PhysIs i ms) d.createDir ∧
    Preserves (PhysIs i ms) ((VPath.withStr { fs := leafFS i, fsId := sid, path := S } x).copyFile d) := by
  have hall : d.fs.AllPreserve (PhysIs i ms) := by
    rw [hfs]; exact leafFS_all_preserve j (physIs_ignores i j ms hij)
  refine ⟨VPath.pres_createDir d hall, VPath.pres_copyFile _ d (physIs_obs i ms) hall ?_⟩
  intro heq
  exact absurd (heq.trans hdid) hid

/-- **`phys_copy_dir_terminates` (two leaves)**: source on a physical leaf `i` with a well-formed
tree, destination on ANY other leaf `j` (memory or physical, any content, any destination string),
different `Arc` identities: with fuel above the number of entries below the source, `copy_dir`
returns `.ok` or `.err`, never `.panic` — EVERY source string (directory, file, absent). -/
theorem phys_copy_dir_terminates_two (hfuel : descCount ms S < fuel) :
    (VPath.copyDir fuel { fs := leafFS i, fsId := sid, path := S }
      { fs := leafFS j, fsId := did, path := D } w).1 ≠ .panic := by
  intro hpan
  have hin : i < w.leaves.length := leaf_lt_of_some (by unfold PhysLeafAt at hi; rw [hi]; simp)
  have hjn : j < w.leaves.length := leaf_lt_of_some hj
  obtain ⟨w1, w2, s, w3, hex, hcd, hwalk, hout⟩ :=
    copyDir_panic_is_fuel fuel { fs := leafFS i, fsId := sid, path := S }
      { fs := leafFS j, fsId := did, path := D } (leaf_no_panic_len hin) (leaf_no_panic_len hjn)
      w rfl hpan
  have hallj : (leafFS j).AllPreserve (PhysIs i ms) :=
    leafFS_all_preserve j (physIs_ignores i j ms hij)
  have hS1 : PhysIs i ms w1 := by
    have := (VPath.pres_exists { fs := leafFS j, fsId := did, path := D } hallj.obs).pres w hi
    rw [hex] at this; exact this
  have hS2 : PhysIs i ms w2 := by
    have := (VPath.pres_createDir { fs := leafFS j, fsId := did, path := D } hallj).pres w1 hS1
    rw [hcd] at this; exact this
  have tv := phys_treeViewOn i hwf hk
  by_cases hdir : IsDirOf ms S
  · obtain ⟨e, he, hd⟩ := hdir
    exact walk_copyItemsOut_false (src := { fs := leafFS i, fsId := sid, path := S })
      (dst := { fs := leafFS j, fsId := did, path := D }) tv hwf
      (fun x d h1 h2 => twoLeaves_step hi hj hwf hk hij sid did hid S x d h1 h2)
      e he hd fuel hfuel w2 hS2 s w3 hwalk hout
  · obtain ⟨k, hrun⟩ := phys_walk_not_dir (hS2 : PhysLeafAt w2 i ms) hwf sid S hdir 0
    have herr : ∃ k pth, Phys.readDir ms S = .err k pth := by
      cases hp : ms.find? S with
      | none => exact Phys.readDir_absent ms S hp
      | some e =>
        cases hf : e.ftype with
        | dir => exact absurd ⟨e, hp, hf⟩ hdir
        | file => exact ⟨_, _, Phys.readDir_file hwf S e hp hf⟩
    obtain ⟨k', pth, hr⟩ := herr
    have := (collect_readDir_err 0 (mk i sid S) w2 w2 k' pth (by
      show (leafFS i).readDir S w2 = _
      rw [prun_readDir (hS2 : PhysLeafAt w2 i ms) S, hr])).1
    have hw' : VPath.walkDir (mk i sid S) w2 = (.ok s, w3) := hwalk
    rw [this] at hw'
    cases hw'

end twoLeaves

/-! ## 5. `move_dir` from a physical leaf to another leaf -/

theorem bind_keeps {S : World → Prop} {α β} (m : M α) (f : α → M β) (w : World) (hm : S (m w).2)
    (hf : ∀ a w', m w = (.ok a, w') → S (f a w').2) : S ((m >>= f) w).2 := by
  show S (M.bind m f w).2
  unfold M.bind
  rcases h : m w with ⟨r, w'⟩
  rw [h] at hm
  cases r with
  | ok a => exact hf a w' h
  | err k p => exact hm
  | panic => exact hm

section genericKeeps
variable {S : World → Prop} {m : FMap} {src dst : VPath}

/-- the copy loop keeps the world in `S`, whatever its outcome and whatever the fuel -/
theorem copyItems_keeps (tv : TreeViewOn src.fs S m.find?) (hwf : WF m)
    (hstep : ∀ (x : Str) (d : VPath), d.fs = dst.fs → d.fsId = dst.fsId →
      Preserves S d.createDir ∧ Preserves S ((src.withStr x).copyFile d)) :
    ∀ (fuel : Nat) (inner todo : List Str) (count : Nat) (w : World), S w → Good m inner todo →
      S (VPath.copyItems fuel src dst (st src inner todo) count w).2 := by
  intro fuel
  induction fuel with
  | zero => intro inner todo count w hw _; unfold VPath.copyItems; exact hw
  | succ fuel ih =>
    intro inner todo count w hw hg
    unfold VPath.copyItems
    rcases walkNext_spec' tv hwf todo inner w hw hg with
      ⟨w1, hS1, h1, _⟩ | ⟨x0, inner', todo', w1, hS1, h1, h2, ⟨e0, he0⟩, _, _, _⟩
    · apply bind_keeps
      · rw [h1]; exact hS1
      · intro a w' ha
        rw [h1] at ha
        cases ha
        exact hS1
    · apply bind_keeps
      · rw [h1]; exact hS1
      · intro a w' ha
        rw [h1] at ha
        cases ha
        dsimp only
        apply bind_keeps
        · exact hS1
        · intro d w' hd
          have hw' : w' = w1 := (congrArg Prod.snd hd).symm
          subst hw'
          have hrj : VPath.relJoin dst src.path.length (src.withStr x0) = .ok d :=
            congrArg Prod.fst hd
          obtain ⟨hdfs, hdid⟩ := relJoin_fs hrj
          obtain ⟨hp1, hp2⟩ := hstep x0 d hdfs hdid
          obtain ⟨md', w2, hS2, hmd', _⟩ := run_metadata' tv w' hS1 x0 e0 he0
          apply bind_keeps
          · rw [hmd']; exact hS2
          · intro md w2' hmd
            rw [hmd'] at hmd
            cases hmd
            cases hft : md'.ftype with
            | dir =>
              dsimp only
              apply bind_keeps
              · exact hp1.pres w2 hS2
              · intro _ w3 h3
                refine ih inner' todo' _ w3 ?_ h2
                have := hp1.pres w2 hS2; rw [h3] at this; exact this
            | file =>
              dsimp only
              apply bind_keeps
              · exact hp2.pres w2 hS2
              · intro _ w3 h3
                refine ih inner' todo' _ w3 ?_ h2
                have := hp2.pres w2 hS2; rw [h3] at this; exact this

end genericKeeps

/-- `exists` on a leaf that is there: an answer, world unchanged -/
theorem leaf_exists_pure (j : Nat) (D : Str) (w : World) (hj : w.leaf? j ≠ none) :
    ∃ b, (leafFS j).exists_ D w = (.ok b, w) := by
  show ∃ b, onLeaf j _ w = _
  unfold onLeaf
  cases h : w.leaf? j with
  | none => exact absurd h hj
  | some l =>
    dsimp only
    cases hk : l.kind <;> simp only [World.setLeafFiles_self w j l h] <;> exact ⟨_, rfl⟩

theorem withPath_eq_panic {α} (p : Str) (r : Res α) : r.withPath p = .panic ↔ r = .panic := by
  cases r <;> simp [Res.withPath]

section twoLeavesMove
variable {w : World} {i j : Nat} {ms : FMap} (hi : PhysLeafAt w i ms) (hj : w.leaf? j ≠ none)
  (hwf : WF ms) (hk : FMap.NodupKeys ms) (hij : i ≠ j) (sid did : Nat) (hid : sid ≠ did)
  (fuel : Nat) (S D : Str)
include hi hj hwf hk hij hid

/-- the walk-and-copy body keeps the source leaf as it is (the writes go to leaf `j`) -/
theorem copyDirBody_keeps_two :
    PhysIs i ms (VPath.copyDirBody fuel { fs := leafFS i, fsId := sid, path := S }
      { fs := leafFS j, fsId := did, path := D } w).2 := by
  have hallj : (leafFS j).AllPreserve (PhysIs i ms) :=
    leafFS_all_preserve j (physIs_ignores i j ms hij)
  have tv := phys_treeViewOn i hwf hk
  unfold VPath.copyDirBody
  apply bind_keeps
  · exact (VPath.pres_createDir { fs := leafFS j, fsId := did, path := D } hallj).pres w hi
  · intro _ w2 hcd
    have hS2 : PhysIs i ms w2 := by
      have := (VPath.pres_createDir { fs := leafFS j, fsId := did, path := D } hallj).pres w hi
      rw [hcd] at this; exact this
    apply bind_keeps
    · exact (VPath.pres_walkDir { fs := leafFS i, fsId := sid, path := S } (physIs_obs i ms)).pres w2 hS2
    · intro s w3 hwalk
      by_cases hdir : IsDirOf ms S
      · obtain ⟨e, he, hd⟩ := hdir
        obtain ⟨l, w', hS', hl, hrun⟩ := run_walkDir'
          (P := { fs := leafFS i, fsId := sid, path := S }) tv w2 hS2 S e he hd
        have hrun' : VPath.walkDir { fs := leafFS i, fsId := sid, path := S } w2 =
            (.ok (st { fs := leafFS i, fsId := sid, path := S } l []), w') := hrun
        rw [hwalk] at hrun'
        cases hrun'
        exact copyItems_keeps tv hwf
          (fun x d h1 h2 => twoLeaves_step hi hj hwf hk hij sid did hid S x d h1 h2)
          fuel l [] 0 w3 hS' (start_good' hwf S e he hd hl).1
      · exfalso
        have herr : ∃ k pth, Phys.readDir ms S = .err k pth := by
          cases hp : ms.find? S with
          | none => exact Phys.readDir_absent ms S hp
          | some e =>
            cases hf : e.ftype with
            | dir => exact absurd ⟨e, hp, hf⟩ hdir
            | file => exact ⟨_, _, Phys.readDir_file hwf S e hp hf⟩
        obtain ⟨k', pth, hr⟩ := herr
        have := (collect_readDir_err 0 (mk i sid S) w2 w2 k' pth (by
          show (leafFS i).readDir S w2 = _
          rw [prun_readDir (hS2 : PhysLeafAt w2 i ms) S, hr])).1
        have hw' : VPath.walkDir (mk i sid S) w2 = (.ok s, w3) := hwalk
        rw [this] at hw'
        cases hw'

/-- **`phys_move_dir_terminates` (two leaves)**: source on a physical leaf `i` with a well-formed
tree, destination on ANY other leaf `j`, different `Arc` identities: with fuel above the number of
entries below the source AND above the length difference between `S` and the longest key (the
bound of `remove_dir_all`), `move_dir` returns `.ok` or `.err`, never `.panic` — EVERY source and
destination string. -/
theorem phys_move_dir_terminates_two (hfuel : descCount ms S < fuel)
    (hb : ∀ k e, ms.find? k = some e → k.length < S.length + fuel) :
    (VPath.moveDir fuel { fs := leafFS i, fsId := sid, path := S }
      { fs := leafFS j, fsId := did, path := D } w).1 ≠ .panic := by
  intro hpan
  obtain ⟨b, hex⟩ := leaf_exists_pure j D w hj
  have hex' : VPath.exists_ { fs := leafFS j, fsId := did, path := D } w = (.ok b, w) := hex
  cases b with
  | true =>
    have := (C11.existing_destination_refused { fs := leafFS i, fsId := sid, path := S }
      { fs := leafFS j, fsId := did, path := D } fuel w hex').2.2.2
    rw [this] at hpan
    cases hpan
  | false =>
    have hcopy := phys_copy_dir_terminates_two hi hj hwf hk hij sid did hid fuel S D hfuel
    rw [copyDir_route fuel _ _ w hex'] at hcopy
    rw [moveDir_route fuel _ _ w hex' (fun h => absurd h hid), moveDirBody_eq] at hpan
    have hkeep := copyDirBody_keeps_two hi hj hwf hk hij sid did hid fuel S D
    unfold M.withPath at hcopy hpan
    unfold M.bind at hpan
    rcases hbody : VPath.copyDirBody fuel { fs := leafFS i, fsId := sid, path := S }
      { fs := leafFS j, fsId := did, path := D } w with ⟨r, w4⟩
    rw [hbody] at hcopy hpan hkeep
    cases r with
    | panic => exact hcopy rfl
    | err k p => simp [Res.withPath] at hpan
    | ok n =>
      simp only [withPath_eq_panic] at hpan
      exact phys_remove_dir_all_terminates sid (hkeep : PhysLeafAt w4 i ms) fuel S (by omega) hb hpan

end twoLeavesMove

/-! ## 6. the generic argument with a CHANGING source map (one filesystem: the writes of the
loop land in the filesystem that is being walked, outside the source subtree) -/

theorem pending_below {src : VPath} {inner todo : List Str}
    (hW : (st src inner todo).Below src.path) (k : Str) (hk : pending inner todo k = true) :
    below src.path k = true := by
  unfold pending at hk
  rw [Bool.or_eq_true, List.any_eq_true, List.any_eq_true] at hk
  rcases hk with ⟨x, hx, hw⟩ | ⟨d, hd, hw⟩
  · obtain ⟨t, ht⟩ := hW.1 (src.withStr x) (List.mem_map.2 ⟨x, hx, rfl⟩)
    exact Wk.below_of_below_within ((Wk.below_iff _ _).2 ⟨t, ht⟩) hw
  · obtain ⟨t, ht⟩ := hW.2 (src.withStr d) (List.mem_map.2 ⟨d, hd, rfl⟩)
    exact Wk.below_trans ((Wk.below_iff _ _).2 ⟨t, ht⟩) hw

theorem st_below_mem {src : VPath} {inner todo : List Str}
    (hW : (st src inner todo).Below src.path) (x : Str) (hx : x ∈ inner ++ todo) :
    below src.path x = true := by
  rcases List.mem_append.1 hx with h | h
  · obtain ⟨t, ht⟩ := hW.1 (src.withStr x) (List.mem_map.2 ⟨x, h, rfl⟩)
    exact (Wk.below_iff _ _).2 ⟨t, ht⟩
  · obtain ⟨t, ht⟩ := hW.2 (src.withStr x) (List.mem_map.2 ⟨x, h, rfl⟩)
    exact (Wk.below_iff _ _).2 ⟨t, ht⟩

section genericVar
variable {src dst : VPath} (V : FMap → World → Prop) (Q : FMap → Prop) (m0 : FMap)

/-- the copy loop cannot run out of fuel when every map the source filesystem shows during the
loop is well-formed and agrees with `m0` strictly below the source -/
theorem copyItemsOut_false_var
    (tv : ∀ m, Q m → TreeViewOn src.fs (V m) m.find?)
    (hq : ∀ m, Q m → WF m ∧ ∀ k, below src.path k = true → m.find? k = m0.find? k)
    (hstep : ∀ m w x d w3, Q m → V m w → below src.path x = true → (∃ e, m.find? x = some e) →
      VPath.relJoin dst src.path.length (src.withStr x) = .ok d →
      (d.createDir w = (.ok (), w3) ∨ (src.withStr x).copyFile d w = (.ok (), w3)) →
      ∃ m', Q m' ∧ V m' w3) :
    ∀ (fuel : Nat) (inner todo : List Str) (w : World) (m : FMap), Q m → V m w →
      Good m inner todo → (st src inner todo).Below src.path →
      ((m0.keys.filter (below src.path)).filter (pending inner todo)).length < fuel →
      ¬ VPath.CopyItemsOut src dst fuel (st src inner todo) w := by
  intro fuel
  induction fuel with
  | zero => intro inner todo w m _ _ _ _ hf; omega
  | succ fuel ih =>
    intro inner todo w m hQ hw hg hW hf hout
    obtain ⟨hwf, hagree⟩ := hq m hQ
    unfold VPath.CopyItemsOut at hout
    obtain ⟨x, s', w1, d, md, w2, w3, hnext, hrj, hmd, hcase, hrest⟩ := hout
    have hW' := (VPath.walkNext_below src.path (st src inner todo) hW).post w _
      (by rw [hnext])
    rcases walkNext_spec' (tv m hQ) hwf todo inner w hw hg with
      ⟨w1', hS1, h1, h2⟩ | ⟨x0, inner', todo', w1', hS1, h1, h2, h3, h4, h5, h6⟩
    · rw [h1] at hnext
      cases hnext
    · rw [h1] at hnext
      have hx : x = src.withStr x0 := by
        have := congrArg Prod.fst hnext
        simp only [Res.ok.injEq, Prod.mk.injEq, Option.some.injEq] at this
        exact this.1.symm
      have hs' : s' = st src inner' todo' := by
        have := congrArg Prod.fst hnext
        simp only [Res.ok.injEq, Prod.mk.injEq] at this
        exact this.2.symm
      have hw1 : w1 = w1' := (congrArg Prod.snd hnext).symm
      subst hx hs' hw1
      have hWn : (st src inner' todo').Below src.path := hW'.2
      obtain ⟨e0, he0⟩ := h3
      obtain ⟨md', w2', hS2, hmd', _⟩ := run_metadata' (tv m hQ) w1 hS1 x0 e0 he0
      rw [hmd'] at hmd
      have hw2 : w2 = w2' := (congrArg Prod.snd hmd).symm
      subst hw2
      have hpx : pending inner todo x0 = true := by rw [h5 x0 ⟨e0, he0⟩]; simp
      have hbx : below src.path x0 = true := pending_below hW x0 hpx
      obtain ⟨m', hQ', hV'⟩ := hstep m w2 x0 d w3 hQ hS2 hbx ⟨e0, he0⟩ hrj
        (by rcases hcase with ⟨_, hc⟩ | ⟨_, hc⟩
            · exact Or.inl hc
            · exact Or.inr hc)
      obtain ⟨hwf', hagree'⟩ := hq m' hQ'
      have hsame : ∀ k, below src.path k = true → m'.find? k = m.find? k := fun k hk => by
        rw [hagree' k hk, hagree k hk]
      have hg' : Good m' inner' todo' := by
        refine ⟨fun y hy => ?_, fun y hy => ?_, h2.apart⟩
        · rw [hsame y (st_below_mem hWn y (List.mem_append_left _ hy))]
          exact h2.innerKeys y hy
        · rw [hsame y (st_below_mem hWn y (List.mem_append_right _ hy))]
          exact h2.todoDirs y hy
      have hxk : x0 ∈ m0.keys.filter (below src.path) := by
        rw [List.mem_filter]
        exact ⟨(FMap.mem_keys_iff m0 x0).2 ⟨e0, by rw [← hagree x0 hbx]; exact he0⟩, hbx⟩
      have hlt : ((m0.keys.filter (below src.path)).filter (pending inner' todo')).length <
          ((m0.keys.filter (below src.path)).filter (pending inner todo)).length := by
        apply Wk.filter_length_lt _ _ _ x0 hxk hpx h4
        intro k hk' hp
        rw [List.mem_filter] at hk'
        obtain ⟨ek, hek⟩ := (FMap.mem_keys_iff m0 k).1 hk'.1
        rw [h5 k ⟨ek, by rw [hagree k hk'.2]; exact hek⟩, hp]; simp
      exact ih inner' todo' w3 m' hQ' hV' hg' hWn (by omega) hrest

end genericVar

/-! ## 7. `copy_dir` within ONE physical filesystem (same leaf, same `Arc`) -/

/-- nothing at or below `D/…` is at or below `S`, when `D` is neither at or below `S` nor a
proper ancestor of `S` -/
theorem not_under_graft {S D : Str} (hout : under S D = false) (hanc : below D S = false)
    (t : Str) : under S (D ++ '/' :: t) = false := by
  cases hu : under S (D ++ '/' :: t) with
  | false => rfl
  | true =>
    exfalso
    rcases (under_iff S _).1 hu with h | ⟨u, h⟩
    · have : below D S = true := (Wk.below_iff D S).2 ⟨t, h.symm⟩
      rw [this] at hanc; cases hanc
    · rcases List.append_eq_append_iff.1 h with ⟨c, hc1, hc2⟩ | ⟨c, hc1, hc2⟩
      · -- S = D ++ c
        cases c with
        | nil =>
          simp only [List.append_nil] at hc1
          rw [hc1, under_self] at hout; cases hout
        | cons ch c' =>
          simp only [List.cons_append, List.cons.injEq] at hc2
          obtain ⟨hch, _⟩ := hc2
          subst hch
          have : below D S = true := (Wk.below_iff D S).2 ⟨c', hc1⟩
          rw [this] at hanc; cases hanc
      · -- D = S ++ c
        cases c with
        | nil =>
          simp only [List.append_nil] at hc1
          rw [hc1, under_self] at hout; cases hout
        | cons ch c' =>
          simp only [List.cons_append, List.cons.injEq] at hc2
          obtain ⟨hch, _⟩ := hc2
          subst hch
          have : under S D = true := (under_iff S D).2 (Or.inr ⟨c', hc1⟩)
          rw [this] at hout; cases hout

theorem Phys.lookup_none_find {m : FMap} {q : Str} (h : Phys.lookup m q = .ok none) :
    m.find? q = none ∧ Phys.resolveParent m q = .ok () := by
  unfold Phys.lookup at h
  cases hr : Phys.resolveParent m q with
  | ok u => rw [hr] at h; simp at h; exact ⟨h, rfl⟩
  | err k p => rw [hr] at h; cases h
  | panic => rw [hr] at h; cases h

/-- the invariant of the source filesystem during the loop -/
def SameQ (S : Str) (ms m : FMap) : Prop :=
  WF m ∧ FMap.NodupKeys m ∧ ∀ k, under S k = true → m.find? k = ms.find? k

/-- a new entry at a resolvable absent path outside the source subtree keeps the invariant -/
theorem SameQ.insert {S : Str} {ms m : FMap} (hQ : SameQ S ms m) (q : Str) (v : Entry)
    (hl : Phys.lookup m q = .ok none) (hs : '/' ∈ q) (hu : under S q = false) :
    SameQ S ms (m.insert q v) := by
  obtain ⟨hwf, hnd, hag⟩ := hQ
  obtain ⟨hnone, hres⟩ := Phys.lookup_none_find hl
  have hpar : ∃ pe, m.find? (parentInternal q) = some pe ∧ pe.ftype = .dir := by
    cases hp : m.find? (parentInternal q) with
    | none => exact absurd hres (resolve_bad_parent m q hs (fun pe h => by rw [hp] at h; cases h))
    | some pe =>
      cases hf : pe.ftype with
      | dir => exact ⟨pe, rfl, hf⟩
      | file =>
        exact absurd hres (resolve_bad_parent m q hs (fun pe' h => by
          rw [hp] at h; cases h; exact hf))
  obtain ⟨pe, hpe, hpd⟩ := hpar
  refine ⟨?_, FMap.nodup_insert m q v hnd, fun k hk => ?_⟩
  · cases hv : v.ftype with
    | dir => exact hwf.insert_dir q v hv hs pe hpe hpd
    | file =>
      exact hwf.insert_leaf q v (fun e he => by rw [hnone] at he; cases he)
        (fun _ => ⟨hv, hs, pe, hpe, hpd⟩)
  · rw [FMap.find?_insert, if_neg (by rintro rfl; rw [hk] at hu; cases hu)]
    exact hag k hk

/-- on a physical leaf the observers leave the world exactly as it is -/
theorem physEq_obs {w : World} {i : Nat} {m : FMap} (h : PhysLeafAt w i m) :
    (leafFS i).ObsPreserve (fun w' => w' = w) := by
  have key : ∀ {α} (f : Leaf → Res α × FMap), (f { kind := .phys, files := m }).2 = m →
      Preserves (fun w' => w' = w) (onLeaf i f) := by
    intro α f hf
    refine ⟨fun w' hw' => ?_⟩
    subst hw'
    rw [run_onLeaf_phys h, hf]
    exact World.setLeafFiles_self w' i _ h
  exact ⟨fun _ => key _ rfl, fun _ => key _ rfl, fun _ => key _ rfl, fun _ => key _ rfl⟩

/-- a successful `create_dir` on a physical leaf: the path was absent and resolvable, and the
new map is the old one plus a directory entry -/
theorem phys_vcreateDir_ok {w w3 : World} {i : Nat} {m : FMap} (h : PhysLeafAt w i m) (id : Nat)
    (q : Str) (hok : VPath.createDir (mk i id q) w = (.ok (), w3)) :
    Phys.lookup m q = .ok none ∧ w3 = w.setLeafFiles i (m.insert q dirEntryNow) := by
  have hgp : ((mk i id q).getParent w).2 = w :=
    (VPath.pres_getParent (mk i id q) (physEq_obs h)).pres w rfl
  unfold VPath.createDir at hok
  simp only [bind, M.bind] at hok
  rcases hg : (mk i id q).getParent w with ⟨r, w'⟩
  rw [hg] at hgp hok
  simp only at hgp
  subst hgp
  cases r with
  | err k p => simp at hok
  | panic => simp at hok
  | ok u =>
    have hrun : (mk i id q).fs.createDir (mk i id q).path w' =
        ((Phys.createDir m q).1, w'.setLeafFiles i (Phys.createDir m q).2) := by
      show onLeaf i _ w' = _
      rw [run_onLeaf_phys h]
      rfl
    simp only [M.withPath, hrun] at hok
    unfold Phys.createDir at hok
    cases hl : Phys.lookup m q with
    | ok o =>
      cases o with
      | none =>
        rw [hl] at hok
        exact ⟨rfl, (congrArg Prod.snd hok).symm⟩
      | some e =>
        rw [hl] at hok
        have := congrArg Prod.fst hok
        by_cases hf : e.ftype = .file <;> simp [hf, fail, Res.withPath] at this
    | err k p => rw [hl] at hok; simp [Res.withPath] at hok
    | panic => rw [hl] at hok; simp [Res.withPath] at hok

theorem Phys.lookup_err_kind {m : FMap} {q : Str} {k : ErrKind} {p : Option Str}
    (h : Phys.lookup m q = .err k p) : k ≠ .notSupported := by
  unfold Phys.lookup at h
  cases hr : Phys.resolveParent m q with
  | ok u => rw [hr] at h; cases h
  | panic => rw [hr] at h; cases h
  | err k' p' =>
    rw [hr] at h
    simp only [Res.err.injEq] at h
    obtain ⟨rfl, rfl⟩ := h
    unfold Phys.resolveParent at hr
    split at hr
    · cases hr
    · split at hr <;> (simp [fail] at hr; rw [← hr.1]; simp)

/-- `std::fs::copy` succeeded onto a path that did not exist: the new map -/
theorem Phys.copyFile_ok_fresh {m : FMap} {x q : Str} (hex : Phys.exists_ m q = false)
    (hok : (Phys.copyFile m x q).1 = .ok ()) :
    Phys.lookup m q = .ok none ∧ ∃ v, (Phys.copyFile m x q).2 = m.insert q v := by
  unfold Phys.copyFile at hok ⊢
  cases hx : Phys.lookup m x with
  | err k p => rw [hx] at hok; cases hok
  | panic => rw [hx] at hok; cases hok
  | ok o =>
    cases o with
    | none => rw [hx] at hok; simp [fail] at hok
    | some e =>
      rw [hx] at hok
      simp only [hx]
      by_cases hd : e.ftype = .dir
      · simp [hd, fail] at hok
      · simp only [hd, ↓reduceIte] at hok ⊢
        cases hq : Phys.lookup m q with
        | err k p => rw [hq] at hok; cases hok
        | panic => rw [hq] at hok; cases hok
        | ok o' =>
          cases o' with
          | none => exact ⟨rfl, _, rfl⟩
          | some d0 =>
            exfalso
            unfold Phys.exists_ at hex
            rw [hq] at hex
            cases hex

theorem Phys.copyFile_err_kind (m : FMap) (x q : Str) (k : ErrKind) (p : Option Str)
    (h : (Phys.copyFile m x q).1 = .err k p) : k ≠ .notSupported := by
  unfold Phys.copyFile at h
  cases hx : Phys.lookup m x with
  | err k' p' => rw [hx] at h; simp at h; rw [← h.1]; exact Phys.lookup_err_kind hx
  | panic => rw [hx] at h; cases h
  | ok o =>
    cases o with
    | none => rw [hx] at h; simp [fail] at h; rw [← h.1]; simp
    | some e =>
      rw [hx] at h
      by_cases hd : e.ftype = .dir
      · simp [hd, fail] at h; rw [← h.1]; simp
      · simp only [hd, ↓reduceIte] at h
        cases hq : Phys.lookup m q with
        | err k' p' => rw [hq] at h; simp at h; rw [← h.1]; exact Phys.lookup_err_kind hq
        | panic => rw [hq] at h; cases h
        | ok o' =>
          cases o' with
          | none => rw [hq] at h; cases h
          | some d0 =>
            rw [hq] at h
            by_cases hdd : d0.ftype = .dir
            · simp [hdd, fail] at h; rw [← h.1]; simp
            · simp [hdd] at h

/-- a successful `copy_file` between two paths of one physical filesystem (same `Arc`): it was
the fast path `std::fs::copy` onto an absent path -/
theorem phys_vcopyFile_ok {w w3 : World} {i : Nat} {m : FMap} (h : PhysLeafAt w i m) (id : Nat)
    (x q : Str) (hok : VPath.copyFile (mk i id x) (mk i id q) w = (.ok (), w3)) :
    Phys.lookup m q = .ok none ∧ ∃ v, w3 = w.setLeafFiles i (m.insert q v) := by
  have hex : VPath.exists_ (mk i id q) w = (.ok (Phys.exists_ m q), w) := run_exists_phys h q
  have hcf : (mk i id x).fs.copyFile (mk i id x).path (mk i id q).path w =
      ((Phys.copyFile m x q).1, w.setLeafFiles i (Phys.copyFile m x q).2) := by
    show onLeaf i _ w = _
    rw [run_onLeaf_phys h]
    rfl
  have hid : (mk i id x).fsId = (mk i id q).fsId := rfl
  unfold VPath.copyFile at hok
  cases hb : Phys.exists_ m q with
  | true =>
    rw [hb] at hex
    simp [M.withPath, bind, M.bind, hex, M.failAt, Res.withPath] at hok
  | false =>
    rw [hb] at hex
    cases hr : (Phys.copyFile m x q).1 with
    | ok u =>
      rw [hr] at hcf
      obtain ⟨hl, v, hv⟩ := Phys.copyFile_ok_fresh hb hr
      refine ⟨hl, v, ?_⟩
      rw [← hv]
      simp [M.withPath, bind, M.bind, hex, hid, M.attempt, hcf, pure, M.pure, Res.withPath] at hok
      exact hok.symm
    | panic =>
      rw [hr] at hcf
      simp [M.withPath, bind, M.bind, hex, hid, M.attempt, hcf, pure, M.pure, Res.withPath,
        M.ret] at hok
    | err k p =>
      rw [hr] at hcf
      have hk := Phys.copyFile_err_kind m x q k p hr
      simp [M.withPath, bind, M.bind, hex, hid, M.attempt, hcf, pure, M.pure, Res.withPath,
        M.ret, hk] at hok

theorem under_of_below {S k : Str} (h : below S k = true) : under S k = true := by
  unfold Wk.below at h
  unfold under
  rw [h]; simp

section sameLeaf
variable {w : World} {i : Nat} {ms : FMap} (hi : PhysLeafAt w i ms) (hwf : WF ms)
  (hk : FMap.NodupKeys ms) (id fuel : Nat) (S D : Str)

/-- one successful step of the loop keeps the invariant of the source filesystem -/
theorem same_step
    (hjoin : ∀ t e, ms.find? (S ++ '/' :: t) = some e → joinInternal D t = .ok (D ++ '/' :: t))
    (hout : under S D = false) (hanc : below D S = false) :
    ∀ (m : FMap) (w : World) (x : Str) (d : VPath) (w3 : World), SameQ S ms m → PhysLeafAt w i m →
      below (mk i id S).path x = true → (∃ e, m.find? x = some e) →
      VPath.relJoin (mk i id D) (mk i id S).path.length ((mk i id S).withStr x) = .ok d →
      (d.createDir w = (.ok (), w3) ∨ ((mk i id S).withStr x).copyFile d w = (.ok (), w3)) →
      ∃ m', SameQ S ms m' ∧ PhysLeafAt w3 i m' := by
  intro m w x d w3 hQ hV hbx hpres hrj hcase
  obtain ⟨e, he⟩ := hpres
  obtain ⟨t, rfl⟩ := (Wk.below_iff S x).1 hbx
  have hms : ms.find? (S ++ '/' :: t) = some e := by
    rw [← hQ.2.2 _ (under_of_below hbx)]; exact he
  have hj := hjoin t e hms
  have hg := CD.relJoin_graft i id id i S D t hj
  have hd : d = mk i id (D ++ '/' :: t) := by
    have h1 : VPath.relJoin (mk i id D) (mk i id S).path.length (mk i id (S ++ '/' :: t)) = .ok d := hrj
    rw [hg] at h1
    cases h1; rfl
  subst hd
  have hu := not_under_graft hout hanc t
  have hs : '/' ∈ D ++ '/' :: t := by simp
  rcases hcase with hc | hc
  · obtain ⟨hl, hw3⟩ := phys_vcreateDir_ok hV id _ hc
    exact ⟨_, hQ.insert _ _ hl hs hu, by rw [hw3]; exact hV.set _⟩
  · have hc' : VPath.copyFile (mk i id (S ++ '/' :: t)) (mk i id (D ++ '/' :: t)) w = (.ok (), w3) := hc
    obtain ⟨hl, v, hw3⟩ := phys_vcopyFile_ok hV id _ _ hc'
    exact ⟨_, hQ.insert _ v hl hs hu, by rw [hw3]; exact hV.set _⟩

include hi hwf hk

/-- **`phys_copy_dir_terminates` (one filesystem)**: source `S` and destination `D` on the SAME
physical leaf with the same `Arc` identity, well-formed tree. With fuel above the number of
entries below `S`, `copy_dir` returns `.ok` or `.err`, never `.panic` — for EVERY kind of source
(directory, file, absent) — provided `D` contains a '/', is not at or below `S`
(`under S D = false`; for the memory model the divergence without it is
`C13.copyDir_into_own_subtree_diverges`), is
not a proper ancestor of `S` (automatic when the copy runs: `D` must not exist), and the relative
part of every source key is joined onto `D` unchanged (`hjoin`: canonical keys, as in
`CD.Setup.join`). -/
theorem phys_copy_dir_terminates_same (hD : '/' ∈ D)
    (hjoin : ∀ t e, ms.find? (S ++ '/' :: t) = some e → joinInternal D t = .ok (D ++ '/' :: t))
    (hout : under S D = false) (hanc : below D S = false) (hfuel : descCount ms S < fuel) :
    (VPath.copyDir fuel (mk i id S) (mk i id D) w).1 ≠ .panic := by
  intro hpan
  have hin : i < w.leaves.length := leaf_lt_of_some (by unfold PhysLeafAt at hi; rw [hi]; simp)
  obtain ⟨w1, w2, s, w3, hex, hcd, hwalk, hout'⟩ :=
    copyDir_panic_is_fuel fuel (mk i id S) (mk i id D) (leaf_no_panic_len hin)
      (leaf_no_panic_len hin) w rfl hpan
  have hex' : VPath.exists_ (mk i id D) w = (.ok (Phys.exists_ ms D), w) := run_exists_phys hi D
  rw [hex'] at hex
  have hw1 : w1 = w := (congrArg Prod.snd hex).symm
  subst hw1
  obtain ⟨hl, hw2⟩ := phys_vcreateDir_ok hi id D hcd
  have hQ0 : SameQ S ms ms := ⟨hwf, hk, fun _ _ => rfl⟩
  have hQ1 := hQ0.insert D dirEntryNow hl hD hout
  have hV1 : PhysLeafAt w2 i (ms.insert D dirEntryNow) := by rw [hw2]; exact hi.set _
  have tv1 := phys_treeViewOn i hQ1.1 hQ1.2.1
  by_cases hdir : IsDirOf ms S
  · obtain ⟨e, he, hd⟩ := hdir
    have he1 : (ms.insert D dirEntryNow).find? S = some e := by
      rw [hQ1.2.2 S (under_self S)]; exact he
    obtain ⟨l, w', hS', hl', hrun⟩ := run_walkDir' (P := mk i id S) tv1 w2 hV1 S e he1 hd
    have hrun' : VPath.walkDir (mk i id S) w2 = (.ok (st (mk i id S) l []), w') := hrun
    have hW : (st (mk i id S) l []).Below (mk i id S).path := by
      have := (VPath.walkDir_below (mk i id S)).post w2 _ (by rw [hrun'])
      exact this
    rw [hwalk] at hrun'
    cases hrun'
    have g1 := (start_good' hQ1.1 S e he1 hd hl').1
    refine copyItemsOut_false_var (src := mk i id S) (dst := mk i id D)
      (fun m w => PhysLeafAt w i m) (SameQ S ms) ms
      (fun m hQ => phys_treeViewOn i hQ.1 hQ.2.1)
      (fun m hQ => ⟨hQ.1, fun k hk' => hQ.2.2 k (under_of_below hk')⟩)
      (same_step id S D hjoin hout hanc)
      fuel l [] w3 _ hQ1 hS' g1 hW ?_ hout'
    have : ((ms.keys.filter (below S)).filter (pending l [])).length ≤
        (ms.keys.filter (below S)).length := List.length_filter_le _ _
    unfold descCount at hfuel
    exact Nat.lt_of_le_of_lt this hfuel
  · have hnd1 : ¬ IsDirOf (ms.insert D dirEntryNow) S := by
      rintro ⟨e, he, hd⟩
      rw [hQ1.2.2 S (under_self S)] at he
      exact hdir ⟨e, he, hd⟩
    obtain ⟨k, hrun⟩ := phys_walk_not_dir hV1 hQ1.1 id S hnd1 0
    have herr : ∃ k pth, Phys.readDir (ms.insert D dirEntryNow) S = .err k pth := by
      cases hp : (ms.insert D dirEntryNow).find? S with
      | none => exact Phys.readDir_absent _ S hp
      | some e =>
        cases hf : e.ftype with
        | dir => exact absurd ⟨e, hp, hf⟩ hnd1
        | file => exact ⟨_, _, Phys.readDir_file hQ1.1 S e hp hf⟩
    obtain ⟨k', pth, hr⟩ := herr
    have := (collect_readDir_err 0 (mk i id S) w2 w2 k' pth (by
      show (leafFS i).readDir S w2 = _
      rw [prun_readDir hV1 S, hr])).1
    rw [this] at hwalk
    cases hwalk

/-- the same with the hypotheses of `C13.copyDir_never_panics` (memory): canonical destination
`D = renderC bs`, canonical source, canonical keys at or below the source -/
theorem phys_copy_dir_terminates_same_canon (bs : List Str) (hbs : ∀ c ∈ bs, '/' ∉ c)
    (hne : bs ≠ []) (hS : Canon S)
    (hcanon : ∀ k e, ms.find? k = some e → under S k = true → Canon k)
    (hout : under S (renderC bs) = false) (hanc : below (renderC bs) S = false)
    (hfuel : descCount ms S < fuel) :
    (VPath.copyDir fuel (mk i id S) (mk i id (renderC bs)) w).1 ≠ .panic := by
  refine phys_copy_dir_terminates_same hi hwf hk id fuel S (renderC bs) ?_
    (fun t e h => CD.rel_join bs S t hbs hS
      (hcanon _ e h ((under_iff S _).2 (Or.inr ⟨t, rfl⟩)))) hout hanc hfuel
  cases bs with
  | nil => exact absurd rfl hne
  | cons c cs => simp [renderC_cons]

end sameLeaf

/-! ## 9. non-vacuity: a nested physical tree (`C11.mN`: depth 4 below `/r`, an empty directory,
an empty file, siblings `a` / `ab` / `a.b`, unsorted storage), a second physical leaf and a
memory leaf -/

def wP : World :=
  { leaves := [{ kind := .phys, files := C11.mN }, { kind := .phys, files := C11.mK },
               { kind := .mem, files := C11.mK }] }

theorem wP_leaf0 : PhysLeafAt wP 0 C11.mN := rfl
theorem wP_leaf1 : PhysLeafAt wP 1 C11.mK := rfl

/-- the walk from `/r` (8 entries below it): fuel 9 is enough — by the theorem -/
example : ∃ L : List Str, walkCollect 9 (mk 0 7 "/r".toList) wP = (.ok (okItems 0 7 L), wP) :=
  (phys_walk_terminates wP_leaf0 C11.mN_wf C11.mN_nodup 7 "/r".toList).1 9 (by decide)
    ⟨dirEntryNow, by decide, rfl⟩
/-- … and the bound is exact: fuel 8 is the sentinel (theorem and kernel agree) -/
example : (walkCollect 8 (mk 0 7 "/r".toList) wP).1 = .panic :=
  ((phys_walk_terminates wP_leaf0 C11.mN_wf C11.mN_nodup 7 "/r".toList).2.2.2.1 8).2
    ⟨⟨dirEntryNow, by decide, rfl⟩, by decide⟩
example : C05.pathsOf (walkCollect 8 (mk 0 7 "/r".toList) wP) = .panic := by decide +kernel
example : ((walkCollect 9 (mk 0 7 "/r".toList) wP).1.map List.length) = .ok 8 := by decide +kernel
/-- a file, an absent path, a path below a file: errors, not the sentinel, even with fuel 0 -/
example : C05.pathsOf (walkCollect 0 (mk 0 7 "/r/ab".toList) wP) = .err .io (some "/r/ab".toList) := by
  decide +kernel
example : C05.pathsOf (walkCollect 0 (mk 0 7 "/r/ab/q/z".toList) wP) =
    .err .io (some "/r/ab/q/z".toList) := by decide +kernel
example : C05.pathsOf (walkCollect 0 (mk 0 7 "/nope".toList) wP) =
    .err .fileNotFound (some "/nope".toList) := by decide +kernel

/-- `remove_dir_all` with the computed fuel, every kind of path -/
example : (VPath.removeDirAll (keyFuel C11.mN) (mk 0 7 "/r".toList) wP).1 ≠ .panic :=
  phys_remove_dir_all_terminates_keyFuel 7 wP_leaf0 "/r".toList
example : keyFuel C11.mN = 11 := by decide
example : (VPath.removeDirAll 11 (mk 0 7 "/r".toList) wP).1 = .ok () := by
  simp only [← rmAll_eq]; decide +kernel
example : (VPath.removeDirAll 11 (mk 0 7 [])  wP).1 = .ok () := by
  simp only [← rmAll_eq]; decide +kernel
example : (VPath.removeDirAll 11 (mk 0 7 "/r/ab".toList) wP).1 = .err .io (some "/r/ab".toList) := by
  simp only [← rmAll_eq]; decide +kernel
example : (VPath.removeDirAll 11 (mk 0 7 "/nope".toList) wP).1 = .ok () := by
  simp only [← rmAll_eq]; decide +kernel
/-- the sentinel is reachable only by starving the fuel: four nested directories `/r/a/b/c` need 4 -/
example : (VPath.removeDirAll 3 (mk 0 7 "/r".toList) wP).1 = .panic := by
  simp only [← rmAll_eq]; decide +kernel
example : (VPath.removeDirAll 4 (mk 0 7 "/r".toList) wP).1 = .ok () := by
  simp only [← rmAll_eq]; decide +kernel

/-- `copy_dir` physical → physical and physical → memory: by the theorem, and evaluated -/
example : (VPath.copyDir 9 { fs := leafFS 0, fsId := 0, path := "/r".toList }
    { fs := leafFS 1, fsId := 1, path := "/c".toList } wP).1 ≠ .panic :=
  phys_copy_dir_terminates_two wP_leaf0 (by decide) C11.mN_wf C11.mN_nodup (by decide) 0 1
    (by decide) 9 "/r".toList "/c".toList (by decide)
example : (VPath.copyDir 9 { fs := leafFS 0, fsId := 0, path := "/r".toList }
    { fs := leafFS 2, fsId := 2, path := "/c".toList } wP).1 ≠ .panic :=
  phys_copy_dir_terminates_two wP_leaf0 (by decide) C11.mN_wf C11.mN_nodup (by decide) 0 2
    (by decide) 9 "/r".toList "/c".toList (by decide)
example : (VPath.copyDir 9 { fs := leafFS 0, fsId := 0, path := "/r".toList }
    { fs := leafFS 1, fsId := 1, path := "/c".toList } wP).1 = .ok 8 := by decide +kernel
example : (VPath.copyDir 8 { fs := leafFS 0, fsId := 0, path := "/r".toList }
    { fs := leafFS 1, fsId := 1, path := "/c".toList } wP).1 = .panic := by decide +kernel
example : (VPath.copyDir 9 { fs := leafFS 0, fsId := 0, path := "/r".toList }
    { fs := leafFS 2, fsId := 2, path := "/c".toList } wP).1 = .ok 8 := by decide +kernel

/-- `copy_dir` within the one physical filesystem of leaf 0 (same `Arc`): `/r` → `/r2`, and a
sub-directory next to itself `/r/a` → `/r/a2` (destination INSIDE the tree that holds the source,
outside the source) — by the theorem, and evaluated -/
example : (VPath.copyDir 9 (mk 0 0 "/r".toList) (mk 0 0 (renderC ["r2".toList])) wP).1 ≠ .panic :=
  phys_copy_dir_terminates_same_canon wP_leaf0 C11.mN_wf C11.mN_nodup 0 9 "/r".toList
    ["r2".toList] (by decide) (by decide) (C11.canon_of_check _ (by decide)) (C11.mN_canon _)
    (by decide) (by decide) (by decide)
example : (VPath.copyDir 6 (mk 0 0 "/r/a".toList) (mk 0 0 (renderC ["r".toList, "a2".toList])) wP).1 ≠
    .panic :=
  phys_copy_dir_terminates_same_canon wP_leaf0 C11.mN_wf C11.mN_nodup 0 6 "/r/a".toList
    ["r".toList, "a2".toList] (by decide) (by decide) (C11.canon_of_check _ (by decide))
    (C11.mN_canon _) (by decide) (by decide) (by decide)
example : (VPath.copyDir 9 (mk 0 0 "/r".toList) (mk 0 0 "/r2".toList) wP).1 = .ok 8 := by
  decide +kernel
example : (VPath.copyDir 6 (mk 0 0 "/r/a".toList) (mk 0 0 "/r/a2".toList) wP).1 = .ok 5 := by
  decide +kernel
example : (VPath.copyDir 5 (mk 0 0 "/r/a".toList) (mk 0 0 "/r/a2".toList) wP).1 = .panic := by
  decide +kernel
/-- NOT PROVED: `move_dir` within one physical filesystem never reaches the sentinel, for any
fuel (the fast path `std::fs::rename` answers, or the generic route fails before its loop) -/
def phys_move_dir_same_stmt : Prop :=
  ∀ (w : World) (i : Nat) (ms : FMap) (id fuel : Nat) (S D : Str), PhysLeafAt w i ms → WF ms →
    under S D = false → (VPath.moveDir fuel (mk i id S) (mk i id D) w).1 ≠ .panic

#print axioms phys_walk_terminates
#print axioms phys_remove_dir_all_terminates
#print axioms phys_copy_dir_terminates_two
#print axioms phys_move_dir_terminates_two
#print axioms phys_copy_dir_terminates_same_canon

end Vfs.C13
