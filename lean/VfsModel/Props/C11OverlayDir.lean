/-
  C11 THROUGH AN OVERLAY, part 2 — `copy_dir` / `move_dir` of a FLAT directory within one overlay over n ≥ 1
  in-memory layers (setting and vocabulary: Props/C11Overlay.lean).

  PROVED (no sorry; axioms propext, Classical.choice, Quot.sound)
  `overlay_copyDir_flat_exact`: source `ss` a directory of the view all of whose present children
  are FILES of the view (this includes the empty directory); destination `dd ++ [n0]` absent below
  a directory of the view, and not a child of the source (`dd ≠ ss`: otherwise the new directory
  would be walked too — the divergence documented in Props/C11.lean); name discipline `NamesOK`;
  more fuel than the source has children ⇒ Ok with the NUMBER OF CHILDREN as count; the
  destination is a directory of the view; for every child `x` of the source, `dst/x` is a file of
  the view holding exactly the bytes the view shows at `src/x`; the source directory and every
  `src/x` are untouched; every visible path other than the destination and the `dst/x` keeps its
  type and bytes; lower maps unchanged up to the access stamps of the copied files (`LowerSame`);
  `OWN`/`OInv`/`ViewWF`/`NamesOK` hold again.
  `overlay_moveDir_flat_exact`: same hypotheses ⇒ `move_dir` (generic route: the overlay's
  `move_dir` answers NotSupported; copy phase, then `remove_dir_all` of the source with the same
  fuel) returns Ok; destination and `dst/x` as for `copy_dir`; NO TRACE of the source: `src` and
  every disciplined path at or below it (`InSub ss`) is absent from the view; every visible path
  that is neither `dst`, a `dst/x`, nor in the source subtree keeps its type and bytes;
  `LowerSame`; invariants again. (The fuel hypothesis "more fuel than children" also covers the
  removal phase: a flat directory has depth ≤ 1.)
  `copyPhase_flat`: the shared copy phase, call by call.
  `overlay_copyDir_refused`: an existing destination is refused by `copy_dir` and `move_dir`,
  nothing changes.
  Non-vacuity: the 3-layer world of Props/C09Refine.lean (hypotheses by `decide`, `flat_of_keys`
  = decidable sufficient check of flatness; results re-evaluated with `decide +kernel`).
  NOT PROVED: nested source directories (`copy_dir` / `move_dir` of arbitrary trees through the
  overlay); a destination inside the source (excluded by `dd ≠ ss` + flatness: the known
  divergence); cross-filesystem transfers with an overlay on one side.
-/
import VfsModel.Props.C11Overlay
set_option linter.unusedSimpArgs false
set_option linter.unusedVariables false
set_option linter.unusedSectionVars false
namespace Vfs.C11
open Vfs Vfs.Overlay Vfs.C02 Vfs.C01 Vfs.C09 Vfs.C05 Vfs.Wk

/-! ### the walk over a listing of files -/

theorem walkNext_nil (w : World) : VPath.walkNext ⟨[], []⟩ w = (.ok (none, ⟨[], []⟩), w) := rfl

theorem walkNext_file (x : VPath) (inner : List VPath) (w : World) (md : Meta)
    (hm : x.metadata w = (.ok md, w)) (hf : md.ftype = .file) :
    VPath.walkNext ⟨x :: inner, []⟩ w = (.ok (some (.ok x), ⟨inner, []⟩), w) := by
  unfold VPath.walkNext
  simp only [VPath.walkFind, bind, M.bind, pure, M.pure, hm, hf, reduceCtorEq, if_false]

/-- one round of the loop of `copy_dir` on a file item -/
theorem copyItems_file_step (fuel : Nat) (src dst x d : VPath) (inner : List VPath) (count : Nat)
    (w w1 : World) (md : Meta) (hm : x.metadata w = (.ok md, w)) (hf : md.ftype = .file)
    (hrel : VPath.relJoin dst src.path.length x = .ok d) (hcopy : x.copyFile d w = (.ok (), w1)) :
    VPath.copyItems (fuel + 1) src dst ⟨x :: inner, []⟩ count w
      = VPath.copyItems fuel src dst ⟨inner, []⟩ (count + 1) w1 := by
  rw [VPath.copyItems]
  simp only [bind, M.bind, walkNext_file x inner w md hm hf, M.ret, hrel, hm, hf, hcopy]

theorem copyItems_done (fuel : Nat) (src dst : VPath) (count : Nat) (w : World) :
    VPath.copyItems (fuel + 1) src dst ⟨[], []⟩ count w = (.ok count, w) := by
  rw [VPath.copyItems]
  simp only [bind, M.bind, walkNext_nil, pure, M.pure]

theorem relJoin_child (fs : FS) (id id' : Nat) (ss ds : List Str) (n : Str)
    (hds : ∀ c ∈ ds, '/' ∉ c) (hn : GoodComp n) :
    VPath.relJoin ⟨fs, id', renderC ds⟩ (renderC ss).length ⟨fs, id, renderC ss ++ '/' :: n⟩
      = .ok ⟨fs, id', renderC (ds ++ [n])⟩ := by
  unfold VPath.relJoin
  have hlen : ¬ (renderC ss ++ '/' :: n).length < (renderC ss).length + 1 := by simp
  have hdrop : (renderC ss ++ '/' :: n).drop ((renderC ss).length + 1) = n := by
    rw [← List.drop_drop, List.drop_left]; rfl
  have hj := joinInternal_good ds n [] hds hn (by simp)
  simp only [renderC_nil, List.append_nil] at hj
  simp only [hlen, if_false, hdrop, VPath.join, hj, Res.map, VPath.withStr]

/-! ### the loop -/

section loop
variable {u idu : Nat} {is ids : List Nat} (id id' : Nat) {ss ds : List Str}
  (hs : OpPath ss) (hd : OpPath ds) (hsd : ss ≠ ds) (bsOf : Str → Bytes)
include hs hd hsd

theorem copyItems_flat : ∀ (ns : List Str) (fuel count : Nat) (w : World) (mu : FMap)
    (ms : List FMap), OSt u idu is ids ms w mu → ns.Nodup → ns.length < fuel →
    (∀ n ∈ ns, GoodComp n ∧ NoWo n) →
    (∀ n ∈ ns, VHasFile (oview (mu :: ms)) (renderC (ss ++ [n])) (bsOf n)) →
    (∀ n ∈ ns, VAbsent (oview (mu :: ms)) (renderC (ds ++ [n]))) →
    VIsDir (oview (mu :: ms)) (renderC ds) →
    ∃ w' mu' ms', VPath.copyItems fuel
        ⟨Overlay.fs (layersN (u :: is) (idu :: ids)), id, renderC ss⟩
        ⟨Overlay.fs (layersN (u :: is) (idu :: ids)), id', renderC ds⟩
        ⟨ns.map fun n => (⟨Overlay.fs (layersN (u :: is) (idu :: ids)), id,
            renderC ss ++ '/' :: n⟩ : VPath), []⟩ count w = (.ok (count + ns.length), w') ∧
      OSt u idu is ids ms' w' mu' ∧ LowerSame ms ms' ∧
      (NamesOK (mu :: ms) → NamesOK (mu' :: ms')) ∧
      (∀ n ∈ ns, VHasFile (oview (mu' :: ms')) (renderC (ds ++ [n])) (bsOf n)) ∧
      (∀ q, Vis q → (∀ n ∈ ns, q ≠ renderC (ds ++ [n])) →
        (oview (mu' :: ms') q).map vcore = (oview (mu :: ms) q).map vcore) := by
  intro ns
  induction ns with
  | nil =>
    intro fuel count w mu ms st _ hfuel _ _ _ _
    obtain ⟨f, rfl⟩ : ∃ f, fuel = f + 1 := ⟨fuel - 1, by simp at hfuel; omega⟩
    refine ⟨w, mu, ms, ?_, st, LowerSame.refl ms, fun h => h, ?_, fun q _ _ => rfl⟩
    · rw [List.map_nil, copyItems_done]; rfl
    · intro n hn; cases hn
  | cons n rest ih =>
    intro fuel count w mu ms st hnd hfuel hgood hfiles habs hdir
    obtain ⟨f, rfl⟩ : ∃ f, fuel = f + 1 := ⟨fuel - 1, by simp at hfuel; omega⟩
    obtain ⟨hg, hw⟩ := hgood n (by simp)
    have hpsn : OpPath (ss ++ [n]) := hs.child hg hw
    have hpdn : OpPath (ds ++ [n]) := hd.child hg hw
    have hfile := hfiles n (by simp)
    obtain ⟨e, he, hft, hcont⟩ := hfile
    have hmeta := o_metadata st id hpsn he
    rw [renderC_snoc] at hmeta
    obtain ⟨w1, mu1, ms1, hcopy, hown1, hl1, inv1, hv1, hn1, hdst1, hsrc1, hframe1⟩ :=
      overlay_copyFile_exact st.own st.inv st.vwf id id' hpsn hpdn (hfiles n (by simp)) hdir
        (habs n (by simp))
    rw [renderC_snoc] at hcopy
    have st1 : OSt u idu is ids ms1 w1 mu1 := ⟨hown1, inv1, hv1⟩
    have hstep := copyItems_file_step f
      ⟨Overlay.fs (layersN (u :: is) (idu :: ids)), id, renderC ss⟩
      ⟨Overlay.fs (layersN (u :: is) (idu :: ids)), id', renderC ds⟩
      ⟨Overlay.fs (layersN (u :: is) (idu :: ids)), id, renderC ss ++ '/' :: n⟩
      ⟨Overlay.fs (layersN (u :: is) (idu :: ids)), id', renderC (ds ++ [n])⟩
      (rest.map fun n => (⟨Overlay.fs (layersN (u :: is) (idu :: ids)), id,
            renderC ss ++ '/' :: n⟩ : VPath)) count w w1 e.meta hmeta hft
      (relJoin_child _ id id' ss ds n (good_noSlash hd.good) hg) hcopy
    have hnotin : n ∉ rest := (List.nodup_cons.1 hnd).1
    -- the hypotheses for the rest, in the new state
    have hne_sd : ∀ a b : Str, OpPath (ss ++ [a]) → OpPath (ds ++ [b]) →
        renderC (ss ++ [a]) ≠ renderC (ds ++ [b]) := by
      intro a b hpa hpb h0
      have := C06.renderC_injective _ _ (good_noSlash hpa.good) (good_noSlash hpb.good) h0
      exact hsd (List.append_inj' this rfl).1
    have hne_dd : ∀ a : Str, a ≠ n → renderC (ds ++ [a]) ≠ renderC (ds ++ [n]) := by
      intro a ha h0
      rw [renderC_snoc, renderC_snoc] at h0
      have := List.append_cancel_left h0
      injection this with _ h1
      exact ha h1
    have hgood' : ∀ n' ∈ rest, GoodComp n' ∧ NoWo n' := fun n' hn' => hgood n' (by simp [hn'])
    have hfiles' : ∀ n' ∈ rest,
        VHasFile (oview (mu1 :: ms1)) (renderC (ss ++ [n'])) (bsOf n') := by
      intro n' hn'
      have hp' := hs.child (hgood' n' hn').1 (hgood' n' hn').2
      exact (hasFile_of_vcore (hframe1 _ hp'.vis (hne_sd n' n hp' hpdn))).2
        (hfiles n' (by simp [hn']))
    have habs' : ∀ n' ∈ rest, VAbsent (oview (mu1 :: ms1)) (renderC (ds ++ [n'])) := by
      intro n' hn'
      have hp' := hd.child (hgood' n' hn').1 (hgood' n' hn').2
      exact (none_of_vcore (hframe1 _ hp'.vis
        (hne_dd n' (fun h0 => hnotin (h0 ▸ hn'))))).2 (habs n' (by simp [hn']))
    have hdir' : VIsDir (oview (mu1 :: ms1)) (renderC ds) :=
      (isDir_of_vcore (hframe1 _ hd.vis OpPath.parent_ne)).2 hdir
    obtain ⟨w2, mu2, ms2, hrun2, st2, hl2, hn2, hdst2, hframe2⟩ :=
      ih f (count + 1) w1 mu1 ms1 st1 (List.nodup_cons.1 hnd).2 (by simp at hfuel; omega)
        hgood' hfiles' habs' hdir'
    refine ⟨w2, mu2, ms2, ?_, st2, hl1.trans hl2, fun h => hn2 (hn1 h), ?_, ?_⟩
    · rw [List.map_cons, hstep, hrun2, List.length_cons]
      congr 2; omega
    · intro n' hn'
      rcases List.mem_cons.1 hn' with rfl | hn'
      · exact (hasFile_of_vcore (hframe2 _ hpdn.vis
          (fun n'' hn'' => (hne_dd n'' (fun h0 => hnotin (h0 ▸ hn''))).symm))).2 hdst1
      · exact hdst2 n' hn'
    · intro q hq hne
      exact (hframe2 q hq (fun n' hn' => hne n' (by simp [hn']))).trans
        (hframe1 q hq (hne n (by simp)))

end loop


/-! ### copy_dir of a flat directory -/

theorem overlay_fast_moveDir (layers : List VPath) (a b : Nat) (s d : Str) (w : World) :
    (if a = b then M.attempt ((Overlay.fs layers).moveDir s d)
      else (pure (Res.err .notSupported none) : M (Res Unit))) w
      = (.ok (Res.err .notSupported none), w) := by
  split <;> rfl

section copyDir
variable {w : World} {u idu : Nat} {mu : FMap} {is ids : List Nat} {ms : List FMap}
  (h : OWN w (u :: is) (idu :: ids) (mu :: ms)) (inv : OInv mu ms)
  (hv : ViewWF (oview (mu :: ms))) (id id' : Nat)
include h

/-- **an existing destination is refused without side effects**: `copy_dir` (and `move_dir`)
answer `Other` labelled with the source path, the world is unchanged -/
theorem overlay_copyDir_refused (s : Str) (fuel : Nat) {cs : List Str} (hp : OpPath cs)
    (hpres : oview (mu :: ms) (renderC cs) ≠ none) :
    VPath.copyDir fuel ⟨Overlay.fs (layersN (u :: is) (idu :: ids)), id, s⟩
        ⟨Overlay.fs (layersN (u :: is) (idu :: ids)), id', renderC cs⟩ w
      = (.err .other (some s), w) ∧
    VPath.moveDir fuel ⟨Overlay.fs (layersN (u :: is) (idu :: ids)), id, s⟩
        ⟨Overlay.fs (layersN (u :: is) (idu :: ids)), id', renderC cs⟩ w
      = (.err .other (some s), w) := by
  have hex : VPath.exists_ ⟨Overlay.fs (layersN (u :: is) (idu :: ids)), id', renderC cs⟩ w
      = (.ok true, w) := by
    show (Overlay.fs (layersN (u :: is) (idu :: ids))).exists_ (renderC cs) w = _
    rw [exists_is_viewN h cs hp.ne hp.good, ← oview_ne (renderC_ne_nil hp.ne)]
    obtain ⟨e, he⟩ := (C05.ne_none_iff _).1 hpres
    rw [he]; rfl
  constructor
  · unfold VPath.copyDir
    simp [M.withPath, bind, M.bind, hex, M.failAt, Res.withPath]
  · unfold VPath.moveDir
    simp [M.withPath, bind, M.bind, hex, M.failAt, Res.withPath]

include inv hv

/-- the copy phase shared by `copy_dir` and `move_dir` on a flat source: the four calls
(`exists` of the destination, `create_dir`, `walk_dir`, the loop) evaluated, and the state they
lead to -/
theorem copyPhase_flat (hn : NamesOK (mu :: ms)) {ss dd : List Str} {n0 : Str}
    (hs : OpPath ss) (hd : OpPath (dd ++ [n0])) (hsd : dd ≠ ss)
    (hsrc : VIsDir (oview (mu :: ms)) (renderC ss))
    (hflat : ∀ x, '/' ∉ x → oview (mu :: ms) (renderC ss ++ '/' :: x) ≠ none →
      VIsFile (oview (mu :: ms)) (renderC ss ++ '/' :: x))
    (hpar : VIsDir (oview (mu :: ms)) (renderC dd))
    (habs : VAbsent (oview (mu :: ms)) (renderC (dd ++ [n0]))) (fuel : Nat)
    (hfuel : (pListingN (mu :: ms) (renderC ss)).length < fuel) :
    ∃ w1 S w' mu' ms',
      VPath.exists_ ⟨Overlay.fs (layersN (u :: is) (idu :: ids)), id', renderC (dd ++ [n0])⟩ w
        = (.ok false, w) ∧
      VPath.createDir ⟨Overlay.fs (layersN (u :: is) (idu :: ids)), id', renderC (dd ++ [n0])⟩ w
        = (.ok (), w1) ∧
      VPath.walkDir ⟨Overlay.fs (layersN (u :: is) (idu :: ids)), id, renderC ss⟩ w1
        = (.ok S, w1) ∧
      VPath.copyItems fuel ⟨Overlay.fs (layersN (u :: is) (idu :: ids)), id, renderC ss⟩
        ⟨Overlay.fs (layersN (u :: is) (idu :: ids)), id', renderC (dd ++ [n0])⟩ S 0 w1
        = (.ok (pListingN (mu :: ms) (renderC ss)).length, w') ∧
      OWN w' (u :: is) (idu :: ids) (mu' :: ms') ∧ LowerSame ms ms' ∧ OInv mu' ms' ∧
      ViewWF (oview (mu' :: ms')) ∧ NamesOK (mu' :: ms') ∧
      VIsDir (oview (mu' :: ms')) (renderC (dd ++ [n0])) ∧
      (∀ x ∈ pListingN (mu :: ms) (renderC ss), (GoodComp x ∧ NoWo x) ∧ ∃ bs,
        VHasFile (oview (mu :: ms)) (renderC (ss ++ [x])) bs ∧
        VHasFile (oview (mu' :: ms')) (renderC (dd ++ [n0] ++ [x])) bs ∧
        VHasFile (oview (mu' :: ms')) (renderC (ss ++ [x])) bs) ∧
      (∀ q, Vis q → q ≠ renderC (dd ++ [n0]) →
        (∀ x ∈ pListingN (mu :: ms) (renderC ss), q ≠ renderC (dd ++ [n0] ++ [x])) →
        (oview (mu' :: ms') q).map vcore = (oview (mu :: ms) q).map vcore) := by
  have st : OSt u idu is ids ms w mu := ⟨h, inv, hv⟩
  -- source and destination are different paths
  have hsd' : ss ≠ dd ++ [n0] := by
    intro h0
    rw [h0] at hsrc
    exact not_absent_of_dir hsrc habs
  -- the destination does not exist
  have hex := o_exists st id' hd
  rw [show oview (mu :: ms) (renderC (dd ++ [n0])) = none from habs] at hex
  -- create_dir of the destination
  obtain ⟨r, mu1, hcd, hown1, inv1, hc⟩ := vpath_overlay_createDir_contractN h inv hv hd id'
  have hop : OpOK (.createDir (renderC (dd ++ [n0]))) := ⟨dd, n0, hd, rfl⟩
  have hr : r = .ok () := isOk_unit (hc.ok_iff.2 ⟨by rw [hd.parent]; exact hpar, habs⟩)
  subst hr
  obtain ⟨⟨hdir1, hnoc1⟩, hframe1⟩ := hc.effect rfl
  have hv1 := viewWF_of_contract hv hop hc
  have hn1 : NamesOK (mu1 :: ms) := namesOK_step hn hop hc
  have st1 : OSt u idu is ids ms (w.setLeafFiles u mu1) mu1 := ⟨hown1, inv1, hv1⟩
  -- a child of the source is never the destination
  have hne_child : ∀ x, '/' ∉ x → renderC ss ++ '/' :: x ≠ renderC (dd ++ [n0]) := by
    intro x hxs h0
    rw [renderC_snoc] at h0
    have hx := congrArg (afterLast '/') h0
    rw [afterLast_append_delim '/' _ x hxs, afterLast_append_delim '/' _ n0 hd.hn.noSlash] at hx
    subst hx
    exact hsd (C06.renderC_injective _ _ (good_noSlash hs.good) (good_noSlash hd.hds)
      (List.append_cancel_right h0)).symm
  have hchildvis : ∀ x, Vis (renderC ss ++ '/' :: x) :=
    fun x => Or.inr (NR_child hs.ne (good_noSlash hs.good) hs.head x)
  have hsrc1 : VIsDir (oview (mu1 :: ms)) (renderC ss) :=
    (isDir_of_vcore (hframe1 _ hs.vis (fun h0 => hsd'
      (C06.renderC_injective _ _ (good_noSlash hs.good) (good_noSlash hd.good) h0)))).2 hsrc
  have hrd := o_readDir st1 id hs hsrc1
  -- the listing after `create_dir` has the same members as before
  have hmem1 := o_listing_mem st1 hs
  have hmem0 := o_listing_mem st hs
  have hperm : (pListingN (mu1 :: ms) (renderC ss)).Perm (pListingN (mu :: ms) (renderC ss)) := by
    refine (List.perm_ext_iff_of_nodup (nodup_pListingN _ _) (nodup_pListingN _ _)).2 (fun x => ?_)
    rw [hmem1, hmem0]
    constructor
    · rintro ⟨a, b⟩
      exact ⟨a, fun h0 => b ((none_of_vcore (hframe1 _ (hchildvis x) (hne_child x a))).2 h0)⟩
    · rintro ⟨a, b⟩
      exact ⟨a, fun h0 => b ((none_of_vcore (hframe1 _ (hchildvis x) (hne_child x a))).1 h0)⟩
  have hlen := hperm.length_eq
  -- the bytes the view shows at the children of the source
  let bsOf : Str → Bytes := fun x =>
    match oview (mu :: ms) (renderC (ss ++ [x])) with
    | some e => e.content
    | none => []
  have hfile0 : ∀ x ∈ pListingN (mu :: ms) (renderC ss),
      VHasFile (oview (mu :: ms)) (renderC (ss ++ [x])) (bsOf x) := by
    intro x hx
    obtain ⟨hxs, hpres⟩ := (hmem0 x).1 hx
    obtain ⟨e, he, hf⟩ := hflat x hxs hpres
    rw [← renderC_snoc] at he
    refine ⟨e, he, hf, ?_⟩
    show e.content = (match oview (mu :: ms) (renderC (ss ++ [x])) with
      | some e => e.content
      | none => [])
    rw [he]
  have hgood1 : ∀ x ∈ pListingN (mu1 :: ms) (renderC ss), GoodComp x ∧ NoWo x := by
    intro x hx
    obtain ⟨hxs, hpres⟩ := (hmem1 x).1 hx
    rw [oview_ne (by simp)] at hpres
    exact hn1 ss x (Or.inr hs) hxs hpres (fun h0 => absurd h0 hs.ne)
  have hfiles1 : ∀ x ∈ pListingN (mu1 :: ms) (renderC ss),
      VHasFile (oview (mu1 :: ms)) (renderC (ss ++ [x])) (bsOf x) := by
    intro x hx
    obtain ⟨hxs, _⟩ := (hmem1 x).1 hx
    have hsame := hframe1 _ (hchildvis x) (hne_child x hxs)
    rw [← renderC_snoc] at hsame
    exact (hasFile_of_vcore hsame).2 (hfile0 x (hperm.mem_iff.1 hx))
  have habs1 : ∀ x ∈ pListingN (mu1 :: ms) (renderC ss),
      VAbsent (oview (mu1 :: ms)) (renderC (dd ++ [n0] ++ [x])) := by
    intro x hx
    rw [renderC_snoc]
    exact hnoc1 x ((hmem1 x).1 hx).1
  obtain ⟨w2, mu2, ms2, hloop, st2, hl2, hn2, hdst2, hframe2⟩ :=
    copyItems_flat id id' hs hd hsd' bsOf (pListingN (mu1 :: ms) (renderC ss)) fuel 0
      (w.setLeafFiles u mu1) mu1 ms st1 (nodup_pListingN _ _) (by rw [hlen]; exact hfuel)
      hgood1 hfiles1 habs1 hdir1
  rw [Nat.zero_add, hlen] at hloop
  have hne_sd : ∀ x y, GoodComp x → GoodComp y →
      renderC (ss ++ [x]) ≠ renderC (dd ++ [n0] ++ [y]) := by
    intro x y hx hy h0
    have hg1 : ∀ c ∈ ss ++ [x], '/' ∉ c := by
      intro c hc
      rcases List.mem_append.1 hc with hc | hc
      · exact good_noSlash hs.good c hc
      · rw [List.mem_singleton.1 hc]; exact hx.noSlash
    have hg2 : ∀ c ∈ dd ++ [n0] ++ [y], '/' ∉ c := by
      intro c hc
      rcases List.mem_append.1 hc with hc | hc
      · exact good_noSlash hd.good c hc
      · rw [List.mem_singleton.1 hc]; exact hy.noSlash
    exact hsd' (List.append_inj' (C06.renderC_injective _ _ hg1 hg2 h0) rfl).1
  have hwalk : VPath.walkDir ⟨Overlay.fs (layersN (u :: is) (idu :: ids)), id, renderC ss⟩
      (w.setLeafFiles u mu1) = (.ok ⟨(pListingN (mu1 :: ms) (renderC ss)).map fun n =>
        (⟨Overlay.fs (layersN (u :: is) (idu :: ids)), id, renderC ss ++ '/' :: n⟩ : VPath), []⟩,
        w.setLeafFiles u mu1) := by
    unfold VPath.walkDir
    simp only [bind, M.bind, hrd, pure, M.pure]
  simp only [Option.isSome_none] at hex
  refine ⟨_, _, w2, mu2, ms2, hex, hcd, hwalk, hloop, st2.own, hl2, st2.inv, st2.vwf, hn2 hn1,
    ?_, ?_, ?_⟩
  · exact (isDir_of_vcore (hframe2 _ hd.vis (fun x _ => OpPath.parent_ne))).2 hdir1
  · intro x hx0
    have hx1 := hperm.mem_iff.2 hx0
    refine ⟨hgood1 x hx1, bsOf x, hfile0 x hx0, hdst2 x hx1, ?_⟩
    have hpx : OpPath (ss ++ [x]) := hs.child (hgood1 x hx1).1 (hgood1 x hx1).2
    exact (hasFile_of_vcore (hframe2 _ hpx.vis
      (fun y hy => hne_sd x y (hgood1 x hx1).1 (hgood1 y hy).1))).2 (hfiles1 x hx1)
  · intro q hq hq1 hq2
    exact (hframe2 q hq (fun x hx => hq2 x (hperm.mem_iff.1 hx))).trans (hframe1 q hq hq1)

/-- **copy_dir of a flat directory within one overlay.** Source `ss` a directory of the view
whose present children are all files; destination `dd ++ [n0]` absent, below a directory of the
view, not a child of the source; name discipline; more fuel than children. Then: Ok with the
number of children as count (the length of the merged listing of the source); the destination is
a directory of the view; each `dst/x` holds exactly the bytes of `src/x`, which is untouched;
every visible path other than `dst` and the `dst/x` keeps its type and bytes; lower maps
unchanged up to access stamps; invariants again. -/
theorem overlay_copyDir_flat_exact (hn : NamesOK (mu :: ms)) {ss dd : List Str} {n0 : Str}
    (hs : OpPath ss) (hd : OpPath (dd ++ [n0])) (hsd : dd ≠ ss)
    (hsrc : VIsDir (oview (mu :: ms)) (renderC ss))
    (hflat : ∀ x, '/' ∉ x → oview (mu :: ms) (renderC ss ++ '/' :: x) ≠ none →
      VIsFile (oview (mu :: ms)) (renderC ss ++ '/' :: x))
    (hpar : VIsDir (oview (mu :: ms)) (renderC dd))
    (habs : VAbsent (oview (mu :: ms)) (renderC (dd ++ [n0]))) (fuel : Nat)
    (hfuel : (pListingN (mu :: ms) (renderC ss)).length < fuel) :
    ∃ w' mu' ms', VPath.copyDir fuel
        ⟨Overlay.fs (layersN (u :: is) (idu :: ids)), id, renderC ss⟩
        ⟨Overlay.fs (layersN (u :: is) (idu :: ids)), id', renderC (dd ++ [n0])⟩ w
        = (.ok (pListingN (mu :: ms) (renderC ss)).length, w') ∧
      OWN w' (u :: is) (idu :: ids) (mu' :: ms') ∧ LowerSame ms ms' ∧ OInv mu' ms' ∧
      ViewWF (oview (mu' :: ms')) ∧ NamesOK (mu' :: ms') ∧
      VIsDir (oview (mu' :: ms')) (renderC (dd ++ [n0])) ∧
      (∀ x ∈ pListingN (mu :: ms) (renderC ss), ∃ bs,
        VHasFile (oview (mu :: ms)) (renderC (ss ++ [x])) bs ∧
        VHasFile (oview (mu' :: ms')) (renderC (dd ++ [n0] ++ [x])) bs ∧
        VHasFile (oview (mu' :: ms')) (renderC (ss ++ [x])) bs) ∧
      (∀ q, Vis q → q ≠ renderC (dd ++ [n0]) →
        (∀ x ∈ pListingN (mu :: ms) (renderC ss), q ≠ renderC (dd ++ [n0] ++ [x])) →
        (oview (mu' :: ms') q).map vcore = (oview (mu :: ms) q).map vcore) := by
  obtain ⟨w1, S, w', mu', ms', hex, hcd, hwalk, hloop, a, b, c, d, e, f, g, k⟩ :=
    copyPhase_flat h inv hv id id' hn hs hd hsd hsrc hflat hpar habs fuel hfuel
  refine ⟨w', mu', ms', ?_, a, b, c, d, e, f, fun x hx => (g x hx).2, k⟩
  unfold VPath.copyDir
  simp only [M.withPath, bind, M.bind, hex, hcd, hwalk, hloop, Res.withPath, Bool.false_eq_true,
    if_false]


/-- **move_dir of a flat directory within one overlay**: the copy phase of `copy_dir`, then
`remove_dir_all` of the source (same fuel). Same hypotheses as `overlay_copyDir_flat_exact`.
Then: Ok; the destination is a directory of the view; each `dst/x` holds exactly the bytes the
view showed at `src/x`; NO TRACE of the source: `src` and every disciplined path at or below it
is absent; every other visible path (not `dst`, not a `dst/x`) keeps its type and bytes; lower
maps unchanged up to access stamps; invariants again. -/
theorem overlay_moveDir_flat_exact (hn : NamesOK (mu :: ms)) {ss dd : List Str} {n0 : Str}
    (hs : OpPath ss) (hd : OpPath (dd ++ [n0])) (hsd : dd ≠ ss)
    (hsrc : VIsDir (oview (mu :: ms)) (renderC ss))
    (hflat : ∀ x, '/' ∉ x → oview (mu :: ms) (renderC ss ++ '/' :: x) ≠ none →
      VIsFile (oview (mu :: ms)) (renderC ss ++ '/' :: x))
    (hpar : VIsDir (oview (mu :: ms)) (renderC dd))
    (habs : VAbsent (oview (mu :: ms)) (renderC (dd ++ [n0]))) (fuel : Nat)
    (hfuel : (pListingN (mu :: ms) (renderC ss)).length < fuel) :
    ∃ w' mu' ms', VPath.moveDir fuel
        ⟨Overlay.fs (layersN (u :: is) (idu :: ids)), id, renderC ss⟩
        ⟨Overlay.fs (layersN (u :: is) (idu :: ids)), id', renderC (dd ++ [n0])⟩ w = (.ok (), w') ∧
      OWN w' (u :: is) (idu :: ids) (mu' :: ms') ∧ LowerSame ms ms' ∧ OInv mu' ms' ∧
      ViewWF (oview (mu' :: ms')) ∧ NamesOK (mu' :: ms') ∧
      VIsDir (oview (mu' :: ms')) (renderC (dd ++ [n0])) ∧
      (∀ x ∈ pListingN (mu :: ms) (renderC ss), ∃ bs,
        VHasFile (oview (mu :: ms)) (renderC (ss ++ [x])) bs ∧
        VHasFile (oview (mu' :: ms')) (renderC (dd ++ [n0] ++ [x])) bs) ∧
      (∀ q, InSub ss q → oview (mu' :: ms') q = none) ∧
      (∀ q, Vis q → q ≠ renderC (dd ++ [n0]) →
        (∀ x ∈ pListingN (mu :: ms) (renderC ss), q ≠ renderC (dd ++ [n0] ++ [x])) →
        ¬ InSub ss q → (oview (mu' :: ms') q).map vcore = (oview (mu :: ms) q).map vcore) := by
  have st : OSt u idu is ids ms w mu := ⟨h, inv, hv⟩
  obtain ⟨w1, S, w2, mu2, ms2, hex, hcd, hwalk, hloop, own2, hl2, inv2, vwf2, hn2, hdir2, hch2,
    hframe2⟩ := copyPhase_flat h inv hv id id' hn hs hd hsd hsrc hflat hpar habs fuel hfuel
  have hmem0 := o_listing_mem st hs
  -- the destination is neither the source nor below it
  have hnotbelow : ∀ ts, dd ++ [n0] ≠ ss ++ ts := by
    intro ts h0
    rcases List.eq_nil_or_concat ts with rfl | ⟨ts0, t, rfl⟩
    · rw [List.append_nil] at h0
      rw [← h0] at hsrc
      exact not_absent_of_dir hsrc habs
    · rw [List.concat_eq_append, ← List.append_assoc] at h0
      have hdd : dd = ss ++ ts0 := (List.append_inj' h0 rfl).1
      cases ts0 with
      | nil => exact hsd (by rw [hdd, List.append_nil])
      | cons t1 r =>
        have hpd : OpPath ((ss ++ [t1]) ++ r) := by
          have : OpPath (dd ++ [n0]) := hd
          rw [hdd] at this
          have h2 : OpPath (((ss ++ [t1]) ++ r) ++ [n0]) := by
            simpa [List.append_assoc] using this
          exact h2.prefix (by simp)
        have hpar' : VIsDir (oview (mu :: ms)) (renderC ((ss ++ [t1]) ++ r)) := by
          have : (ss ++ [t1]) ++ r = dd := by rw [hdd]; simp
          rw [this]; exact hpar
        have hdir : VIsDir (oview (mu :: ms)) (renderC (ss ++ [t1])) := by
          by_cases hr : r = []
          · subst hr; rw [List.append_nil] at hpar'; exact hpar'
          · exact present_below_dir hv (by simp) r hr hpd (not_absent_of_dir hpar')
        have hpt : OpPath (ss ++ [t1]) := hpd.prefix (by simp)
        have hfile := hflat t1 hpt.hn.noSlash
          (by rw [← renderC_snoc]; exact not_absent_of_dir hdir)
        rw [← renderC_snoc] at hfile
        exact not_file_and_dir hfile hdir
  have hsrc_ne_dst : renderC ss ≠ renderC (dd ++ [n0]) := by
    intro h0
    have := C06.renderC_injective _ _ (good_noSlash hs.good) (good_noSlash hd.good) h0
    exact hnotbelow [] (by rw [List.append_nil]; exact this.symm)
  have hsrc_ne_dstx : ∀ x, GoodComp x → NoWo x → renderC ss ≠ renderC (dd ++ [n0] ++ [x]) := by
    intro x hg hw h0
    have hpx : OpPath (dd ++ [n0] ++ [x]) := hd.child hg hw
    have hpres : oview (mu :: ms) (renderC (dd ++ [n0] ++ [x])) ≠ none := by
      rw [← h0]; exact not_absent_of_dir hsrc
    have := C03.viewWF_no_orphan hv hpx.ne hpx.good hpx.head hpres
    rw [hpx.parent] at this
    exact not_absent_of_dir this habs
  have hne_sd : ∀ x y, GoodComp x → GoodComp y →
      renderC (ss ++ [x]) ≠ renderC (dd ++ [n0] ++ [y]) := by
    intro x y hx hy h0
    have hg1 : ∀ c ∈ ss ++ [x], '/' ∉ c := by
      intro c hc
      rcases List.mem_append.1 hc with hc | hc
      · exact good_noSlash hs.good c hc
      · rw [List.mem_singleton.1 hc]; exact hx.noSlash
    have hg2 : ∀ c ∈ dd ++ [n0] ++ [y], '/' ∉ c := by
      intro c hc
      rcases List.mem_append.1 hc with hc | hc
      · exact good_noSlash hd.good c hc
      · rw [List.mem_singleton.1 hc]; exact hy.noSlash
    exact hnotbelow [] (by
      rw [List.append_nil]
      exact ((List.append_inj' (C06.renderC_injective _ _ hg1 hg2 h0) rfl).1).symm)
  have hne_child : ∀ x, OpPath (ss ++ [x]) → renderC (ss ++ [x]) ≠ renderC (dd ++ [n0]) := by
    intro x hpx h0
    have := C06.renderC_injective _ _ (good_noSlash hpx.good) (good_noSlash hd.good) h0
    exact hsd (List.append_inj' this rfl).1.symm
  have hgoodL : ∀ x ∈ pListingN (mu :: ms) (renderC ss), GoodComp x ∧ NoWo x :=
    fun x hx => (hch2 x hx).1
  -- the source in the state after the copy phase
  have hsrc2 : VIsDir (oview (mu2 :: ms2)) (renderC ss) :=
    (isDir_of_vcore (hframe2 _ hs.vis hsrc_ne_dst
      (fun x hx => hsrc_ne_dstx x (hgoodL x hx).1 (hgoodL x hx).2))).2 hsrc
  have hchild_same : ∀ x, OpPath (ss ++ [x]) →
      (oview (mu2 :: ms2) (renderC (ss ++ [x]))).map vcore
        = (oview (mu :: ms) (renderC (ss ++ [x]))).map vcore :=
    fun x hpx => hframe2 _ hpx.vis (hne_child x hpx)
      (fun y hy => hne_sd x y hpx.hn (hgoodL y hy).1)
  have hfuel2 : FuelOK (oview (mu2 :: ms2)) ss fuel := by
    intro ts hpt hpres
    match ts, hpt, hpres with
    | [], _, _ => exact Nat.lt_of_le_of_lt (Nat.zero_le _) hfuel
    | [x], hpt, hpres =>
      have hold : oview (mu :: ms) (renderC (ss ++ [x])) ≠ none :=
        fun h0 => hpres ((none_of_vcore (hchild_same x hpt)).2 h0)
      have hxm := (hmem0 x).2 ⟨hpt.hn.noSlash, by rw [← renderC_snoc]; exact hold⟩
      have : 0 < (pListingN (mu :: ms) (renderC ss)).length := List.length_pos_of_mem hxm
      simp only [List.length_cons, List.length_nil]
      omega
    | x :: y :: r, hpt, hpres =>
      exfalso
      have hpt' : OpPath ((ss ++ [x]) ++ (y :: r)) := by
        rw [List.append_assoc]; exact hpt
      have hpx : OpPath (ss ++ [x]) := hpt'.prefix (by simp)
      have hdir2' : VIsDir (oview (mu2 :: ms2)) (renderC (ss ++ [x])) :=
        present_below_dir vwf2 (by simp) (y :: r) (by simp) hpt'
          (by rw [List.append_assoc]; exact hpres)
      have hdir0 := (isDir_of_vcore (hchild_same x hpx)).1 hdir2'
      have hfile := hflat x hpx.hn.noSlash
        (by rw [← renderC_snoc]; exact not_absent_of_dir hdir0)
      rw [← renderC_snoc] at hfile
      exact not_file_and_dir hfile hdir0
  obtain ⟨mu3, hrun3, own3, inv3, vwf3, hn3, hgone3, hframe3⟩ :=
    overlay_removeDirAll_exact own2 inv2 vwf2 id hn2 fuel hs hsrc2 hfuel2
  -- destination and its children are not in the subtree of the source
  have hdst_notin : ¬ InSub ss (renderC (dd ++ [n0])) := by
    rintro ⟨ts, hpt, h0⟩
    exact hnotbelow ts (C06.renderC_injective _ _ (good_noSlash hd.good) (good_noSlash hpt.good) h0)
  have hdstx_notin : ∀ x, GoodComp x → NoWo x → ¬ InSub ss (renderC (dd ++ [n0] ++ [x])) := by
    intro x hg hw ⟨ts, hpt, h0⟩
    have hpx : OpPath (dd ++ [n0] ++ [x]) := hd.child hg hw
    have heq := C06.renderC_injective _ _ (good_noSlash hpx.good) (good_noSlash hpt.good) h0
    rcases List.eq_nil_or_concat ts with rfl | ⟨ts0, t, rfl⟩
    · rw [List.append_nil] at h0
      exact hsrc_ne_dstx x hg hw h0.symm
    · rw [List.concat_eq_append, ← List.append_assoc] at heq
      exact hnotbelow ts0 (List.append_inj' heq rfl).1
  refine ⟨_, mu3, ms2, ?_, own3, hl2, inv3, vwf3, hn3, ?_, ?_, hgone3, ?_⟩
  · unfold VPath.moveDir
    simp only [M.withPath, bind, M.bind, hex, fail, overlay_fast_moveDir, hcd, hwalk, hloop, hrun3,
      Res.withPath, Bool.false_eq_true, if_false, ne_eq, not_true_eq_false]
  · exact (isDir_of_vcore (hframe3 _ hd.vis hdst_notin)).2 hdir2
  · intro x hx
    obtain ⟨⟨hg, hw⟩, bs, h1, h2, _⟩ := hch2 x hx
    exact ⟨bs, h1, (hasFile_of_vcore (hframe3 _ (hd.child hg hw).vis (hdstx_notin x hg hw))).2 h2⟩
  · intro q hq h1 h2 h3
    exact (hframe3 q hq h3).trans (hframe2 q hq h1 h2)

end copyDir

/-! ### non-vacuity: the 3-layer world of Props/C09Refine.lean -/

/-- a decidable sufficient check of flatness on the keys of the layer maps: every key whose
parent is the source is absent from the view or a file of the view -/
theorem flat_of_keys {all : List FMap} {p : Str}
    (hk : ∀ m ∈ all, ∀ k ∈ m.keys, parentInternal k = p →
      oview all k = none ∨ VIsFile (oview all) k) :
    ∀ x, '/' ∉ x → oview all (p ++ '/' :: x) ≠ none → VIsFile (oview all) (p ++ '/' :: x) := by
  intro x hx hpres
  have hpres' := hpres
  rw [oview_ne (by simp)] at hpres'
  obtain ⟨m, hm, hkm⟩ := C05.viewN_some_key hpres'
  rcases hk m hm _ hkm (beforeLast_append_delim '/' p x hx) with h0 | h0
  · exact absurd h0 hpres
  · exact h0

section example3

/-- "/d" holds the files x (layers 1 and 2), b (layer 1), c (layer 2); "/e" lives in layer 2 -/
example := overlay_copyDir_flat_exact xw_setting xw_inv xw_viewWF 5 6 xw_names
  (ss := ["d".toList]) (dd := ["e".toList]) (n0 := "copy".toList) (by decide) (by decide)
  (by decide) (by decide) (flat_of_keys (by decide)) (by decide)
  (show oview [xU, xA, xB] "/e/copy".toList = none by decide) 4 (by decide)

example : (VPath.copyDir 4 ⟨xfs, 5, "/d".toList⟩ ⟨xfs, 5, "/e/copy".toList⟩ xw).1 = .ok 3 := by
  decide +kernel

example : (xfs.readDir "/e/copy".toList
      (VPath.copyDir 4 ⟨xfs, 5, "/d".toList⟩ ⟨xfs, 5, "/e/copy".toList⟩ xw).2).1
    = .ok ["c".toList, "b".toList, "x".toList] := by
  decide +kernel

example : C09.readAllN xfs "/e/copy/x"
      (VPath.copyDir 4 ⟨xfs, 5, "/d".toList⟩ ⟨xfs, 5, "/e/copy".toList⟩ xw).2 = .ok [49] := by
  decide +kernel

/-- move_dir of "/d" to "/e/moved": the hypotheses hold … -/
example := overlay_moveDir_flat_exact xw_setting xw_inv xw_viewWF 5 5 xw_names
  (ss := ["d".toList]) (dd := ["e".toList]) (n0 := "moved".toList) (by decide) (by decide)
  (by decide) (by decide) (flat_of_keys (by decide)) (by decide)
  (show oview [xU, xA, xB] "/e/moved".toList = none by decide) 4 (by decide)

/-- `move_dir` with the structurally recursive `remove_dir_all` (kernel-evaluable) -/
theorem moveDir_eq_K (fuel : Nat) (src dst : VPath) :
    VPath.moveDir fuel src dst = M.withPath src.path (do
      if (← dst.exists_) then M.failAt .other dst.path
      else
        let fast ← (if src.fsId = dst.fsId then M.attempt (src.fs.moveDir src.path dst.path)
                    else pure (fail .notSupported))
        match fast with
        | .ok _ => pure ()
        | .panic => M.ret .panic
        | .err k p =>
          if k ≠ .notSupported then M.ret (.err k p)
          else
            dst.createDir
            let s ← src.walkDir
            let _ ← VPath.copyItems fuel src dst s 0
            rmAllK fuel src) := by
  unfold VPath.moveDir
  simp only [rmAllK_eq]
  rfl

/-- … and, evaluated: the files arrive, nothing of "/d" is left -/
example : (VPath.moveDir 4 ⟨xfs, 5, "/d".toList⟩ ⟨xfs, 5, "/e/moved".toList⟩ xw).1 = .ok () := by
  rw [moveDir_eq_K]; decide +kernel

example : (xfs.readDir [] (VPath.moveDir 4 ⟨xfs, 5, "/d".toList⟩
      ⟨xfs, 5, "/e/moved".toList⟩ xw).2).1 = .ok ["e".toList, "top".toList] := by
  rw [moveDir_eq_K]; decide +kernel

example : (xfs.readDir "/e/moved".toList (VPath.moveDir 4 ⟨xfs, 5, "/d".toList⟩
      ⟨xfs, 5, "/e/moved".toList⟩ xw).2).1 = .ok ["c".toList, "b".toList, "x".toList] := by
  rw [moveDir_eq_K]; decide +kernel

example : C09.readAllN xfs "/e/moved/x" (VPath.moveDir 4 ⟨xfs, 5, "/d".toList⟩
      ⟨xfs, 5, "/e/moved".toList⟩ xw).2 = .ok [49] := by
  rw [moveDir_eq_K]; decide +kernel

example := overlay_copyDir_refused xw_setting 5 5 "/d".toList 4 (cs := ["e".toList]) (by decide)
  (by decide)

end example3

section audit
#print axioms overlay_copyDir_flat_exact
#print axioms overlay_moveDir_flat_exact
#print axioms overlay_copyDir_refused
#print axioms flat_of_keys
end audit

end Vfs.C11
