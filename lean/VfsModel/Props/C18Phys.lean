/-
  C18 as a LOCK-STEP theorem: EmbeddedFS (`Embedded.fs (Embedded.new fl)`) against the physical
  model (`leafFS i` on a `.phys` leaf) holding the same folder. Continued in Props/C18PhysOps.lean
  (mutators, construction of the folder by the model's operations, non-vacuity fixture).

  WHAT IS PROVED HERE
  * 1. `GoodFiles fl` (decidable; = `FolderLike` of Props/C18.lean): what the rust-embed macro
       guarantees — non-empty '/'-separated components, distinct paths, no file that is also a
       proper directory prefix of a file. `folderMap fl : FMap`: the root, every implied directory
       once (`dirEntryNow`), every file at "/" ++ path (`fileEntry bytes`). `folderMap_wf` (a
       well-formed tree, for EVERY list), `folderMap_nodupKeys` (under `GoodFiles`),
       `folderMap_find?` / `folderMap_find?_dir` / `folderMap_find?_nodir` (its lookups).
  * 2. the link between the two data structures: `renderC_mem_dirKeys`, `dirmap_some_of_isDirC`,
       `dirmap_none_of_not_isDirC`, `emb_isNames` (the children SET stored by `EmbeddedFS::new` for
       a directory = the names present below it in `folderMap`).
  * 3.-5. `classify`: every canonical path `renderC cs` (`GoodCs cs`: non-empty '/'-free
       components; `cs = []` is the root `""`) not below an embedded file is a file, a directory or
       absent, with the four observer answers of BOTH filesystems computed (`Kind`).
  * 6. **`embedded_matches_physical`** (VfsPath level, any world whose leaf `i` is a physical
       filesystem holding `folderMap fl`): `exists` equal; `metadata` same type and length / same
       error class; `read_dir` same SET of child paths (`Perm`, duplicate-free) / same error class;
       `open_file`+`read_to_end` same bytes / same error class (non-directories);
       the checked read of `read_to_string` same for every path; no call changes the world.
       Errors are compared by canonical class `ErrKind.cls` (`SameRes`).
  * 7. `embedded_treeView` (the embedded filesystem is a `WkG.TreeView` of `folderMap fl`),
       `phys_treeView`, **`embedded_walk_matches_physical`** (collected `walk_dir` from any
       directory: same set of paths, each once, ancestors first on both sides, world unchanged),
       `embedded_walk_nondir` (files / absent paths: same error class, no item).
  * 8. THE EXCEPTIONS, exactly (findings):
       - `open_dir_differs`: `open_file` on a directory (root included): embedded = not-found at
         once; physical = `File::open` succeeds and the read fails with an I/O error.
       - `below_file_differs` (+ `_vpath`): a path below an embedded FILE ("/a.txt/x"): embedded =
         not-found for metadata / read_dir / open_file; physical = `ENOTDIR` I/O error ("other
         failure"); `exists` is false on both. Proved for EVERY such path string
         (`resolveParent_below_file`: converse of path resolution on well-formed maps).
       - `empty_folder_root_differs`: the root of the EMPTY folder: `exists("")` true on both,
         but embedded `metadata("")` / `read_dir("")` are not-found (no directory-map entry).
       (Also, by design and not an exception of the theorem: timestamps differ — embedded files
       report created = modified = now, accessed = none; directories report no times; error KINDS
       inside one class differ: `read_dir` of a file is `Other` embedded, `IoError` physical.)
  HYPOTHESES of the main theorems: `GoodFiles fl`; the path is `renderC cs` with `GoodCs cs`
  (everything `join` produces: `goodCs_of_join` in C18PhysOps); not below an embedded file
  (`¬ BelowFile fl p`, decidable); not the root of the empty folder (`fl ≠ [] ∨ cs ≠ []`);
  `PhysLeafAt w i (folderMap fl)`. Non-canonical strings are outside on purpose: the embedded
  `normalize_path` drops the first character whatever it is ("xa.txt" opens a.txt; witness in
  C18PhysOps).
  NOT PROVED HERE (see the continuation files): that the model's `create_dir_all` + create
  sessions build `folderMap fl` is `folder_built` in Props/C18Built.lean (every good list), where
  the lock-step theorem is also restated for any physical map with the lookups of `folderMap fl`.
  Not covered anywhere: the async port; seek / partial reads on the opened handle (the handles are
  compared as values: equal content and position for files).
-/
import VfsModel.Props.C18
import VfsModel.Props.C05WalkView
import VfsModel.Proofs.PhysLemmas
namespace Vfs.C18
open Vfs.Embedded

/-! ### 1. the folder as a physical map -/

/-- what the rust-embed macro guarantees about the list `(relative path, bytes)`: every path is a
'/'-joined list of non-empty components, the paths are distinct, and no file path is a proper
directory prefix of a file path (decidable; this is `FolderLike` of Props/C18.lean) -/
def GoodFiles (fl : List (Str × Bytes)) : Prop := FolderLike fl

instance (fl : List (Str × Bytes)) : Decidable (GoodFiles fl) := by
  unfold GoodFiles; exact inferInstance

/-- a file written once by a create session on the host -/
def fileEntry (b : Bytes) : Entry :=
  { ftype := .file, content := b, created := .now, modified := .now, accessed := .now }

/-- every proper directory prefix of every embedded path, as an absolute path string (the root
`""` is the prefix of length 0) -/
def dirKeysRaw (fl : List (Str × Bytes)) : List Str :=
  fl.flatMap fun f => (List.range (splitSlash f.1).length).map fun i =>
    renderC ((splitSlash f.1).take i)

def dirKeys (fl : List (Str × Bytes)) : List Str := WkG.dedup ([] :: dirKeysRaw fl)

def fileKVs (fl : List (Str × Bytes)) : FMap := fl.map fun f => ('/' :: f.1, fileEntry f.2)

/-- the physical folder holding exactly the files `fl`: the root, every implied directory once,
every file under "/" ++ its relative path -/
def folderMap (fl : List (Str × Bytes)) : FMap :=
  (dirKeys fl).map (fun k => (k, dirEntryNow)) ++ fileKVs fl

theorem find?_constMap_append (l : List Str) (e : Entry) (m : FMap) (k : Str) :
    FMap.find? (l.map (fun k => (k, e)) ++ m) k = if k ∈ l then some e else m.find? k := by
  induction l with
  | nil => simp
  | cons a l ih =>
    simp only [List.map_cons, List.cons_append, FMap.find?_cons, ih, List.mem_cons]
    by_cases h : a = k
    · simp [h]
    · have : ¬ k = a := fun e => h e.symm
      simp [h, this]

theorem find?_fileKVs_slash (fl : List (Str × Bytes)) (r : Str) :
    (fileKVs fl).find? ('/' :: r) = (fileGet? fl r).map fileEntry := by
  induction fl with
  | nil => rfl
  | cons f rest ih =>
    obtain ⟨k, b⟩ := f
    unfold fileKVs at ih ⊢
    simp only [List.map_cons, FMap.find?_cons, fileGet?, List.cons.injEq, true_and]
    by_cases h : k = r
    · simp [h]
    · simp [h, ih]

theorem find?_fileKVs_nil (fl : List (Str × Bytes)) : (fileKVs fl).find? [] = none := by
  induction fl with
  | nil => rfl
  | cons f rest ih =>
    unfold fileKVs at ih ⊢
    simp only [List.map_cons, FMap.find?_cons]
    rw [if_neg (by simp)]
    exact ih

theorem find?_fileKVs_some (fl : List (Str × Bytes)) (k : Str) (e : Entry)
    (h : (fileKVs fl).find? k = some e) :
    ∃ f b, k = '/' :: f ∧ (f, b) ∈ fl ∧ fileGet? fl f = some b ∧ e = fileEntry b := by
  have hk : k ∈ (fileKVs fl).keys := (FMap.mem_keys_iff _ _).2 ⟨e, h⟩
  unfold fileKVs FMap.keys at hk
  simp only [List.map_map, List.mem_map, Function.comp] at hk
  obtain ⟨g, _, rfl⟩ := hk
  rw [find?_fileKVs_slash] at h
  cases hg : fileGet? fl g.1 with
  | none => rw [hg] at h; cases h
  | some b =>
    rw [hg] at h
    simp only [Option.map_some, Option.some.injEq] at h
    exact ⟨g.1, b, rfl, fileGet?_some_mem fl _ _ hg, hg, h.symm⟩

theorem folderMap_find? (fl : List (Str × Bytes)) (k : Str) :
    (folderMap fl).find? k =
      if k ∈ dirKeys fl then some dirEntryNow else (fileKVs fl).find? k :=
  find?_constMap_append _ _ _ _

theorem mem_dirKeys (fl : List (Str × Bytes)) (k : Str) :
    k ∈ dirKeys fl ↔ k = [] ∨
      ∃ f ∈ fl, ∃ pre x post, splitSlash f.1 = pre ++ x :: post ∧ k = renderC pre := by
  unfold dirKeys dirKeysRaw
  rw [WkG.mem_dedup, List.mem_cons]
  simp only [List.mem_flatMap, List.mem_map, List.mem_range]
  constructor
  · rintro (h | ⟨f, hf, i, hi, rfl⟩)
    · exact Or.inl h
    · exact Or.inr ⟨f, hf, _, _, _, split_at_index (splitSlash f.1) i hi, rfl⟩
  · rintro (h | ⟨f, hf, pre, x, post, hsp, rfl⟩)
    · exact Or.inl h
    · refine Or.inr ⟨f, hf, pre.length, by rw [hsp]; simp, ?_⟩
      rw [hsp]; simp

theorem nil_mem_dirKeys (fl : List (Str × Bytes)) : [] ∈ dirKeys fl :=
  (mem_dirKeys fl []).2 (Or.inl rfl)

theorem renderC_ne_nil {cs : List Str} (h : cs ≠ []) : renderC cs ≠ [] := by
  cases cs with
  | nil => exact absurd rfl h
  | cons c t => simp

/-- the folder map is a well-formed tree, for every list -/
theorem folderMap_wf (fl : List (Str × Bytes)) : WF (folderMap fl) := by
  have hdirfind : ∀ k, k ∈ dirKeys fl → (folderMap fl).find? k = some dirEntryNow := by
    intro k hk; rw [folderMap_find?, if_pos hk]
  have hpar : ∀ (f : Str × Bytes), f ∈ fl → ∀ l c rest, splitSlash f.1 = (l ++ [c]) ++ rest →
      '/' ∈ renderC (l ++ [c]) ∧ ∃ pe, (folderMap fl).find? (parentInternal (renderC (l ++ [c])))
        = some pe ∧ pe.ftype = .dir := by
    intro f hf l c rest hsp
    have hns : ∀ x ∈ l ++ [c], '/' ∉ x := by
      intro x hx
      have hx' : x ∈ splitSlash f.1 := by rw [hsp]; exact List.mem_append_left _ hx
      exact splitOnC_no_delim '/' f.1 x hx'
    refine ⟨slash_mem_renderC (by simp), dirEntryNow, ?_, rfl⟩
    rw [parentInternal_renderC _ hns, List.dropLast_concat]
    apply hdirfind
    exact (mem_dirKeys fl _).2 (Or.inr ⟨f, hf, l, c, rest, by rw [hsp]; simp, rfl⟩)
  refine ⟨⟨dirEntryNow, hdirfind [] (nil_mem_dirKeys fl), rfl⟩, ?_⟩
  intro k e h hk
  rw [folderMap_find?] at h
  split at h
  · rename_i hmem
    rcases (mem_dirKeys fl k).1 hmem with rfl | ⟨f, hf, pre, x, post, hsp, rfl⟩
    · exact absurd rfl hk
    · rcases List.eq_nil_or_concat pre with rfl | ⟨l, c, rfl⟩
      · exact absurd rfl hk
      · simp only [List.concat_eq_append] at hsp ⊢
        exact hpar f hf l c (x :: post) hsp
  · obtain ⟨f, b, rfl, hmem, _, _⟩ := find?_fileKVs_some fl k e h
    rw [← renderC_splitSlash f]
    rcases List.eq_nil_or_concat (splitSlash f) with h0 | ⟨l, c, h0⟩
    · exact absurd h0 (splitOnC_ne_nil _ _)
    · simp only [List.concat_eq_append] at h0
      have h0' : splitOnC '/' f = l ++ [c] := h0
      rw [h0']
      exact hpar (f, b) hmem l c [] (by simpa using h0)

/-- under `GoodFiles` no key occurs twice -/
theorem folderMap_nodupKeys (fl : List (Str × Bytes)) (hG : GoodFiles fl) :
    FMap.NodupKeys (folderMap fl) := by
  unfold FMap.NodupKeys folderMap FMap.keys fileKVs
  simp only [List.map_append, List.map_map, Function.comp_def, List.map_id']
  rw [List.nodup_append]
  refine ⟨WkG.nodup_dedup _, ?_, ?_⟩
  · have h := hG.2.1
    unfold List.Nodup at *
    rw [List.pairwise_map] at *
    exact h.imp (fun hab hc => hab (by simpa using hc))
  · intro a ha b hb hab
    subst hab
    simp only [List.mem_map] at hb
    obtain ⟨f, hf, rfl⟩ := hb
    rcases (mem_dirKeys fl _).1 ha with h | ⟨g, hg, pre, x, post, hsp, hk⟩
    · cases h
    · have hpre : pre ≠ [] := by intro e; subst e; simp at hk
      rw [renderC_eq pre hpre] at hk
      have hk' : f.1 = key pre := by simpa using hk
      have h1 := hG.dir_not_file g hg pre post x hsp
      rw [← hk', fileGet?_of_mem fl f.1 f.2 hG.2.1 hf] at h1
      cases h1

/-! ### 2. canonical paths by components; the link between the two data structures -/

def NoSlash (cs : List Str) : Prop := ∀ c ∈ cs, '/' ∉ c

/-- components of a canonical path: non-empty, without '/' -/
def GoodCs (cs : List Str) : Prop := ∀ c ∈ cs, c ≠ [] ∧ '/' ∉ c

instance (cs : List Str) : Decidable (GoodCs cs) := by unfold GoodCs; exact inferInstance

theorem GoodCs.noSlash {cs : List Str} (h : GoodCs cs) : NoSlash cs := fun c hc => (h c hc).2

theorem GoodCs.left {a b : List Str} (h : GoodCs (a ++ b)) : GoodCs a :=
  fun c hc => h c (List.mem_append_left _ hc)

theorem goodCs_split {fl : List (Str × Bytes)} (hG : GoodFiles fl) (f : Str × Bytes) (hf : f ∈ fl) :
    GoodCs (splitSlash f.1) :=
  fun c hc => ⟨hG.1 f hf c hc, splitOnC_no_delim '/' f.1 c hc⟩

theorem noSlash_split (s : Str) : NoSlash (splitSlash s) := splitOnC_no_delim '/' s

theorem key_ne_nil {cs : List Str} (h : GoodCs cs) (hne : cs ≠ []) : key cs ≠ [] := by
  cases cs with
  | nil => exact absurd rfl hne
  | cons c t =>
    have := (h c (by simp)).1
    simp [key, this]

theorem key_eq_iff {cs pre : List Str} (h : GoodCs cs) (h' : GoodCs pre) :
    key cs = key pre ↔ cs = pre := by
  constructor
  · intro hk
    by_cases hc : cs = []
    · subst hc
      by_cases hp : pre = []
      · exact hp.symm
      · exact absurd hk.symm (key_ne_nil h' hp)
    · have hp : pre ≠ [] := by
        intro e; subst e; exact key_ne_nil h hc hk
      apply C06.renderC_injective _ _ h.noSlash h'.noSlash
      rw [renderC_eq cs hc, renderC_eq pre hp, hk]
  · intro e; rw [e]

theorem splitSlash_key {cs : List Str} (h : NoSlash cs) (hne : cs ≠ []) :
    splitSlash (key cs) = cs := by
  apply C06.renderC_injective _ _ (noSlash_split _) h
  rw [renderC_splitSlash, renderC_eq cs hne]

/-- `cs` is a proper directory prefix of an embedded path -/
def IsDirC (fl : List (Str × Bytes)) (cs : List Str) : Prop :=
  ∃ f ∈ fl, ∃ x post, splitSlash f.1 = cs ++ x :: post

theorem isDirC_nil {fl : List (Str × Bytes)} (h : fl ≠ []) : IsDirC fl [] := by
  cases fl with
  | nil => exact absurd rfl h
  | cons f rest =>
    cases hsp : splitSlash f.1 with
    | nil => exact absurd hsp (splitOnC_ne_nil _ _)
    | cons c post => exact ⟨f, by simp, c, post, by simpa using hsp⟩

theorem renderC_mem_dirKeys (fl : List (Str × Bytes)) (cs : List Str) (h : NoSlash cs) :
    renderC cs ∈ dirKeys fl ↔ cs = [] ∨ IsDirC fl cs := by
  rw [mem_dirKeys]
  constructor
  · rintro (h0 | ⟨f, hf, pre, x, post, hsp, hk⟩)
    · left
      cases cs with
      | nil => rfl
      | cons c t => simp at h0
    · right
      have hpre : NoSlash pre := fun c hc => noSlash_split f.1 c (by rw [hsp]; simp [hc])
      have := C06.renderC_injective _ _ h hpre hk
      subst this
      exact ⟨f, hf, x, post, hsp⟩
  · rintro (rfl | ⟨f, hf, x, post, hsp⟩)
    · exact Or.inl rfl
    · exact Or.inr ⟨f, hf, cs, x, post, hsp, rfl⟩

theorem folderMap_find?_dir (fl : List (Str × Bytes)) (cs : List Str) (h : NoSlash cs)
    (hd : cs = [] ∨ IsDirC fl cs) : (folderMap fl).find? (renderC cs) = some dirEntryNow := by
  rw [folderMap_find?, if_pos ((renderC_mem_dirKeys fl cs h).2 hd)]

theorem folderMap_find?_nodir (fl : List (Str × Bytes)) (cs : List Str) (h : NoSlash cs)
    (hne : cs ≠ []) (hd : ¬ IsDirC fl cs) :
    (folderMap fl).find? (renderC cs) = (fileGet? fl (key cs)).map fileEntry := by
  rw [folderMap_find?, if_neg (by rw [renderC_mem_dirKeys fl cs h]; simp [hne, hd]),
    renderC_eq cs hne, find?_fileKVs_slash]

theorem dirmap_some_of_isDirC (fl : List (Str × Bytes)) (cs : List Str) (hd : IsDirC fl cs) :
    ∃ ch, (new fl).directoryMap.get? (key cs) = some ch ∧ ch.Nodup := by
  obtain ⟨f, hf, x, post, hsp⟩ := hd
  obtain ⟨v, hv, _, hnd⟩ := children_complete fl f hf cs post x hsp
  exact ⟨v, hv, hnd⟩

theorem dirmap_none_of_not_isDirC (fl : List (Str × Bytes)) (hG : GoodFiles fl) (cs : List Str)
    (h : GoodCs cs) (hd : ¬ IsDirC fl cs) : (new fl).directoryMap.get? (key cs) = none := by
  cases hg : (new fl).directoryMap.get? (key cs) with
  | none => rfl
  | some v =>
    exfalso
    have : ((new fl).directoryMap.get? (key cs)).isSome = true := by rw [hg]; rfl
    obtain ⟨g, hg', pre, x, post, hsp, hk⟩ := (isDir_new_iff fl (key cs)).mp this
    have hgs := goodCs_split hG g hg'
    rw [hsp] at hgs
    have hpre : GoodCs pre := GoodCs.left hgs
    have := (key_eq_iff h hpre).1 hk
    subst this
    exact hd ⟨g, hg', x, post, hsp⟩

theorem fileGet?_nil_key {fl : List (Str × Bytes)} (hG : GoodFiles fl) : fileGet? fl [] = none :=
  fileGet?_eq_none fl [] (fun g hg => hG.path_ne_nil g hg)

theorem file_not_dir {fl : List (Str × Bytes)} (hG : GoodFiles fl) (cs : List Str) (b : Bytes)
    (hf : fileGet? fl (key cs) = some b) : cs ≠ [] ∧ ¬ IsDirC fl cs := by
  constructor
  · intro e; subst e; rw [key_nil, fileGet?_nil_key hG] at hf; cases hf
  · rintro ⟨g, hg, x, post, hsp⟩
    rw [hG.dir_not_file g hg cs post x hsp] at hf; cases hf

theorem not_isDirC_nil_iff (fl : List (Str × Bytes)) : ¬ IsDirC fl [] ↔ fl = [] := by
  constructor
  · intro h
    cases fl with
    | nil => rfl
    | cons f r => exact absurd (isDirC_nil (by simp)) h
  · rintro rfl ⟨f, hf, _⟩; cases hf

/-- **the listing link**: the children set the embedded filesystem stores for the directory `cs`
is exactly the set of names present below it in the folder map -/
theorem emb_isNames (fl : List (Str × Bytes)) (hG : GoodFiles fl) (cs : List Str) (h : GoodCs cs)
    (ch : List Str) (hch : (new fl).directoryMap.get? (key cs) = some ch) :
    WkG.IsNames (folderMap fl).find? (renderC cs) ch := by
  refine ⟨new_nodupVals fl _ _ hch, fun n => ?_⟩
  have hhas : n ∈ ch ↔ Has (new fl).directoryMap (key cs) n := by
    unfold Has; rw [hch]; simp
  rw [hhas, has_new, ← renderC_snoc]
  constructor
  · rintro ⟨f, hf, pre, post, hsp, hk⟩
    have hgs := goodCs_split hG f hf
    have hgs' := hgs
    rw [hsp] at hgs'
    have hpre : GoodCs pre := GoodCs.left hgs'
    have := (key_eq_iff h hpre).1 hk
    subst this
    have hn : n ∈ splitSlash f.1 := by rw [hsp]; simp
    have hns : NoSlash (cs ++ [n]) := by
      intro c hc
      rcases List.mem_append.1 hc with hc | hc
      · exact (h c hc).2
      · simp at hc; rw [hc]; exact (hgs n hn).2
    refine ⟨(hgs n hn).2, ?_⟩
    by_cases hd : IsDirC fl (cs ++ [n])
    · rw [folderMap_find?_dir fl _ hns (Or.inr hd)]; simp
    · rw [folderMap_find?_nodir fl _ hns (by simp) hd]
      cases post with
      | cons y ys => exact absurd ⟨f, hf, y, ys, by rw [hsp]; simp⟩ hd
      | nil =>
        have hk : key (cs ++ [n]) = f.1 := by
          have hsp' : splitSlash f.1 = cs ++ [n] := hsp
          rw [← hsp', key_splitSlash]
        rw [hk, fileGet?_of_mem fl f.1 f.2 hG.2.1 hf]
        simp
  · rintro ⟨hn, hpres⟩
    have hns : NoSlash (cs ++ [n]) := by
      intro c hc
      rcases List.mem_append.1 hc with hc | hc
      · exact (h c hc).2
      · simp at hc; rw [hc]; exact hn
    by_cases hd : IsDirC fl (cs ++ [n])
    · obtain ⟨f, hf, x, post, hsp⟩ := hd
      exact ⟨f, hf, cs, x :: post, by rw [hsp]; simp, rfl⟩
    · rw [folderMap_find?_nodir fl _ hns (by simp) hd] at hpres
      cases hg : fileGet? fl (key (cs ++ [n])) with
      | none => rw [hg] at hpres; simp at hpres
      | some b =>
        refine ⟨(key (cs ++ [n]), b), fileGet?_some_mem fl _ _ hg, cs, [], ?_, rfl⟩
        exact splitSlash_key hns (by simp)

/-! ### 3. the physical answers on a well-formed map -/

/-- the four observers, as one record -/
structure Obs where
  ex : Bool
  md : Res Meta
  rd : Res (List Str)
  op : Res RHandle
  deriving DecidableEq

def embObs (fl : List (Str × Bytes)) (p : Str) : Obs :=
  ⟨Embedded.exists_ (new fl) p, Embedded.metadata (new fl) p, Embedded.readDir (new fl) p,
    Embedded.openFile (new fl) p⟩

def physObs (m : FMap) (p : Str) : Obs :=
  ⟨Phys.exists_ m p, Phys.metadata m p, Phys.readDir m p, Phys.openFile m p⟩

theorem phys_present {m : FMap} (hwf : WF m) (p : Str) (e : Entry) (he : m.find? p = some e) :
    physObs m p = ⟨true,
      .ok { e.meta with len := if e.ftype = .dir then 0 else e.content.length },
      (if e.ftype = .file then fail .io else .ok (Phys.children m p)),
      (if e.ftype = .dir then .ok { content := [], pos := 0, bad := true }
        else .ok { content := e.content, pos := 0 })⟩ := by
  have := hwf.lookup_present p e he
  simp [physObs, Phys.exists_, Phys.metadata, Phys.readDir, Phys.openFile, this]

/-- some proper ancestor of `p` is a file of `m` -/
def BelowFileM (m : FMap) (p : Str) : Prop :=
  ∃ a ∈ Phys.ancestors p, ∃ e, m.find? a = some e ∧ e.ftype = .file

theorem resolveParent_cases (m : FMap) (p : Str) :
    Phys.resolveParent m p = .ok () ∨ Phys.resolveParent m p = fail .fileNotFound ∨
      (Phys.resolveParent m p = fail .io ∧ BelowFileM m p) := by
  unfold Phys.resolveParent
  split
  · exact Or.inl rfl
  · rename_i a heq
    have hmem := List.mem_of_find?_eq_some heq
    have hbad := List.find?_some heq
    split
    · rename_i e he
      refine Or.inr (Or.inr ⟨rfl, a, hmem, e, he, ?_⟩)
      simp only [he] at hbad
      cases hft : e.ftype with
      | file => rfl
      | dir => simp [hft] at hbad
    · exact Or.inr (Or.inl rfl)

theorem phys_lookup_absent (m : FMap) (p : Str) (hp : m.find? p = none) :
    Phys.lookup m p = .ok none ∨ Phys.lookup m p = fail .fileNotFound ∨
      (Phys.lookup m p = fail .io ∧ BelowFileM m p) := by
  unfold Phys.lookup
  rcases resolveParent_cases m p with h | h | ⟨h, hb⟩
  · left; rw [h, hp]
  · right; left; rw [h]; rfl
  · right; right; rw [h]; exact ⟨rfl, hb⟩

theorem phys_notfound_answers (m : FMap) (p : Str)
    (h : Phys.lookup m p = .ok none ∨ Phys.lookup m p = fail .fileNotFound) :
    physObs m p = ⟨false, fail .fileNotFound, fail .fileNotFound, fail .fileNotFound⟩ := by
  rcases h with h | h <;>
    simp [physObs, Phys.exists_, Phys.metadata, Phys.readDir, Phys.openFile, h, fail]

theorem phys_io_answers (m : FMap) (p : Str) (h : Phys.lookup m p = fail .io) :
    physObs m p = ⟨false, fail .io, fail .io, fail .io⟩ := by
  simp [physObs, Phys.exists_, Phys.metadata, Phys.readDir, Phys.openFile, h, fail]

theorem ancestor_split (p a : Str) (ha : a ∈ Phys.ancestors p) : ∃ t, p = a ++ '/' :: t := by
  obtain ⟨i, hi, hc, rfl⟩ := (mem_ancestors p a).1 ha
  refine ⟨p.drop (i + 1), ?_⟩
  have h1 : p[i] = '/' := by
    rw [List.getElem?_eq_getElem hi] at hc; simpa using hc
  conv => lhs; rw [← List.take_append_drop i p, List.drop_eq_getElem_cons hi, h1]

/-- the path lies strictly below an embedded FILE ("/<file>/…") -/
def BelowFile (fl : List (Str × Bytes)) (p : Str) : Prop :=
  ∃ f ∈ fl, Wk.below ('/' :: f.1) p = true

instance (fl : List (Str × Bytes)) (p : Str) : Decidable (BelowFile fl p) := by
  unfold BelowFile; exact inferInstance

theorem belowFile_of_M (fl : List (Str × Bytes)) (p : Str) (h : BelowFileM (folderMap fl) p) :
    BelowFile fl p := by
  obtain ⟨a, ha, e, he, hf⟩ := h
  rw [folderMap_find?] at he
  split at he
  · injection he with he; subst he; cases hf
  · obtain ⟨f, b, rfl, hmem, _, _⟩ := find?_fileKVs_some fl a e he
    exact ⟨(f, b), hmem, (Wk.below_iff _ _).2 (ancestor_split p _ ha)⟩

/-! ### 4. the embedded answers, by case -/

theorem emb_file (fl : List (Str × Bytes)) (p : Str) (b : Bytes)
    (hf : fileGet? fl (normalize p) = some b)
    (hd : (new fl).directoryMap.get? (normalize p) = none) :
    embObs fl p = ⟨true,
      .ok { ftype := .file, len := b.length, created := .now, modified := .now,
            accessed := .unset },
      fail .other, .ok { content := b, pos := 0 }⟩ := by
  have hs : (new fl).files = fl := rfl
  simp [embObs, exists_, metadata, readDir, openFile, hs, hf, hd]

theorem emb_dir (fl : List (Str × Bytes)) (p : Str) (ch : List Str)
    (hf : fileGet? fl (normalize p) = none)
    (hd : (new fl).directoryMap.get? (normalize p) = some ch) :
    embObs fl p = ⟨true,
      .ok { ftype := .dir, len := 0, created := .unset, modified := .unset, accessed := .unset },
      .ok ch, fail .fileNotFound⟩ := by
  have hs : (new fl).files = fl := rfl
  simp [embObs, exists_, metadata, readDir, openFile, hs, hf, hd]

theorem emb_absent (fl : List (Str × Bytes)) (p : Str)
    (hf : fileGet? fl (normalize p) = none)
    (hd : (new fl).directoryMap.get? (normalize p) = none) (hk : normalize p ≠ []) :
    embObs fl p = ⟨false, fail .fileNotFound, fail .fileNotFound, fail .fileNotFound⟩ := by
  have hs : (new fl).files = fl := rfl
  simp [embObs, exists_, metadata, readDir, openFile, hs, hf, hd, hk]

/-! ### 5. classification of a canonical path, with both sets of answers -/

/-- the three kinds of canonical path (not below a file), with the answers of both filesystems -/
inductive Kind (fl : List (Str × Bytes)) (p : Str) : Prop where
  | file (b : Bytes)
      (he : embObs fl p = ⟨true,
        .ok { ftype := .file, len := b.length, created := .now, modified := .now,
              accessed := .unset },
        fail .other, .ok { content := b, pos := 0 }⟩)
      (hp : physObs (folderMap fl) p = ⟨true,
        .ok { ftype := .file, len := b.length, created := .now, modified := .now,
              accessed := .now },
        fail .io, .ok { content := b, pos := 0 }⟩)
  | dir (ch : List Str)
      (he : embObs fl p = ⟨true,
        .ok { ftype := .dir, len := 0, created := .unset, modified := .unset,
              accessed := .unset },
        .ok ch, fail .fileNotFound⟩)
      (hp : physObs (folderMap fl) p = ⟨true,
        .ok { ftype := .dir, len := 0, created := .now, modified := .now, accessed := .now },
        .ok (Phys.children (folderMap fl) p), .ok { content := [], pos := 0, bad := true }⟩)
      (hperm : ch.Perm (Phys.children (folderMap fl) p))
      (hnames : WkG.IsNames (folderMap fl).find? p ch)
      (hfind : (folderMap fl).find? p = some dirEntryNow)
  | absent
      (he : embObs fl p = ⟨false, fail .fileNotFound, fail .fileNotFound, fail .fileNotFound⟩)
      (hp : physObs (folderMap fl) p =
        ⟨false, fail .fileNotFound, fail .fileNotFound, fail .fileNotFound⟩)
      (hfind : (folderMap fl).find? p = none)

theorem classify (fl : List (Str × Bytes)) (hG : GoodFiles fl) (cs : List Str) (hcs : GoodCs cs)
    (hnb : ¬ BelowFile fl (renderC cs)) (hroot : fl ≠ [] ∨ cs ≠ []) :
    Kind fl (renderC cs) := by
  have hwf := folderMap_wf fl
  have hnk := folderMap_nodupKeys fl hG
  have hnorm : normalize (renderC cs) = key cs := rfl
  by_cases hd : IsDirC fl cs
  · -- directory (the root included)
    obtain ⟨ch, hch, _⟩ := dirmap_some_of_isDirC fl cs hd
    have hnf : fileGet? fl (key cs) = none := by
      obtain ⟨g, hg, x, post, hsp⟩ := hd
      exact hG.dir_not_file g hg cs post x hsp
    have hfind := folderMap_find?_dir fl cs hcs.noSlash (Or.inr hd)
    have hnames := emb_isNames fl hG cs hcs ch hch
    have hnames' := C05.names_of_map (folderMap fl) hnk (renderC cs)
    refine Kind.dir ch (emb_dir fl _ ch hnf hch) ?_ ?_ hnames hfind
    · rw [phys_present hwf _ _ hfind]; rfl
    · exact (List.perm_ext_iff_of_nodup hnames.1 hnames'.1).2
        (fun n => by rw [hnames.2 n]; exact (hnames'.2 n).symm)
  · have hne : cs ≠ [] := by
      rcases hroot with h | h
      · intro e; subst e; exact hd (isDirC_nil h)
      · exact h
    have hdm := dirmap_none_of_not_isDirC fl hG cs hcs hd
    have hfind := folderMap_find?_nodir fl cs hcs.noSlash hne hd
    cases hf : fileGet? fl (key cs) with
    | some b =>
      rw [hf] at hfind
      refine Kind.file b (emb_file fl _ b hf hdm) ?_
      rw [phys_present hwf _ _ hfind]; rfl
    | none =>
      rw [hf] at hfind
      refine Kind.absent (emb_absent fl _ hf hdm (key_ne_nil hcs hne)) ?_ hfind
      rcases phys_lookup_absent _ _ hfind with h | h | ⟨_, hb⟩
      · exact phys_notfound_answers _ _ (Or.inl h)
      · exact phys_notfound_answers _ _ (Or.inr h)
      · exact absurd (belowFile_of_M fl _ hb) hnb

/-! ### 6. the `VfsPath` level -/

/-- leaf `i` of the world is a physical filesystem holding `m` -/
abbrev PhysLeafAt (w : World) (i : Nat) (m : FMap) : Prop :=
  w.leaf? i = some { kind := .phys, files := m }

/-- a `VfsPath` on the embedded filesystem of `fl` -/
def embVP (fl : List (Str × Bytes)) (id : Nat) (p : Str) : VPath :=
  { fs := Embedded.fs (new fl), fsId := id, path := p }

/-- a `VfsPath` on the physical leaf `i` -/
def physVP (i id : Nat) (p : Str) : VPath := { fs := leafFS i, fsId := id, path := p }

/-- the four observers of `V` answer `o` in the world `w` and leave it unchanged -/
structure RunsObs (V : VPath) (w : World) (o : Obs) : Prop where
  ex : V.fs.exists_ V.path w = (.ok o.ex, w)
  md : V.fs.metadata V.path w = (o.md, w)
  rd : V.fs.readDir V.path w = (o.rd, w)
  op : V.fs.openFile V.path w = (o.op, w)

theorem emb_runs (fl : List (Str × Bytes)) (id : Nat) (p : Str) (w : World) :
    RunsObs (embVP fl id p) w (embObs fl p) := ⟨rfl, rfl, rfl, rfl⟩

theorem phys_runs {w : World} {i : Nat} {m : FMap} (h : PhysLeafAt w i m) (id : Nat) (p : Str) :
    RunsObs (physVP i id p) w (physObs m p) := by
  have hs : w.setLeafFiles i m = w := World.setLeafFiles_self w i _ h
  constructor <;>
  · simp only [physVP, leafFS, onLeaf, physObs]
    rw [h]
    simp only [hs]

/-- `open_file` followed by `read_to_end` (errors of the read relabelled like `read_to_string`) -/
def readAll (p : VPath) : M Bytes := do
  let h ← p.openFile
  M.withPath p.path (M.ret h.readToEnd.1)

section runs
variable {V : VPath} {w : World} {o : Obs} (r : RunsObs V w o)
include r

theorem RunsObs.exists_eq : V.exists_ w = (.ok o.ex, w) := r.ex

theorem RunsObs.metadata_eq : V.metadata w = (o.md.withPath V.path, w) := by
  unfold VPath.metadata M.withPath
  show (match V.fs.metadata V.path w with | (r, w') => (r.withPath V.path, w')) = _
  rw [r.md]

theorem RunsObs.readDir_eq : V.readDir w =
    (match o.rd with
      | .ok names => .ok (names.map fun n => V.withStr (V.path ++ '/' :: n))
      | .err k _ => .err k (some V.path)
      | .panic => .panic, w) := by
  unfold VPath.readDir
  simp only [bind, M.bind, M.withPath, r.rd]
  cases o.rd <;> rfl

theorem RunsObs.readAll_eq : readAll V w =
    (match o.op with
      | .ok h => h.readToEnd.1.withPath V.path
      | .err k _ => .err k (some V.path)
      | .panic => .panic, w) := by
  unfold readAll VPath.openFile
  simp only [bind, M.bind, M.withPath, r.op]
  cases o.op <;> rfl

theorem RunsObs.checked_eq : V.readToEndChecked w =
    (match o.md with
      | .ok md =>
        if md.ftype ≠ .file then .err .other (some V.path)
        else match o.op with
          | .ok h => h.readToEnd.1.withPath V.path
          | .err k _ => .err k (some V.path)
          | .panic => .panic
      | .err k _ => .err k (some V.path)
      | .panic => .panic, w) := by
  unfold VPath.readToEndChecked
  simp only [bind, M.bind, r.metadata_eq]
  cases hmd : o.md with
  | ok md =>
    simp only [Res.withPath]
    by_cases hft : md.ftype ≠ .file
    · rw [if_pos hft, if_pos hft]; rfl
    · rw [if_neg hft, if_neg hft]
      unfold VPath.openFile
      simp only [M.bind, M.withPath, r.op]
      cases o.op <;> rfl
  | err k q => rfl
  | panic => rfl

end runs

/-- two outcomes agree: both succeed with related values, or both fail with errors of the same
canonical class (`ErrKind.cls`: `io` and `other` are both "other failure"), or both panic -/
def SameRes {α β} (R : α → β → Prop) : Res α → Res β → Prop
  | .ok a, .ok b => R a b
  | .err k _, .err k' _ => k.cls = k'.cls
  | .panic, .panic => True
  | _, _ => False

/-- **C18, lock-step.** For every well-formed file list, every canonical path `renderC cs`
(`""` = root, else "/c1/…/cn" with non-empty '/'-free components — every path `join` can
produce) that does not lie below an embedded file, and not the root of the EMPTY folder:
the embedded filesystem and a physical filesystem holding `folderMap fl` answer alike at the
`VfsPath` level, and neither changes the world:
* `exists` — the same Boolean;
* `metadata` — both fail with the same error class or both succeed with the same type and length;
* `read_dir` — same error class, or the same SET of child paths (`Perm`; both lists are
  duplicate-free);
* `open_file` + `read_to_end` — the same bytes / same error class, provided the path is not a
  directory (see `open_dir_differs` for directories);
* `read_to_string`'s checked read (`metadata`, then open, then read) — the same bytes / error class
  for EVERY such path, directories included. -/
theorem embedded_matches_physical (fl : List (Str × Bytes)) (hG : GoodFiles fl) (cs : List Str)
    (hcs : GoodCs cs) (hnb : ¬ BelowFile fl (renderC cs)) (hroot : fl ≠ [] ∨ cs ≠ [])
    (w : World) (i : Nat) (h : PhysLeafAt w i (folderMap fl)) (idE idP : Nat) :
    (((embVP fl idE (renderC cs)).exists_ w).1 = ((physVP i idP (renderC cs)).exists_ w).1 ∧
      ((embVP fl idE (renderC cs)).exists_ w).2 = w ∧
      ((physVP i idP (renderC cs)).exists_ w).2 = w) ∧
    (SameRes (fun a b => a.ftype = b.ftype ∧ a.len = b.len)
        ((embVP fl idE (renderC cs)).metadata w).1 ((physVP i idP (renderC cs)).metadata w).1 ∧
      ((embVP fl idE (renderC cs)).metadata w).2 = w ∧
      ((physVP i idP (renderC cs)).metadata w).2 = w) ∧
    (SameRes (fun a b => (a.map (·.path)).Perm (b.map (·.path)) ∧ (a.map (·.path)).Nodup)
        ((embVP fl idE (renderC cs)).readDir w).1 ((physVP i idP (renderC cs)).readDir w).1 ∧
      ((embVP fl idE (renderC cs)).readDir w).2 = w ∧
      ((physVP i idP (renderC cs)).readDir w).2 = w) ∧
    ((¬ IsDirC fl cs → SameRes (· = ·)
        (readAll (embVP fl idE (renderC cs)) w).1 (readAll (physVP i idP (renderC cs)) w).1) ∧
      (readAll (embVP fl idE (renderC cs)) w).2 = w ∧
      (readAll (physVP i idP (renderC cs)) w).2 = w) ∧
    (SameRes (· = ·)
        ((embVP fl idE (renderC cs)).readToEndChecked w).1
        ((physVP i idP (renderC cs)).readToEndChecked w).1 ∧
      ((embVP fl idE (renderC cs)).readToEndChecked w).2 = w ∧
      ((physVP i idP (renderC cs)).readToEndChecked w).2 = w) := by
  have rE := emb_runs fl idE (renderC cs) w
  have rP := phys_runs h idP (renderC cs)
  cases classify fl hG cs hcs hnb hroot with
  | file b he hp =>
    rw [he] at rE; rw [hp] at rP
    rw [rE.exists_eq, rP.exists_eq, rE.metadata_eq, rP.metadata_eq, rE.readDir_eq, rP.readDir_eq,
      rE.readAll_eq, rP.readAll_eq, rE.checked_eq, rP.checked_eq]
    simp [SameRes, Res.withPath, fail, ErrKind.cls, RHandle.readToEnd]
  | dir ch he hp hperm hnames hfind =>
    rw [he] at rE; rw [hp] at rP
    rw [rE.exists_eq, rP.exists_eq, rE.metadata_eq, rP.metadata_eq, rE.readDir_eq, rP.readDir_eq,
      rE.readAll_eq, rP.readAll_eq, rE.checked_eq, rP.checked_eq]
    have hd : IsDirC fl cs := by
      rcases (renderC_mem_dirKeys fl cs hcs.noSlash).1 (by
        have := hfind; rw [folderMap_find?] at this
        by_cases hm : renderC cs ∈ dirKeys fl
        · exact hm
        · rw [if_neg hm] at this
          obtain ⟨f, b, _, _, _, he'⟩ := find?_fileKVs_some fl _ _ this
          cases he') with h0 | h0
      · subst h0
        rcases hroot with h1 | h1
        · exact isDirC_nil h1
        · exact absurd rfl h1
      · exact h0
    simp [SameRes, Res.withPath, fail, ErrKind.cls, RHandle.readToEnd, hd, embVP, physVP,
      VPath.withStr, List.map_map, Function.comp_def]
    refine ⟨(hperm.map _), ?_⟩
    have := hnames.1
    unfold List.Nodup at *
    rw [List.pairwise_map]
    exact this.imp (fun hab hc => hab (by simpa using hc))
  | absent he hp hfind =>
    rw [he] at rE; rw [hp] at rP
    rw [rE.exists_eq, rP.exists_eq, rE.metadata_eq, rP.metadata_eq, rE.readDir_eq, rP.readDir_eq,
      rE.readAll_eq, rP.readAll_eq, rE.checked_eq, rP.checked_eq]
    simp [SameRes, Res.withPath, fail, ErrKind.cls]

/-! ### 7. `walk_dir`: both filesystems are tree views of `folderMap fl` -/

/-- a present path of the folder map is an implied directory (root included) or an embedded file -/
theorem present_cases (fl : List (Str × Bytes)) (hG : GoodFiles fl) (hne : fl ≠ []) (p : Str)
    (e : Entry) (h : (folderMap fl).find? p = some e) :
    (∃ cs, GoodCs cs ∧ p = renderC cs ∧ IsDirC fl cs ∧ e = dirEntryNow) ∨
    (∃ f b, p = '/' :: f ∧ fileGet? fl f = some b ∧ e = fileEntry b) := by
  rw [folderMap_find?] at h
  split at h
  · rename_i hm
    left
    injection h with h
    rcases (mem_dirKeys fl p).1 hm with rfl | ⟨f, hf, pre, x, post, hsp, rfl⟩
    · have h0 : GoodCs [] := by intro c hc; cases hc
      exact ⟨[], h0, rfl, isDirC_nil hne, h.symm⟩
    · have hgs := goodCs_split hG f hf
      rw [hsp] at hgs
      exact ⟨pre, GoodCs.left hgs, rfl, ⟨f, hf, x, post, hsp⟩, h.symm⟩
  · right
    obtain ⟨f, b, h1, _, h3, h4⟩ := find?_fileKVs_some fl p e h
    exact ⟨f, b, h1, h3, h4⟩

/-- **the embedded filesystem shows the tree `folderMap fl`** (non-empty folder): `read_dir` of
every directory of the map lists exactly the names present below it, each once, `metadata` of
every present path reports its type, and the world is left alone -/
theorem embedded_treeView (fl : List (Str × Bytes)) (hG : GoodFiles fl) (hne : fl ≠ [])
    (w : World) : WkG.TreeView (Embedded.fs (new fl)) w (folderMap fl).find? where
  finite := ⟨(folderMap fl).keys, fun k hk =>
    (FMap.mem_keys_iff _ k).2 ((C05.ne_none_iff _).1 hk)⟩
  root := (folderMap_wf fl).1
  parent := (folderMap_wf fl).2
  readDir := by
    intro w' hw' p e hp hd
    cases hw'
    rcases present_cases fl hG hne p e hp with ⟨cs, hcs, rfl, hdir, _⟩ | ⟨f, b, _, _, he⟩
    · obtain ⟨ch, hch, _⟩ := dirmap_some_of_isDirC fl cs hdir
      have hnf : fileGet? fl (key cs) = none := by
        obtain ⟨g, hg, x, post, hsp⟩ := hdir
        exact hG.dir_not_file g hg cs post x hsp
      have := emb_dir fl (renderC cs) ch hnf hch
      simp only [embObs, Obs.mk.injEq] at this
      refine ⟨ch, w, ?_, rfl, emb_isNames fl hG cs hcs ch hch⟩
      show (Embedded.readDir (new fl) (renderC cs), _) = _
      rw [this.2.2.1]
    · subst he; cases hd
  metadata := by
    intro w' hw' p e hp
    cases hw'
    rcases present_cases fl hG hne p e hp with ⟨cs, hcs, rfl, hdir, he⟩ | ⟨f, b, rfl, hf, he⟩
    · obtain ⟨ch, hch, _⟩ := dirmap_some_of_isDirC fl cs hdir
      have hnf : fileGet? fl (key cs) = none := by
        obtain ⟨g, hg, x, post, hsp⟩ := hdir
        exact hG.dir_not_file g hg cs post x hsp
      have := emb_dir fl (renderC cs) ch hnf hch
      simp only [embObs, Obs.mk.injEq] at this
      refine ⟨{ ftype := .dir, len := 0, created := .unset, modified := .unset,
                accessed := .unset }, w, ?_, rfl, ?_⟩
      · show (Embedded.metadata (new fl) (renderC cs), _) = _
        rw [this.2.1]
      · subst he; rfl
    · obtain ⟨_, h2, _⟩ := file_visible fl f b hf
      refine ⟨{ ftype := .file, len := b.length, created := .now, modified := .now,
                accessed := .unset }, w, ?_, rfl, ?_⟩
      · show (Embedded.metadata (new fl) ('/' :: f), _) = _
        rw [h2]
      · subst he; rfl

/-- the physical leaf shows the tree of its (well-formed, duplicate-free) map -/
theorem phys_treeView {w : World} {i : Nat} {m : FMap} (h : PhysLeafAt w i m) (hwf : WF m)
    (hk : FMap.NodupKeys m) : WkG.TreeView (leafFS i) w m.find? := by
  refine C05.treeView_of_map hwf hk ?_ ?_
  · intro p e hp hd
    have r := phys_runs h 0 p
    have := phys_present hwf p e hp
    have hrd := r.rd
    rw [this] at hrd
    simp only [physVP, hd] at hrd
    exact hrd
  · intro p e hp
    have r := phys_runs h 0 p
    have := phys_present hwf p e hp
    have hmd := r.md
    rw [this] at hmd
    exact ⟨_, hmd, rfl⟩

/-- **C18, traversal.** `walk_dir` collected from any directory `renderC cs` of a non-empty
well-formed folder (the root included) yields, on the embedded filesystem and on the physical
filesystem holding `folderMap fl`, `.ok` lists of `.ok` items whose path strings form the SAME
SET: exactly the present paths strictly below the directory, each once (so the two lists are
permutations of each other), on both sides no path before one of its ancestors; neither walk
changes the world. `fuel` bounds the number of `next` calls (any number above the number of
descendants). -/
theorem embedded_walk_matches_physical (fl : List (Str × Bytes)) (hG : GoodFiles fl)
    (cs : List Str) (hcs : GoodCs cs) (hd : IsDirC fl cs)
    (w : World) (i : Nat) (h : PhysLeafAt w i (folderMap fl)) (idE idP : Nat) (fuel : Nat)
    (hf : ((folderMap fl).keys.filter (Wk.below (renderC cs))).length < fuel) :
    ∃ LE LP : List Str,
      WkG.collect fuel (embVP fl idE (renderC cs)) w =
        (.ok (LE.map fun k => .ok (embVP fl idE k)), w) ∧
      WkG.collect fuel (physVP i idP (renderC cs)) w =
        (.ok (LP.map fun k => .ok (physVP i idP k)), w) ∧
      LE.Perm LP ∧ LE.Nodup ∧ LP.Nodup ∧
      (∀ k, k ∈ LE ↔ (folderMap fl).find? k ≠ none ∧ Wk.below (renderC cs) k = true) ∧
      LE.Pairwise (fun a b => Wk.below b a = false) ∧
      LP.Pairwise (fun a b => Wk.below b a = false) := by
  have hne : fl ≠ [] := by
    obtain ⟨f, hf', _⟩ := hd
    intro e; subst e; cases hf'
  have hwf := folderMap_wf fl
  have hnk := folderMap_nodupKeys fl hG
  have hfind := folderMap_find?_dir fl cs hcs.noSlash (Or.inr hd)
  have tE := embedded_treeView fl hG hne w
  have tP := phys_treeView h hwf hnk
  obtain ⟨LE, wE, hwE, hE, hmE, hndE, hordE⟩ :=
    (WkG.walk_from_dir (P := embVP fl idE (renderC cs)) tE hwf hnk w rfl (renderC cs)
      dirEntryNow hfind rfl fuel).1 hf
  obtain ⟨LP, wP, hwP, hP, hmP, hndP, hordP⟩ :=
    (WkG.walk_from_dir (P := physVP i idP (renderC cs)) tP hwf hnk w rfl (renderC cs)
      dirEntryNow hfind rfl fuel).1 hf
  subst hwE; subst hwP
  refine ⟨LE, LP, hE, hP, ?_, hndE, hndP, ?_, hordE, hordP⟩
  · exact (List.perm_ext_iff_of_nodup hndE hndP).2 (fun k => by rw [hmE k, hmP k])
  · intro k
    rw [hmE k, FMap.mem_keys_iff, C05.ne_none_iff]

/-- `walk_dir` on a canonical path that is not a directory fails on both sides with the same
error class (not-found for absent paths; "other failure" for files), before any item -/
theorem embedded_walk_nondir (fl : List (Str × Bytes)) (hG : GoodFiles fl)
    (cs : List Str) (hcs : GoodCs cs) (hnb : ¬ BelowFile fl (renderC cs)) (hd : ¬ IsDirC fl cs)
    (hne : cs ≠ [])
    (w : World) (i : Nat) (h : PhysLeafAt w i (folderMap fl)) (idE idP : Nat) (fuel : Nat) :
    SameRes (fun _ _ => False) (WkG.collect fuel (embVP fl idE (renderC cs)) w).1
      (WkG.collect fuel (physVP i idP (renderC cs)) w).1 ∧
    (WkG.collect fuel (embVP fl idE (renderC cs)) w).2 = w ∧
    (WkG.collect fuel (physVP i idP (renderC cs)) w).2 = w := by
  have rE := emb_runs fl idE (renderC cs) w
  have rP := phys_runs h idP (renderC cs)
  cases classify fl hG cs hcs hnb (Or.inr hne) with
  | file b he hp =>
    rw [he] at rE; rw [hp] at rP
    rw [(WkG.collect_readDir_err fuel _ w w _ _ rE.rd).2,
      (WkG.collect_readDir_err fuel _ w w _ _ rP.rd).2]
    simp [SameRes, ErrKind.cls]
  | dir ch he hp hperm hnames hfind =>
    exfalso
    rcases (renderC_mem_dirKeys fl cs hcs.noSlash).1 (by
      have := hfind; rw [folderMap_find?] at this
      by_cases hm : renderC cs ∈ dirKeys fl
      · exact hm
      · rw [if_neg hm] at this
        obtain ⟨f, b, _, _, _, he'⟩ := find?_fileKVs_some fl _ _ this
        cases he') with h0 | h0
    · exact hne h0
    · exact hd h0
  | absent he hp hfind =>
    rw [he] at rE; rw [hp] at rP
    rw [(WkG.collect_readDir_err fuel _ w w _ _ rE.rd).2,
      (WkG.collect_readDir_err fuel _ w w _ _ rP.rd).2]
    simp [SameRes, ErrKind.cls]

/-! ### 8. the exceptions, stated exactly -/

/-- EXCEPTION 1 (`open_file` on a directory, the root included): the embedded filesystem answers
not-found at once; `File::open` of the physical filesystem succeeds on a directory and the first
read fails with an I/O error ("other failure"). The error CLASSES differ. -/
theorem open_dir_differs (fl : List (Str × Bytes)) (hG : GoodFiles fl) (cs : List Str)
    (hcs : GoodCs cs) (hd : IsDirC fl cs)
    (w : World) (i : Nat) (h : PhysLeafAt w i (folderMap fl)) (idE idP : Nat) :
    (embVP fl idE (renderC cs)).openFile w = (.err .fileNotFound (some (renderC cs)), w) ∧
    (physVP i idP (renderC cs)).openFile w = (.ok { content := [], pos := 0, bad := true }, w) ∧
    readAll (embVP fl idE (renderC cs)) w = (.err .fileNotFound (some (renderC cs)), w) ∧
    readAll (physVP i idP (renderC cs)) w = (.err .io (some (renderC cs)), w) ∧
    ErrKind.fileNotFound.cls ≠ ErrKind.io.cls := by
  obtain ⟨ch, hch, _⟩ := dirmap_some_of_isDirC fl cs hd
  have hnf : fileGet? fl (key cs) = none := by
    obtain ⟨g, hg, x, post, hsp⟩ := hd
    exact hG.dir_not_file g hg cs post x hsp
  have he := emb_dir fl (renderC cs) ch hnf hch
  have hfind := folderMap_find?_dir fl cs hcs.noSlash (Or.inr hd)
  have hp := phys_present (folderMap_wf fl) _ _ hfind
  have rE := emb_runs fl idE (renderC cs) w
  have rP := phys_runs h idP (renderC cs)
  rw [he] at rE; rw [hp] at rP
  refine ⟨?_, ?_, ?_, ?_, by decide⟩
  · unfold VPath.openFile M.withPath
    show (match (embVP fl idE (renderC cs)).fs.openFile (embVP fl idE (renderC cs)).path w with
      | (r, w') => (r.withPath _, w')) = _
    rw [rE.op]; rfl
  · unfold VPath.openFile M.withPath
    show (match (physVP i idP (renderC cs)).fs.openFile (physVP i idP (renderC cs)).path w with
      | (r, w') => (r.withPath _, w')) = _
    rw [rP.op]; rfl
  · rw [rE.readAll_eq]; rfl
  · rw [rP.readAll_eq]; rfl

theorem take_mem_ancestors_take (p : Str) (i j : Nat) (hij : i < j) (hj : j < p.length)
    (hc : p[i]? = some '/') : p.take i ∈ Phys.ancestors (p.take j) := by
  rw [mem_ancestors]
  refine ⟨i, by rw [List.length_take]; omega, ?_, ?_⟩
  · rw [List.getElem?_take]; simp [hij, hc]
  · rw [List.take_take]; congr 1; omega

/-- the ancestors of a path are listed shortest first: each is an ancestor of the later ones -/
theorem ancestors_pairwise (p : Str) :
    (Phys.ancestors p).Pairwise (fun a b => a ∈ Phys.ancestors b) := by
  rw [show Phys.ancestors p = ((List.range p.length).filter
    (fun i => p[i]? = some '/')).map (fun i => p.take i) from rfl, List.pairwise_map]
  have h := (List.pairwise_lt_range (n := p.length)).filter (fun i => p[i]? = some '/')
  refine h.imp_of_mem ?_
  intro i j hi hj hij
  simp only [List.mem_filter, List.mem_range, decide_eq_true_eq] at hi hj
  exact take_mem_ancestors_take p i j hij hj.1 hi.2

/-- the converse of `resolveParent_cases` on a well-formed map: below a file, resolution fails
with `ENOTDIR` -/
theorem resolveParent_below_file {m : FMap} (hwf : WF m) (p a' : Str)
    (ha' : a' ∈ Phys.ancestors p) (e' : Entry) (he' : m.find? a' = some e')
    (hf : e'.ftype = .file) : Phys.resolveParent m p = fail .io := by
  unfold Phys.resolveParent
  split
  · rename_i heq
    have := List.find?_eq_none.1 heq a' ha'
    simp [he', hf] at this
  · rename_i a heq
    split
    · rfl
    · rename_i ha
      exfalso
      obtain ⟨_, as, bs, hl, has⟩ := List.find?_eq_some_iff_append.1 heq
      have hpw := ancestors_pairwise p
      rw [hl] at ha' hpw
      rcases List.mem_append.1 ha' with hm | hm
      · have := has a' hm
        simp [he', hf] at this
      · rcases List.mem_cons.1 hm with rfl | hm
        · rw [he'] at ha; cases ha
        · have h1 := (List.pairwise_append.1 hpw).2.1
          have h2 := (List.pairwise_cons.1 h1).1 a' hm
          obtain ⟨e, he, _⟩ := hwf.ancestors_good a'.length a' (Nat.le_refl _) ⟨e', he'⟩ a h2
          rw [he] at ha; cases ha

theorem slashfile_mem_ancestors (a t : Str) : a ∈ Phys.ancestors (a ++ '/' :: t) := by
  rw [mem_ancestors]
  exact ⟨a.length, by simp, by simp, by simp⟩

/-- below an embedded file the embedded filesystem knows nothing -/
theorem emb_below_file (fl : List (Str × Bytes)) (hG : GoodFiles fl) (f : Str × Bytes)
    (hf : f ∈ fl) (t : Str) :
    embObs fl ('/' :: f.1 ++ '/' :: t) =
      ⟨false, fail .fileNotFound, fail .fileNotFound, fail .fileNotFound⟩ := by
  have hnorm : normalize ('/' :: f.1 ++ '/' :: t) = f.1 ++ '/' :: t := rfl
  have hsp : splitSlash (f.1 ++ '/' :: t) = splitSlash f.1 ++ splitSlash t :=
    C06.splitOnC_append '/' f.1 t
  have hne : splitSlash t ≠ [] := splitOnC_ne_nil _ _
  have hcontra : ∀ g ∈ fl, ∀ rest, rest ≠ [] → splitSlash g.1 = splitSlash f.1 ++ rest → False := by
    intro g hg rest hrest hsg
    have := hG.2.2 f hf g hg (splitSlash f.1).length (by
      rw [hsg, List.mem_range, List.length_append]
      have : rest.length ≠ 0 := fun e => hrest (List.eq_nil_of_length_eq_zero e)
      omega)
    rw [hsg, List.take_left', key_splitSlash] at this
    · exact this rfl
    · rfl
  have hfile : fileGet? fl (f.1 ++ '/' :: t) = none := by
    apply fileGet?_eq_none
    intro g hg heq
    exact hcontra g hg (splitSlash t) hne (by rw [heq, hsp])
  have hdir : (new fl).directoryMap.get? (f.1 ++ '/' :: t) = none := by
    cases hg : (new fl).directoryMap.get? (f.1 ++ '/' :: t) with
    | none => rfl
    | some v =>
      exfalso
      have : ((new fl).directoryMap.get? (f.1 ++ '/' :: t)).isSome = true := by rw [hg]; rfl
      obtain ⟨g, hg', pre, x, post, hspg, hk⟩ := (isDir_new_iff fl _).mp this
      have hpre : pre ≠ [] := by
        intro e; subst e; simp at hk
      have hpns : NoSlash pre := fun c hc => noSlash_split g.1 c (by rw [hspg]; simp [hc])
      have h1 : splitSlash (key pre) = pre := splitSlash_key hpns hpre
      rw [← hk, hsp] at h1
      exact hcontra g hg' (splitSlash t ++ x :: post) (by simp) (by rw [hspg, ← h1]; simp)
  exact emb_absent fl _ (by rw [hnorm]; exact hfile) (by rw [hnorm]; exact hdir)
    (by rw [hnorm]; simp)

/-- EXCEPTION 2 (paths below an embedded FILE, "/<file>/…"): the embedded filesystem answers
not-found to `metadata`, `read_dir` and `open_file`; the physical filesystem fails path resolution
with `ENOTDIR`, an I/O error ("other failure"). `exists` is `false` on both. -/
theorem below_file_differs (fl : List (Str × Bytes)) (hG : GoodFiles fl) (p : Str)
    (hb : BelowFile fl p) :
    embObs fl p = ⟨false, fail .fileNotFound, fail .fileNotFound, fail .fileNotFound⟩ ∧
    physObs (folderMap fl) p = ⟨false, fail .io, fail .io, fail .io⟩ := by
  obtain ⟨f, hf, hbel⟩ := hb
  obtain ⟨t, rfl⟩ := (Wk.below_iff _ _).1 hbel
  refine ⟨emb_below_file fl hG f hf t, ?_⟩
  apply phys_io_answers
  have hfile : (folderMap fl).find? ('/' :: f.1) = some (fileEntry f.2) := by
    have h1 : splitSlash f.1 ≠ [] := splitOnC_ne_nil _ _
    have h2 := folderMap_find?_nodir fl (splitSlash f.1) (noSlash_split _) h1 (by
      rintro ⟨g, hg, x, post, hsp⟩
      have := hG.dir_not_file g hg _ post x hsp
      rw [key_splitSlash, fileGet?_of_mem fl f.1 f.2 hG.2.1 hf] at this
      cases this)
    rw [renderC_splitSlash, key_splitSlash, fileGet?_of_mem fl f.1 f.2 hG.2.1 hf] at h2
    exact h2
  unfold Phys.lookup
  rw [resolveParent_below_file (folderMap_wf fl) _ ('/' :: f.1)
    (slashfile_mem_ancestors ('/' :: f.1) t) _ hfile rfl]
  rfl

/-- … at the `VfsPath` level: `metadata` below a file is not-found on the embedded filesystem and
an I/O error on the physical one -/
theorem below_file_differs_vpath (fl : List (Str × Bytes)) (hG : GoodFiles fl) (p : Str)
    (hb : BelowFile fl p) (w : World) (i : Nat) (h : PhysLeafAt w i (folderMap fl))
    (idE idP : Nat) :
    (embVP fl idE p).metadata w = (.err .fileNotFound (some p), w) ∧
    (physVP i idP p).metadata w = (.err .io (some p), w) ∧
    (embVP fl idE p).exists_ w = (.ok false, w) ∧ (physVP i idP p).exists_ w = (.ok false, w) := by
  obtain ⟨he, hp⟩ := below_file_differs fl hG p hb
  have rE := emb_runs fl idE p w
  have rP := phys_runs h idP p
  rw [he] at rE; rw [hp] at rP
  exact ⟨by rw [rE.metadata_eq]; rfl, by rw [rP.metadata_eq]; rfl, rE.exists_eq, rP.exists_eq⟩

/-- EXCEPTION 3 (the root of the EMPTY folder): `exists("")` is true on both, but the embedded
directory map has no entry for the root, so `metadata("")` and `read_dir("")` answer not-found,
while the physical root is an (empty) directory -/
theorem empty_folder_root_differs :
    embObs [] [] = ⟨true, fail .fileNotFound, fail .fileNotFound, fail .fileNotFound⟩ ∧
    physObs (folderMap []) [] =
      ⟨true, .ok { ftype := .dir, len := 0, created := .now, modified := .now, accessed := .now },
        .ok [], .ok { content := [], pos := 0, bad := true }⟩ := by
  decide

end Vfs.C18

#print axioms Vfs.C18.open_dir_differs
#print axioms Vfs.C18.below_file_differs
#print axioms Vfs.C18.embedded_matches_physical
#print axioms Vfs.C18.embedded_walk_matches_physical
#print axioms Vfs.C18.embedded_walk_nondir
