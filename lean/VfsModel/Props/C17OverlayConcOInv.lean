/-
  C17 for the overlay under all interleavings, stated with the sequential invariant `OInv` of
  Props/C09Contract.lean: `overlay_create_dir_all_concurrent_OInv` is
  `C17.overlay_create_dir_all_concurrent` (Props/C17OverlayConc.lean) with its two hypotheses on the
  hidden state of the write layer (`hghost`: no entry of the write layer at a marked requested
  prefix is a file; `hmark`: markers of requested prefixes are files) and `RootOk` discharged from
  `OInv mu0 ms` — the invariant every sequential overlay operation preserves (C09Contract).
  What remains as a hypothesis about the initial state is exactly C17's "no files in the way":
  no non-empty prefix of a requested path is a FILE of the n-layer view.
  Nothing else is proved here.
-/
import VfsModel.Props.C17OverlayConc
import VfsModel.Props.C09Contract
set_option linter.unusedVariables false
namespace Vfs.C17
open Vfs Vfs.Overlay Vfs.OConc Vfs.C09

/-- a requested prefix is a non-reserved path -/
theorem req_NR {paths : List (List Str)} (hp : PathsOK paths) {q : Str} (hq : Req paths q) : NR q := by
  obtain ⟨cs, hcs, j, h1, h2, rfl⟩ := hq
  exact NR_renderC (take_ne_nil h1 h2)
    (fun c hc => ((hp cs hcs).1 c (List.mem_of_mem_take hc)).noSlash)
    (C10.take_head_ne h1 (hp cs hcs).2)

variable {u idu : Nat} {is ids : List Nat} {ms : List FMap} {paths : List (List Str)}

/-- **C17 for OverlayFS over n memory layers, from the sequential invariant**: any state reachable
by sequential overlay operations (`OInv`), any number of threads `create_dir_all(renderC cs_i)`,
no non-empty prefix of a requested path a file of the view; every schedule: (a), (b), (c) as in
`overlay_create_dir_all_concurrent` -/
theorem overlay_create_dir_all_concurrent_OInv (w0 : World) (mu0 : FMap)
    (hown : OWN w0 (u :: is) (idu :: ids) (mu0 :: ms)) (hp : PathsOK paths) (inv : OInv mu0 ms)
    (hnofile : ∀ cs ∈ paths, ∀ j, 1 ≤ j → j ≤ cs.length →
      ∀ e, viewN (mu0 :: ms) (renderC (cs.take j)) = some e → e.ftype = .dir)
    (schedule : List Nat) :
    let s := OConc.run (initSys (layersN (u :: is) (idu :: ids)) w0 (paths.map renderC)) schedule
    ∃ mu,
      (s.world = w0.setLeafFiles u mu ∧ OWN s.world (u :: is) (idu :: ids) (mu :: ms) ∧
        Evolve paths mu0 mu) ∧
      (s.threads.length = paths.length ∧
       ∀ (i : Nat) (cs : List Str) (r : Res Unit), paths[i]? = some cs →
        s.results[i]? = some (some r) →
        r = .ok () ∧ ∀ j, 1 ≤ j → j ≤ cs.length →
          ∃ e, viewN (mu :: ms) (renderC (cs.take j)) = some e ∧ e.ftype = .dir) ∧
      (s.finished = true →
        s.results = paths.map (fun _ => some (.ok ())) ∧
        ∀ cs ∈ paths, ∀ j, 1 ≤ j → j ≤ cs.length →
          ∃ e, viewN (mu :: ms) (renderC (cs.take j)) = some e ∧ e.ftype = .dir) :=
  overlay_create_dir_all_concurrent w0 mu0 hown hp inv.root hnofile
    (fun q hq hm e he => by rw [inv.ghost q (req_NR hp hq) hm] at he; cases he)
    (fun q hq e he => inv.markFile q e (req_NR hp hq) he) schedule

end Vfs.C17

#print axioms Vfs.C17.overlay_create_dir_all_concurrent_OInv
