/-
  C14 over WHOLE SCRIPTS — handles obtained through the n-layer overlay (part 4).

  SETTING (that of Props/C04OverlaySessions.lean): `OWN w (u :: is) (idu :: ids) (mu :: ms)` —
  n ≥ 1 pairwise distinct memory leaves whose roots are the layers, `mu` the upper (write) map,
  `ms` the lower maps —, the path discipline `OpPath (ds ++ [n])`, `p = renderC (ds ++ [n])`, the
  overlay path `ovP u idu is ids oid p` with ANY identity `oid`.

  PROVED
   * READ handles. `opened_handle_good_overlay`: when the VIEW shows a file with bytes `bs` at `p`
     (`VHolds … (some bs)`, in whichever layer), `open_file` through the overlay succeeds and EVERY
     successful result is the good handle `⟨bs, 0⟩`. `opened_handle_good_overlay_first_layer`: with
     the hypothesis spelled by layers — no whiteout marker, `FirstAt`: the first layer that has
     `p` holds the FILE `e` there — the handle is `⟨e.content, 0⟩`, whatever deeper layers hold
     (via `C04.overlay_read_holds`, `C04.vholds_of_firstAt`).
     `read_script_on_overlay`, `read_script_on_overlay_first_layer`: hence
     `read_script_is_cursor` (Props/C14Scripts.lean): any script of read / seek calls on that handle
     answers, call by call, as the specification run over `bs` from position 0 (`bs.length < 2^64`).
   * WRITE handles (hyp. additionally `OInv mu ms`, `ViewWF (oview (mu :: ms))`, `VReady`: parent a
     directory of the view, `p` absent or a file of the view). `opened_whandle_overlay`: the open
     of a create / append session through the overlay returns the in-memory handle on the UPPER
     leaf with the start state of the specification — create: `([], 0)`; append: `(bs, |bs|)` for
     the bytes `bs` the VIEW shows (copied up from the first layer that has them) — and a file
     sits at `p` of the upper map afterwards (`C04.overlay_open_exact`).
     `write_script_on_overlay`: hence for ANY script the answers and positions are the
     specification's (`write_script_is_cursor`), while the handle is open the upper map holds at
     `p` the vector as of the last flush (`write_script_published`), after the drop exactly the
     specification's vector (`write_script_dropped`), other keys of the upper map untouched.
     (What the VIEW shows afterwards, invariants and frame: `C04.overlay_session_exact`.)
   * non-vacuity on the 3-layer world `xw` of Props/C09Refine.lean (`decide +kernel`).

  NOT PROVED HERE: layers that are not roots of memory leaves (sub-directories, physical / embedded
  lower layers, nested overlays): for those only the pass-through of the ALTROOT is generic
  (Props/C14ScriptsBackends.lean); an uninterpreted "the overlay returns the handle of some layer"
  for arbitrary layer filesystems is not stated.
-/
import VfsModel.Props.C04OverlaySessions
import VfsModel.Props.C14Scripts
import VfsModel.Props.C14ScriptsWrite
set_option linter.unusedVariables false
set_option linter.unusedSectionVars false
namespace Vfs.C14
open Vfs Vfs.Overlay Vfs.C02 Vfs.C09 Vfs.C04

section read
variable {w : World} {u idu : Nat} {mu : FMap} {is ids : List Nat} {ms : List FMap}
  (h : OWN w (u :: is) (idu :: ids) (mu :: ms)) {ds : List Str} {n : Str}
  (hp : OpPath (ds ++ [n])) (oid : Nat)
include h hp

/-- **overlay.** Where the view shows a file with bytes `bs`, `open_file` through the overlay
succeeds, and every successful result is a good handle at position 0 over exactly `bs` -/
theorem opened_handle_good_overlay (bs : Bytes)
    (hh : VHolds (oview (mu :: ms)) (renderC (ds ++ [n])) (some bs)) :
    (∃ w2, (ovP u idu is ids oid (renderC (ds ++ [n]))).openFile w
        = (.ok { content := bs, pos := 0 }, w2)) ∧
    ∀ r w', (ovP u idu is ids oid (renderC (ds ++ [n]))).openFile w = (.ok r, w') →
      r = { content := bs, pos := 0 } ∧ Good r ∧ r.pos = 0 := by
  obtain ⟨⟨w2, hopen⟩, _, _⟩ := overlay_read_holds h hp oid bs hh
  refine ⟨⟨w2, hopen⟩, fun r w' hr => ?_⟩
  have hopen' : (ovP u idu is ids oid (renderC (ds ++ [n]))).openFile w
      = (.ok { content := bs, pos := 0 }, w2) := hopen
  rw [hopen'] at hr
  simp only [Prod.mk.injEq, Res.ok.injEq] at hr
  rw [← hr.1]
  exact ⟨rfl, rfl, rfl⟩

/-- the same with the hypothesis spelled by layers: no marker, and the FIRST layer that has the
path holds a file `e` there — its bytes are served, whatever deeper layers hold -/
theorem opened_handle_good_overlay_first_layer
    (hmk : mu.contains (marker (renderC (ds ++ [n]))) = false)
    {k : Nat} {m : FMap} (hfirst : FirstAt (mu :: ms) (renderC (ds ++ [n])) k m) {e : Entry}
    (he : m.find? (renderC (ds ++ [n])) = some e) (hf : e.ftype = .file) :
    (∃ w2, (ovP u idu is ids oid (renderC (ds ++ [n]))).openFile w
        = (.ok { content := e.content, pos := 0 }, w2)) ∧
    ∀ r w', (ovP u idu is ids oid (renderC (ds ++ [n]))).openFile w = (.ok r, w') →
      r = { content := e.content, pos := 0 } ∧ Good r ∧ r.pos = 0 :=
  opened_handle_good_overlay h hp oid e.content (vholds_of_firstAt hp hmk hfirst he hf)

/-- any script of read / seek calls on the handle the overlay returns -/
theorem read_script_on_overlay (bs : Bytes)
    (hh : VHolds (oview (mu :: ms)) (renderC (ds ++ [n])) (some bs)) (hlen : bs.length < u64Max)
    (r : RHandle) (w' : World)
    (hopen : (ovP u idu is ids oid (renderC (ds ++ [n]))).openFile w = (.ok r, w'))
    (ops : List ROp) :
    runROps r ops = ((rspecRun bs 0 ops).map (fun o => (o.1.toModel, o.2)),
      { content := bs, pos := rspecPos bs 0 ops }) := by
  obtain ⟨hr, _, _⟩ := (opened_handle_good_overlay h hp oid bs hh).2 r w' hopen
  rw [hr]
  exact read_script_is_cursor { content := bs, pos := 0 } ops rfl hlen

theorem read_script_on_overlay_first_layer
    (hmk : mu.contains (marker (renderC (ds ++ [n]))) = false)
    {k : Nat} {m : FMap} (hfirst : FirstAt (mu :: ms) (renderC (ds ++ [n])) k m) {e : Entry}
    (he : m.find? (renderC (ds ++ [n])) = some e) (hf : e.ftype = .file)
    (hlen : e.content.length < u64Max) (r : RHandle) (w' : World)
    (hopen : (ovP u idu is ids oid (renderC (ds ++ [n]))).openFile w = (.ok r, w'))
    (ops : List ROp) :
    runROps r ops = ((rspecRun e.content 0 ops).map (fun o => (o.1.toModel, o.2)),
      { content := e.content, pos := rspecPos e.content 0 ops }) :=
  read_script_on_overlay h hp oid e.content (vholds_of_firstAt hp hmk hfirst he hf) hlen r w' hopen ops

end read

section write
variable {w : World} {u idu : Nat} {mu : FMap} {is ids : List Nat} {ms : List FMap}
  (h : OWN w (u :: is) (idu :: ids) (mu :: ms)) (inv : OInv mu ms)
  (hv : ViewWF (oview (mu :: ms))) {ds : List Str} {n : Str} (hp : OpPath (ds ++ [n])) (oid : Nat)
include h inv hv hp

/-- **write handles through the overlay.** The open of a create / append session returns the
in-memory handle on the upper leaf in the start state of the specification (create: empty at 0;
append: the bytes the view shows, positioned at their end); the upper leaf then has a file at `p` -/
theorem opened_whandle_overlay (c : Option Bytes) (hr : VReady (oview (mu :: ms)) ds n c)
    (s : Session) (b0 : Bytes) (n0 : Nat) (hst : startOf c s = some (b0, n0)) :
    ∃ w0 muS eS, s.opener (ovP u idu is ids oid (renderC (ds ++ [n]))) w
        = (.ok (memH u (renderC (ds ++ [n])) b0 n0), w0) ∧
      MemLeafAt w0 u muS ∧ muS.find? (renderC (ds ++ [n])) = some eS ∧ eS.ftype = .file := by
  obtain ⟨w0, muS, ms', hopen, hown, hopened, _⟩ :=
    overlay_open_exact h inv hv hp oid c hr s b0 n0 hst
  obtain ⟨_, eS, hfind, hfS, _⟩ := hopened.spec hp
  exact ⟨w0, muS, eS, hopen, hown.leafAt 0 u muS rfl rfl, hfind, hfS⟩

/-- the start states, in the property's words -/
theorem overlay_create_starts_empty (c : Option Bytes) (a : List Act) :
    startOf c (.create a) = some ([], 0) := rfl

theorem overlay_append_starts_at_end (old : Bytes) (a : List Act) :
    startOf (some old) (.append a) = some (old, old.length) := rfl

/-- any script through the write handle the overlay returns: answers and positions are the
specification's; while the handle is open the upper map holds at `p` the vector as of the last
flush; after the drop exactly the specification's vector; other keys of the upper map untouched -/
theorem write_script_on_overlay (c : Option Bytes) (hr : VReady (oview (mu :: ms)) ds n c)
    (s : Session) (b0 : Bytes) (n0 : Nat) (hst : startOf c s = some (b0, n0)) (acts : List Act) :
    ∃ hd w0 muS eS, s.opener (ovP u idu is ids oid (renderC (ds ++ [n]))) w = (.ok hd, w0) ∧
      hd = memH u (renderC (ds ++ [n])) b0 n0 ∧
      MemLeafAt w0 u muS ∧ muS.find? (renderC (ds ++ [n])) = some eS ∧ eS.ftype = .file ∧
      traceActs hd w0 acts = (wspecTrace b0 n0 acts).map (fun o => (o.1.toModel, o.2)) ∧
      (∃ m1, applyActs hd w0 acts =
          (memH u (renderC (ds ++ [n])) (specRun b0 n0 acts).1 (specRun b0 n0 acts).2,
            w0.setLeafFiles u m1) ∧
        Holds m1 (renderC (ds ++ [n])) (some (specFlushed eS.content b0 n0 acts)) ∧
        (∀ k, k ≠ renderC (ds ++ [n]) → m1.find? k = muS.find? k)) ∧
      (∃ m2, C03.runActs hd acts w0 = (.ok (), w0.setLeafFiles u m2) ∧
        Holds m2 (renderC (ds ++ [n])) (some (specRun b0 n0 acts).1) ∧
        (∀ k, k ≠ renderC (ds ++ [n]) → m2.find? k = muS.find? k)) := by
  obtain ⟨w0, muS, eS, hopen, hleaf, hfind, hfS⟩ :=
    opened_whandle_overlay h inv hv hp oid c hr s b0 n0 hst
  exact ⟨_, w0, muS, eS, hopen, rfl, hleaf, hfind, hfS,
    (write_script_is_cursor b0 n0 acts w0).1,
    write_script_published hleaf eS hfind hfS b0 n0 acts,
    write_script_dropped hleaf eS hfind hfS b0 n0 acts⟩

end write

/-! ## non-vacuity: the 3-layer world of Props/C09Refine.lean / C04OverlaySessions.lean -/

/-- "/d/x": layer 1 holds "1", layer 2 holds "2", the upper layer nothing — layer 1 is served -/
example : (xPx.openFile xw).1 = .ok { content := [49], pos := 0 } := by decide +kernel

/-- a script with End-relative seeks (negative, positive), a rejected seek and reads beyond the
data, on the handle the overlay returns -/
example :
    (match xPx.openFile xw with
      | (.ok r, _) => (runROps r [.seek (.fromEnd (-1)), .read 4, .seek (.fromEnd 3), .read 2,
          .seek (.fromEnd (-2)), .seek (.start 0), .read 1, .read 1]).1
      | _ => []) =
    [(.inr (.ok 0), 0), (.inl (.ok [49]), 1), (.inr (.ok 4), 4), (.inl (.ok []), 4),
     (.inr (fail .io), 4), (.inr (.ok 0), 0), (.inl (.ok [49]), 1), (.inl (.ok []), 1)] := by
  decide +kernel

/-- write handles through the overlay: append starts at the end of layer 1's bytes, create empty -/
example : (xPx.appendFile xw).1 = .ok (memH 2 "/d/x".toList [49] 1) := by decide +kernel
example : (xPx.createFile xw).1 = .ok (memH 2 "/d/x".toList [] 0) := by decide +kernel

end Vfs.C14

#print axioms Vfs.C14.opened_handle_good_overlay
#print axioms Vfs.C14.opened_handle_good_overlay_first_layer
#print axioms Vfs.C14.read_script_on_overlay
#print axioms Vfs.C14.read_script_on_overlay_first_layer
#print axioms Vfs.C14.opened_whandle_overlay
#print axioms Vfs.C14.write_script_on_overlay
