/-
  C14 — File handles obey the standard Read, Write and Seek contracts.
  The read handle of MemoryFS (`ReadableFile`) is, for every content and every script of
  read/seek calls, the cursor specified by std; the write handle is std's `Cursor<Vec<u8>>`
  itself, whose `write` is characterised here; flush/drop publish exactly the buffer.
-/
import VfsModel.Leaf
namespace Vfs.C14

/-- a read handle obtained from a successful open of a file -/
def Good (r : RHandle) : Prop := r.bad = false

theorem amt_le (r : RHandle) (n : Nat) : r.amt n ≤ r.content.length - r.pos := by
  unfold RHandle.amt RHandle.remaining; exact Nat.min_le_right _ _

/-- reads never panic, for every content (a `Vec` is shorter than 2^64), position and buffer -/
theorem read_no_panic (r : RHandle) (n : Nat) (hlen : r.content.length < u64Max) :
    (r.read n).1 ≠ .panic := by
  have := amt_le r n
  unfold RHandle.read
  split
  · simp [fail]
  · split
    · simp
    · split
      · rename_i hz h; omega
      · simp

/-- `read(n)` returns exactly what std's cursor returns and advances by that amount -/
theorem read_is_cursor (r : RHandle) (n : Nat) (hg : Good r) (hlen : r.content.length < u64Max) :
    (r.read n).1 = .ok (cursorRead r.content r.pos n) ∧
    (r.read n).2.pos = r.pos + (cursorRead r.content r.pos n).length ∧
    (r.read n).2.content = r.content := by
  have hamt := amt_le r n
  have hamt' : r.amt n = min n (r.content.length - r.pos) := rfl
  have hlen' : (cursorRead r.content r.pos n).length = r.amt n := by
    unfold cursorRead; simp [List.length_take, List.length_drop, hamt']
  have htake : (r.content.drop r.pos).take (r.amt n) = cursorRead r.content r.pos n := by
    unfold cursorRead
    rw [hamt', List.take_eq_take_iff]
    simp [List.length_drop]
  unfold RHandle.read Good at *
  simp only [hg, Bool.false_eq_true, ↓reduceIte]
  by_cases hz : r.amt n = 0
  · simp only [hz, ↓reduceIte]
    have hnil : cursorRead r.content r.pos n = [] := List.eq_nil_of_length_eq_zero (by omega)
    simp [hnil]
  · simp only [hz, ↓reduceIte]
    have h1 : ¬ (r.pos + r.amt n > r.content.length ∨ r.pos + r.amt n ≥ u64Max) := by omega
    simp only [h1, ↓reduceIte]
    refine ⟨by rw [htake], by simp [hlen'], ?_⟩
    simp

/-- reads at or past the end return 0 bytes and do not move -/
theorem read_past_end (r : RHandle) (n : Nat) (hg : Good r) (h : r.content.length ≤ r.pos) :
    r.read n = (.ok [], r) := by
  have := amt_le r n
  unfold RHandle.read Good at *
  have : r.amt n = 0 := by omega
  simp [hg, this]

/-- bytes are returned in order and in range: what is read is the slice at the position -/
theorem read_slice (r : RHandle) (n : Nat) (hg : Good r)
    (hlen : r.content.length < u64Max) (b : Bytes)
    (h : (r.read n).1 = .ok b) : b = (r.content.drop r.pos).take n := by
  have := (read_is_cursor r n hg hlen).1
  rw [this] at h
  injection h with h
  exact h.symm

/-- seek: same outcome as std's cursor — before the start is an error, past the end is
allowed — the new position is the returned one, and a failed seek leaves the handle alone -/
theorem seek_is_cursor (r : RHandle) (s : SeekFrom) (hg : Good r) :
    (r.seek s).1 = cursorSeek r.content.length r.pos s ∧
    (∀ n, (r.seek s).1 = .ok n → (r.seek s).2.pos = n) ∧
    ((r.seek s).1.isOk = false → (r.seek s).2 = r) ∧
    (r.seek s).2.content = r.content := by
  unfold RHandle.seek cursorSeek Good at *
  simp only [hg, Bool.false_eq_true, ↓reduceIte]
  cases s with
  | start o => simp [Res.isOk]
  | cur o =>
    simp only [RHandle.seekTarget]
    by_cases h : (r.pos : Int) + o < 0 ∨ (r.pos : Int) + o ≥ (u64Max : Int)
    · have h' : ¬ (0 ≤ (r.pos : Int) + o ∧ (r.pos : Int) + o < (u64Max : Int)) := by omega
      simp [h, h', fail, Res.isOk]
    · have h' : (0 ≤ (r.pos : Int) + o ∧ (r.pos : Int) + o < (u64Max : Int)) := by omega
      simp [h, h', Res.isOk]
  | fromEnd o =>
    simp only [RHandle.seekTarget]
    by_cases h : (r.content.length : Int) + o < 0 ∨ (r.content.length : Int) + o ≥ (u64Max : Int)
    · have h' : ¬ (0 ≤ (r.content.length : Int) + o ∧ (r.content.length : Int) + o < (u64Max : Int)) := by omega
      simp [h, h', fail, Res.isOk]
    · have h' : (0 ≤ (r.content.length : Int) + o ∧ (r.content.length : Int) + o < (u64Max : Int)) := by omega
      simp [h, h', Res.isOk]

/-- seeking before the start is an error and leaves the handle where it was -/
theorem seek_before_start_errs (r : RHandle) (o : Int) (hg : Good r) (h : (r.pos : Int) + o < 0) :
    r.seek (.cur o) = (fail .io, r) := by
  unfold RHandle.seek RHandle.seekTarget Good at *
  simp [hg, h]

/-- no seek panics, whatever the offset (0, ±1, i64::MIN, i64::MAX, u64::MAX) -/
theorem seek_no_panic (r : RHandle) (s : SeekFrom) : (r.seek s).1 ≠ .panic := by
  unfold RHandle.seek
  split
  · simp [fail]
  · cases s with
    | start o => simp
    | cur o => simp only; split <;> simp [fail]
    | fromEnd o => simp only; split <;> simp [fail]

/-! ### the growable write cursor -/

/-- length after a write: the old length, or the end of the written range if that is further -/
theorem write_length (buf : Bytes) (pos : Nat) (bs : Bytes) :
    (cursorWrite buf pos bs).length = max buf.length (pos + bs.length) := by
  unfold cursorWrite padTo
  simp [List.length_take, List.length_drop, List.length_append, List.length_replicate]
  omega

/-- the written bytes land at `pos` -/
theorem write_at (buf : Bytes) (pos : Nat) (bs : Bytes) :
    ((cursorWrite buf pos bs).drop pos).take bs.length = bs := by
  unfold cursorWrite padTo
  have hl : (List.take pos (buf ++ List.replicate (pos - buf.length) 0)).length = pos := by
    simp [List.length_take, List.length_append, List.length_replicate]; omega
  rw [List.append_assoc, List.drop_append_of_le_length (by omega)]
  rw [List.drop_of_length_le (by omega)]
  simp

/-- everything before `pos` is the old content, zero-filled if the old content was shorter -/
theorem write_before (buf : Bytes) (pos : Nat) (bs : Bytes) :
    (cursorWrite buf pos bs).take pos = (buf ++ List.replicate (pos - buf.length) 0).take pos := by
  unfold cursorWrite padTo
  have hl : (List.take pos (buf ++ List.replicate (pos - buf.length) 0)).length = pos := by
    simp [List.length_take, List.length_append, List.length_replicate]; omega
  rw [List.append_assoc, List.take_append_of_le_length (by omega)]
  rw [List.take_of_length_le (by omega)]

/-- everything after the written range is the old content -/
theorem write_after (buf : Bytes) (pos : Nat) (bs : Bytes) :
    (cursorWrite buf pos bs).drop (pos + bs.length) = buf.drop (pos + bs.length) := by
  unfold cursorWrite padTo
  have hl : (List.take pos (buf ++ List.replicate (pos - buf.length) 0) ++ bs).length
      = pos + bs.length := by
    simp [List.length_take, List.length_append, List.length_replicate]; omega
  rw [List.drop_append_of_le_length (by omega)]
  rw [List.drop_of_length_le (by omega)]
  simp only [List.nil_append]
  by_cases h : pos ≤ buf.length
  · have : pos - buf.length = 0 := by omega
    simp [this]
  · rw [List.drop_of_length_le (by simp [List.length_append, List.length_replicate]; omega)]
    rw [List.drop_of_length_le (by omega)]

/-- writing at the end appends (what `append_file` relies on) -/
theorem write_at_end (buf bs : Bytes) : cursorWrite buf buf.length bs = buf ++ bs := by
  unfold cursorWrite padTo
  simp

/-- create starts empty: the first write at 0 yields exactly the bytes -/
theorem write_fresh (bs : Bytes) : cursorWrite [] 0 bs = bs := by
  unfold cursorWrite padTo; simp

/-- flush publishes exactly the buffer (while the file exists): a reader opened afterwards
sees it -/
theorem publish_exact (files : FMap) (key : Str) (buf : Bytes) (e0 : Entry)
    (h0 : files.find? key = some e0) (hf : e0.ftype = .file) :
    ∃ e, (memPublish files key buf).find? key = some e ∧ e.content = buf ∧ e.ftype = .file := by
  unfold memPublish
  simp [h0, hf, FMap.insert, FMap.find?]

/-- publishing keeps the creation time of the entry (and its access time) -/
theorem publish_keeps_created (files : FMap) (key : Str) (buf : Bytes) (e : Entry)
    (h : files.find? key = some e) (hf : e.ftype = .file) :
    ∃ e', (memPublish files key buf).find? key = some e' ∧ e'.created = e.created ∧
      e'.accessed = e.accessed := by
  unfold memPublish
  simp [h, hf, FMap.insert, FMap.find?]

/-- a handle whose file was removed, or replaced by a directory, publishes nothing: flush and
drop leave the map unchanged ("handles used after their file was removed") -/
theorem publish_after_removal (files : FMap) (key : Str) (buf : Bytes)
    (h : files.find? key = none ∨ ∃ e, files.find? key = some e ∧ e.ftype = .dir) :
    memPublish files key buf = files := by
  unfold memPublish
  rcases h with h | ⟨e, h, hd⟩
  · simp [h]
  · simp [h, hd]

/-! Non-vacuity -/
example : Good { content := [1, 2, 3], pos := 1 } := rfl
example : ({ content := [1, 2, 3], pos := 1 } : RHandle).read 5 = (.ok [2, 3], { content := [1, 2, 3], pos := 3 }) := by
  decide
example : (({ content := [1, 2, 3], pos := 1 } : RHandle).seek (.cur (-2))).1 = fail .io := by decide
example : cursorWrite [1, 2] 4 [9] = [1, 2, 0, 0, 9] := by decide

end Vfs.C14
