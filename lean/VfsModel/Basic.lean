/-
  Basic vocabulary of the model: strings, bytes, error kinds, outcomes.
  Core Lean only (no imports) so that the driver links as a `lean_exe`.
-/
namespace Vfs

/-- Strings are lists of characters. The Rust code only searches for the one-byte
characters '/' and '.', so char-indexed and byte-indexed readings coincide. -/
abbrev Str := List Char

abbrev Bytes := List UInt8

/-- `VfsErrorKind` after the normalisation of `From<VfsErrorKind> for VfsError`
(`IoError` with `io::ErrorKind::NotFound` has become `fileNotFound`). -/
inductive ErrKind where
  | io            -- IoError(e), e.kind() ≠ NotFound
  | fileNotFound
  | invalidPath
  | other
  | dirExists
  | fileExists
  | notSupported
  deriving DecidableEq, Repr, Inhabited

/-- Canonical error classes, the vocabulary of C01/C02/C12. -/
inductive ErrClass where
  | notFound | fileExists | dirExists | invalidPath | notSupported | otherFailure
  deriving DecidableEq, Repr, Inhabited

def ErrKind.cls : ErrKind → ErrClass
  | .io => .otherFailure
  | .fileNotFound => .notFound
  | .invalidPath => .invalidPath
  | .other => .otherFailure
  | .dirExists => .dirExists
  | .fileExists => .fileExists
  | .notSupported => .notSupported

/-- Outcome of a call. `path = none` is the unfilled placeholder
"PATH NOT FILLED BY VFS LAYER". `panic` is an ordinary value placed at every site where
the Rust can panic, so that "no panic" is a theorem and not an omission. -/
inductive Res (α : Type) where
  | ok (a : α)
  | err (k : ErrKind) (path : Option Str)
  | panic
  deriving DecidableEq, Repr, Inhabited

namespace Res

def isOk {α} : Res α → Bool
  | ok _ => true
  | _ => false

def isPanic {α} : Res α → Bool
  | panic => true
  | _ => false

def toOption {α} : Res α → Option α
  | ok a => some a
  | _ => none

def map {α β} (f : α → β) : Res α → Res β
  | ok a => ok (f a)
  | err k p => err k p
  | panic => panic

/-- `VfsError::with_path` -/
def withPath {α} (p : Str) : Res α → Res α
  | err k _ => err k (some p)
  | r => r

/-- Error kind of a failed outcome -/
def kind? {α} : Res α → Option ErrKind
  | err k _ => some k
  | _ => none

def errPath? {α} : Res α → Option (Option Str)
  | err _ p => some p
  | _ => none

end Res

/-- `VfsErrorKind::X.into()` : error without a path. -/
def fail {α} (k : ErrKind) : Res α := .err k none

end Vfs
