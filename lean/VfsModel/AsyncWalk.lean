/-
  The async `WalkDirIterator` (src/async_vfs/path.rs, `Stream::poll_next`) as a state machine
  with a pending oracle, next to the sync iterator (src/path.rs, `Iterator::next`) over the same
  immutable tree. The tree is given by two functions: the listing of a directory and the type of
  a path (what `read_dir` and `metadata` answer). The oracle decides, at every poll of an inner
  future or stream, whether it returns `Pending` (true) or completes (false).
-/
import VfsModel.Fs
namespace Vfs.AsyncWalk

/-- what the filesystem answers (immutable during the walk) -/
structure Tree where
  ls : Str → Res (List Str)      -- read_dir: the child paths, in listing order
  md : Str → Res FType           -- metadata: the type

/-- item yielded by a walk -/
inductive Item where
  | path (p : Str)
  | error (k : ErrKind) (p : Option Str)
  deriving DecidableEq, Repr

/-! ### the sync iterator -/

structure SyncSt where
  inner : List Str
  todo : List Str       -- stack, top first
  deriving DecidableEq, Repr

/-- the `loop` of `Iterator::next`: the next raw item and the state after taking it -/
def syncFind (t : Tree) : List Str → List Str → Option (Res Str) × SyncSt
  | x :: inner, todo => (some (.ok x), { inner := inner, todo := todo })
  | [], [] => (none, { inner := [], todo := [] })
  | [], d :: todo =>
    match t.ls d with
    | .ok (x :: inner) => (some (.ok x), { inner := inner, todo := todo })
    | .ok [] => syncFind t [] todo
    | .err k p => (some (.err k p), { inner := [], todo := todo })
    | .panic => (some .panic, { inner := [], todo := todo })

/-- `Iterator::next` -/
def syncNext (t : Tree) (s : SyncSt) : Option Item × SyncSt :=
  match syncFind t s.inner s.todo with
  | (none, s') => (none, s')
  | (some (.ok x), s') =>
    match t.md x with
    | .ok .dir => (some (.path x), { s' with todo := x :: s'.todo })
    | .ok .file => (some (.path x), s')
    | .err k p => (some (.error k p), s')
    | .panic => (some (.error .other none), s')
  | (some (.err k p), s') => (some (.error k p), s')
  | (some .panic, s') => (some (.error .other none), s')

/-! ### the async stream -/

structure AsyncSt where
  inner : List Str
  todo : List Str
  /-- item taken from `inner` whose metadata future was pending -/
  prev : Option Str := none
  /-- a `read_dir` future for the top of `todo` is stored -/
  rdFut : Bool := false
  /-- a `metadata` future for `prev` is stored -/
  mdFut : Bool := false
  deriving DecidableEq, Repr

inductive Poll where
  | pending
  | ready (item : Option Item)
  deriving DecidableEq, Repr

/-- consume one oracle decision: `true` = the inner future/stream returns Pending now -/
def ask : List Bool → Bool × List Bool
  | [] => (false, [])
  | b :: rest => (b, rest)

/-- the metadata step at the end of `poll_next` for a path `x` taken from the listing -/
def metaStep (t : Tree) (s : AsyncSt) (x : Str) (o : List Bool) : Poll × AsyncSt × List Bool :=
  let (pend, o) := ask o
  if pend then (.pending, { s with prev := some x, mdFut := true }, o)
  else
    match t.md x with
    | .ok .dir => (.ready (some (.path x)), { s with prev := none, mdFut := false, todo := x :: s.todo }, o)
    | .ok .file => (.ready (some (.path x)), { s with prev := none, mdFut := false }, o)
    | .err k p => (.ready (some (.error k p)), { s with prev := none, mdFut := false }, o)
    | .panic => (.ready (some (.error .other none)), { s with prev := none, mdFut := false }, o)

/-- the `loop` of `poll_next` (when `prev_result` is empty): structural on the todo stack,
`fuel` bounds nothing semantically (each round pops one directory) -/
def findLoop (t : Tree) : (todo : List Str) → (s : AsyncSt) → List Bool → Poll × AsyncSt × List Bool
  | todo, s, o =>
    -- `this.inner.poll_next_unpin(cx)`
    let (pend, o) := ask o
    if pend then (.pending, { s with todo := todo }, o)
    else
      match s.inner with
      | x :: inner => metaStep t { s with inner := inner, todo := todo } x o
      | [] =>
        match todo with
        | [] => (.ready none, { s with todo := [] }, o)
        | d :: rest =>
          -- poll the (possibly stored) read_dir future of the top directory
          let (pend2, o) := ask o
          if pend2 then (.pending, { s with todo := d :: rest, rdFut := true }, o)
          else
            match t.ls d with
            | .ok l => findLoop t rest { s with inner := l, rdFut := false } o
            | .err k p => (.ready (some (.error k p)), { s with todo := rest, rdFut := false }, o)
            | .panic => (.ready (some (.error .other none)), { s with todo := rest, rdFut := false }, o)

/-- `Stream::poll_next` -/
def pollNext (t : Tree) (s : AsyncSt) (o : List Bool) : Poll × AsyncSt × List Bool :=
  match s.prev with
  | some x => metaStep t s x o
  | none => findLoop t s.todo s o

/-- the sync state an async state stands for: a path whose metadata is still pending has been
taken from the listing but not yet yielded -/
def abs (s : AsyncSt) : SyncSt :=
  { inner := (match s.prev with | some x => x :: s.inner | none => s.inner), todo := s.todo }

end Vfs.AsyncWalk
