/-
  Transliteration of `PathLike` (src/path.rs:24-83): filename_internal, extension_internal,
  parent_internal, join_internal. Strings are `List Char`.
-/
import VfsModel.Basic
namespace Vfs

/-- `str::split(c)`: always at least one component. -/
def splitOnC (d : Char) : Str → List Str
  | [] => [[]]
  | c :: cs =>
    if c = d then [] :: splitOnC d cs
    else match splitOnC d cs with
      | [] => [[c]]
      | h :: t => (c :: h) :: t

abbrev splitSlash : Str → List Str := splitOnC '/'

/-- `&s[..s.rfind(d)]`, or `""` when `d` does not occur. -/
def beforeLast (d : Char) : Str → Str
  | [] => []
  | c :: cs => if d ∈ cs then c :: beforeLast d cs else []

/-- `&s[s.rfind(d)+1..]`, or all of `s` when `d` does not occur. -/
def afterLast (d : Char) : Str → Str
  | [] => []
  | c :: cs => if d ∈ cs then afterLast d cs else if c = d then cs else c :: cs

/-- `parent_internal` (path.rs:43-46) -/
def parentInternal (path : Str) : Str := beforeLast '/' path

/-- `filename_internal` (path.rs:26-30) -/
def filenameInternal (path : Str) : Str := afterLast '/' path

/-- `extension_internal` (path.rs:32-41): `rsplitn(2, '.')` on the filename. -/
def extensionInternal (path : Str) : Option Str :=
  let filename := filenameInternal path
  if '.' ∈ filename then
    if beforeLast '.' filename = [] then none else some (afterLast '.' filename)
  else none

/-- `base` followed by `/c` for each component (the final loop of join_internal). -/
def renderC (comps : List Str) : Str := comps.flatMap (fun c => '/' :: c)

/-- the component loop of `join_internal` (path.rs:62-75) -/
def joinLoop (base : Str) (new : List Str) : List Str → Str × List Str
  | [] => (base, new)
  | comp :: rest =>
    if comp = ['.'] ∨ comp = [] then joinLoop base new rest
    else if comp = ['.', '.'] then
      if new ≠ [] then joinLoop base new.dropLast rest
      else joinLoop (parentInternal base) new rest
    else joinLoop base (new ++ [comp]) rest

/-- `base_path` of join_internal: a leading '/' restarts from the root -/
def joinBase (inPath path : Str) : Str := if path.head? = some '/' then [] else inPath

/-- `path.len() > 1 && path.ends_with('/')` -/
def trailingSlash (path : Str) : Prop := path.length > 1 ∧ path.getLast? = some '/'

instance (path : Str) : Decidable (trailingSlash path) := by unfold trailingSlash; exact inferInstance

/-- `join_internal` (path.rs:48-82) -/
def joinInternal (inPath path : Str) : Res Str :=
  if path = [] then .ok inPath
  else if trailingSlash path then .err .invalidPath (some path)
  else .ok ((joinLoop (joinBase inPath path) [] (splitSlash path)).1
            ++ renderC (joinLoop (joinBase inPath path) [] (splitSlash path)).2)

end Vfs
