/-
  Concurrency model of MemoryFS at lock-acquisition granularity (C16, C17).
  One shared map; a thread is a list of calls; a call is the sequence of its lock regions, taken
  from src/impls/memory.rs and src/path.rs (each region runs atomically — it is what happens
  between one lock acquisition and the release). A schedule is the list of thread ids: each
  entry lets that thread execute its next region.
-/
import VfsModel.Leaf
import VfsModel.PathOps
namespace Vfs.Conc

inductive COp where
  | createDir (p : Str)
  | createFile (p : Str)        -- keeps the write handle
  | appendOpen (p : Str)        -- keeps the append handle
  | writeDrop (bs : Bytes)      -- write_all to the open handle, drop
  | writeSession (p : Str) (bs : Bytes)
  | appendSession (p : Str) (bs : Bytes)
  | removeFile (p : Str)
  | removeDir (p : Str)
  | exists_ (p : Str)
  | metadata (p : Str)
  | readDir (p : Str)
  | read (p : Str)
  | createDirAll (p : Str)
  deriving Repr, DecidableEq

/-- value returned by an observer -/
inductive CVal where
  | unit | bool (b : Bool) | mdata (t : FType) (len : Nat) | names (l : List Str) | bytes (b : Bytes)
  deriving Repr, DecidableEq

inductive CRes where
  | ok (v : CVal) | err
  deriving Repr, DecidableEq

/-- the open write handle of a thread: destination and buffer -/
structure WH where
  key : Str
  buf : Bytes
  pos : Nat
  deriving Repr, DecidableEq

/-- program point: the next lock region of the call in progress -/
inductive Pt where
  | gpExists (p : Str) (thenFile : Bool) (sess : Option Bytes)   -- get_parent: exists(parent)
  | gpMeta (p : Str) (thenFile : Bool) (sess : Option Bytes)     -- get_parent: metadata(parent)
  | cdCreate (p : Str)                   -- MemoryFS::create_dir
  | cfCreate (p : Str) (sess : Option Bytes)   -- MemoryFS::create_file
  | apOpen (p : Str) (sess : Option Bytes)     -- MemoryFS::append_file
  | flush (h : WH)                       -- WritableFile::flush (drop)
  | rmFile (p : Str) | rmDir (p : Str)
  | obsExists (p : Str) | obsMeta (p : Str) | obsReadDir (p : Str) | obsOpen (p : Str)
  | cdaLoop (prefixes : List Str)        -- create_dir_all: one MemoryFS::create_dir per prefix
  deriving Repr, DecidableEq

def Pt.label : Pt → String
  | .gpExists .. => "exists" | .gpMeta .. => "metadata" | .cdCreate _ => "create_dir"
  | .cfCreate .. => "create_file" | .apOpen .. => "append_file" | .flush _ => "flush"
  | .rmFile _ => "remove_file" | .rmDir _ => "remove_dir" | .obsExists _ => "exists"
  | .obsMeta _ => "metadata" | .obsReadDir _ => "read_dir" | .obsOpen _ => "open_file"
  | .cdaLoop _ => "create_dir"

/-- first region of a call (given the thread's open handle) -/
def start (h : Option WH) : COp → Pt ⊕ CRes
  | .createDir p => .inl (.gpExists p false none)
  | .createFile p => .inl (.gpExists p true none)
  | .writeSession p bs => .inl (.gpExists p true (some bs))
  | .appendOpen p => .inl (.apOpen p none)
  | .appendSession p bs => .inl (.apOpen p (some bs))
  | .writeDrop bs =>
    match h with
    | some wh => .inl (.flush { wh with buf := cursorWrite wh.buf wh.pos bs, pos := wh.pos + bs.length })
    | none => .inr .err
  | .removeFile p => .inl (.rmFile p)
  | .removeDir p => .inl (.rmDir p)
  | .exists_ p => .inl (.obsExists p)
  | .metadata p => .inl (.obsMeta p)
  | .readDir p => .inl (.obsReadDir p)
  | .read p => .inl (.obsOpen p)
  | .createDirAll p => if p = [] then .inr (.ok .unit) else .inl (.cdaLoop (VPath.dirPrefixes p))

/-- outcome of executing one region -/
structure Step where
  files : FMap
  next : Pt ⊕ CRes
  handle : Option (Option WH) := none    -- some h: the thread's handle slot becomes h

def okUnit : Pt ⊕ CRes := .inr (.ok .unit)

/-- execute one lock region on the shared map -/
def region (m : FMap) : Pt → Step
  | .gpExists p f s =>
    if m.contains (parentInternal p) then { files := m, next := .inl (.gpMeta p f s) }
    else { files := m, next := .inr .err }
  | .gpMeta p f s =>
    match Mem.metadata m (parentInternal p) with
    | .ok md =>
      if md.ftype = .dir then { files := m, next := .inl (if f then .cfCreate p s else .cdCreate p) }
      else { files := m, next := .inr .err }
    | _ => { files := m, next := .inr .err }
  | .cdCreate p =>
    match Mem.createDir m p with
    | (.ok _, m') => { files := m', next := okUnit }
    | (_, m') => { files := m', next := .inr .err }
  | .cfCreate p s =>
    match Mem.createFile m p with
    | (.ok _, m') =>
      match s with
      | none => { files := m', next := okUnit, handle := some (some { key := p, buf := [], pos := 0 }) }
      | some bs => { files := m', next := .inl (.flush { key := p, buf := cursorWrite [] 0 bs, pos := bs.length }) }
    | (_, m') => { files := m', next := .inr .err }
  | .apOpen p s =>
    match Mem.appendFile m p with
    | .ok old =>
      match s with
      | none => { files := m, next := okUnit, handle := some (some { key := p, buf := old, pos := old.length }) }
      | some bs => { files := m, next := .inl (.flush { key := p, buf := cursorWrite old old.length bs, pos := old.length + bs.length }) }
    | _ => { files := m, next := .inr .err }
  | .flush h => { files := memPublish m h.key h.buf, next := okUnit, handle := some none }
  | .rmFile p =>
    match Mem.removeFile m p with
    | (.ok _, m') => { files := m', next := okUnit }
    | (_, m') => { files := m', next := .inr .err }
  | .rmDir p =>
    match Mem.removeDir m p with
    | (.ok _, m') => { files := m', next := okUnit }
    | (_, m') => { files := m', next := .inr .err }
  | .obsExists p => { files := m, next := .inr (.ok (.bool (m.contains p))) }
  | .obsMeta p =>
    match Mem.metadata m p with
    | .ok md => { files := m, next := .inr (.ok (.mdata md.ftype md.len)) }
    | _ => { files := m, next := .inr .err }
  | .obsReadDir p =>
    match Mem.readDir m p with
    | .ok l => { files := m, next := .inr (.ok (.names l)) }
    | _ => { files := m, next := .inr .err }
  | .obsOpen p =>
    match Mem.openFile m p with
    | (.ok r, m') => { files := m', next := .inr (.ok (.bytes r.content)) }
    | (_, m') => { files := m', next := .inr .err }
  | .cdaLoop [] => { files := m, next := okUnit }
  | .cdaLoop (d :: rest) =>
    match Mem.createDir m d with
    | (.ok _, m') => { files := m', next := if rest = [] then okUnit else .inl (.cdaLoop rest) }
    | (.err .dirExists _, m') => { files := m', next := if rest = [] then okUnit else .inl (.cdaLoop rest) }
    | (_, m') => { files := m', next := .inr .err }

structure Thread where
  calls : List COp
  cur : Option Pt := none
  handle : Option WH := none
  results : List CRes := []
  labels : List String := []
  deriving Repr

structure Sys where
  files : FMap
  threads : List Thread
  deriving Repr

/-- bring a thread to its next lock acquisition: start calls until one has a region to run
(calls without any region — `write_drop` without a handle, `create_dir_all("")` — complete at once) -/
def settle : Nat → Thread → Thread
  | 0, t => t
  | fuel + 1, t =>
    match t.cur with
    | some _ => t
    | none =>
      match t.calls with
      | [] => t
      | c :: rest =>
        match start t.handle c with
        | .inl pt => { t with calls := rest, cur := some pt }
        | .inr r => settle fuel { t with calls := rest, results := t.results ++ [r] }

/-- thread `t` executes its next region -/
def stepThread (m : FMap) (t : Thread) : FMap × Thread :=
  let t := settle (t.calls.length + 1) t
  match t.cur with
  | none => (m, t)
  | some pt =>
    let s := region m pt
    let t := { t with labels := t.labels ++ [pt.label] }
    let t := match s.handle with
      | some h => { t with handle := h }
      | none => t
    match s.next with
    | .inl pt' => (s.files, { t with cur := some pt' })
    | .inr r => (s.files, settle (t.calls.length + 1) { t with cur := none, results := t.results ++ [r] })

def step (s : Sys) (tid : Nat) : Sys :=
  match s.threads[tid]? with
  | none => s
  | some t =>
    let (m', t') := stepThread s.files t
    { files := m', threads := s.threads.set tid t' }

def run (s : Sys) (schedule : List Nat) : Sys := schedule.foldl step s

/-- a whole call executed atomically (the sequential reference) -/
def callAtomic (fuel : Nat) (m : FMap) (h : Option WH) (c : COp) : FMap × Option WH × CRes :=
  match start h c with
  | .inr r => (m, h, r)
  | .inl pt =>
    let rec go (fuel : Nat) (m : FMap) (h : Option WH) (pt : Pt) : FMap × Option WH × CRes :=
      match fuel with
      | 0 => (m, h, .err)
      | fuel + 1 =>
        let s := region m pt
        let h := match s.handle with | some x => x | none => h
        match s.next with
        | .inl pt' => go fuel s.files h pt'
        | .inr r => (s.files, h, r)
    go fuel m h pt

end Vfs.Conc
