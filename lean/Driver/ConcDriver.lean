/-
  Line-protocol commands of the concurrency model (testing infrastructure):
    cinit | cprep <call> | cthread <tid> <call> | crun <tid> <tid> …
-/
import VfsModel.Conc
import Driver.Codec
import Driver.WorldDriver
namespace Vfs.Driver
open Vfs Vfs.Conc

structure CState where
  sys : Sys := { files := Mem.init, threads := [] }
  deriving Inhabited

def parseCall (toks : List String) : Option COp :=
  match toks with
  | ["create_dir", p] => (decStr p).map .createDir
  | ["create_file", p] => (decStr p).map .createFile
  | ["append_open", p] => (decStr p).map .appendOpen
  | ["write_drop", b] => (decBytes b).map .writeDrop
  | ["write_session", p, b] => do pure (.writeSession (← decStr p) (← decBytes b))
  | ["append_session", p, b] => do pure (.appendSession (← decStr p) (← decBytes b))
  | ["remove_file", p] => (decStr p).map .removeFile
  | ["remove_dir", p] => (decStr p).map .removeDir
  | ["exists", p] => (decStr p).map .exists_
  | ["metadata", p] => (decStr p).map .metadata
  | ["read_dir", p] => (decStr p).map .readDir
  | ["read", p] => (decStr p).map .read
  | ["create_dir_all", p] => (decStr p).map .createDirAll
  | _ => none

def hexOf (b : Bytes) : String := encodeBytesL b

def encCRes : CRes → String
  | .err => "err"
  | .ok .unit => "ok"
  | .ok (.bool b) => if b then "ok:true" else "ok:false"
  | .ok (.mdata t len) => (if t = .file then "ok:F" else "ok:D") ++ toString len
  | .ok (.names l) =>
    let s := ",".intercalate ((sortStrs l).map String.ofList)
    if s.isEmpty then "ok" else "ok:" ++ s
  | .ok (.bytes b) => if b.isEmpty then "ok" else "ok:" ++ hexOf b

def concPaths : List String := ["/a", "/a/b", "/c", "/a/b/d"]

def concSnap (m : FMap) : String :=
  " ".intercalate (concPaths.map fun p =>
    match m.find? p.toList with
    | none => p ++ "=A"
    | some e => if e.ftype = .dir then p ++ "=D" else p ++ "=F" ++ hexOf e.content)

def stepConc (s : CState) (toks : List String) : Option (String × CState) :=
  match toks with
  | ["cinit"] => some ("ok", {})
  | "cprep" :: call => do
    let c ← parseCall call
    let (m, _, _) := callAtomic 100 s.sys.files none c
    pure ("ok", { s with sys := { s.sys with files := m } })
  | "cthread" :: tid :: call => do
    let tid ← parseNat tid
    let c ← parseCall call
    let ths := s.sys.threads ++ List.replicate (tid + 1 - s.sys.threads.length) { calls := [] }
    let ths := ths.modify tid fun t => { t with calls := t.calls ++ [c] }
    pure ("ok", { s with sys := { s.sys with threads := ths } })
  | "crun" :: sched => do
    let sc ← sched.mapM parseNat
    let fin := run s.sys sc
    let res := " ; ".intercalate (fin.threads.map fun t => ",".intercalate (t.results.map encCRes))
    let labels := " ; ".intercalate (fin.threads.map fun t => ",".intercalate t.labels)
    pure (s!"{res} | {concSnap fin.files} | {labels}", { s with sys := fin })
  | _ => none

end Vfs.Driver
