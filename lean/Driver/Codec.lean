/-
  Line-protocol codec of the model driver: strings are 's' ++ hex(UTF-8), bytes 'b' ++ hex.
  Testing infrastructure, not part of any proof.
-/
import VfsModel.Basic
namespace Vfs.Driver

def hexDigit (n : Nat) : Char :=
  if n < 10 then Char.ofNat (48 + n) else Char.ofNat (87 + n)

def hexVal (c : Char) : Option Nat :=
  let n := c.toNat
  if 48 ≤ n ∧ n ≤ 57 then some (n - 48)
  else if 97 ≤ n ∧ n ≤ 102 then some (n - 87)
  else none

def encodeBytesL (bs : List UInt8) : String :=
  String.ofList (bs.flatMap fun b => [hexDigit (b.toNat / 16), hexDigit (b.toNat % 16)])

partial def decodeHexL : List Char → Option (List UInt8)
  | [] => some []
  | a :: b :: rest => do
    let x ← hexVal a
    let y ← hexVal b
    let r ← decodeHexL rest
    pure (UInt8.ofNat (x * 16 + y) :: r)
  | _ => none

def encStr (s : Str) : String :=
  "s" ++ encodeBytesL (String.ofList s).toUTF8.toList

def decStr (t : String) : Option Str :=
  match t.toList with
  | 's' :: rest => do
    let bs ← decodeHexL rest
    let ba := ByteArray.mk bs.toArray
    match String.fromUTF8? ba with
    | some s => some s.toList
    | none => none
  | _ => none

def encBytes (b : Bytes) : String := "b" ++ encodeBytesL b

def decBytes (t : String) : Option Bytes :=
  match t.toList with
  | 'b' :: rest => decodeHexL rest
  | _ => none

def kindName : ErrKind → String
  | .io => "io"
  | .fileNotFound => "fileNotFound"
  | .invalidPath => "invalidPath"
  | .other => "other"
  | .dirExists => "dirExists"
  | .fileExists => "fileExists"
  | .notSupported => "notSupported"

def encOptStr : Option Str → String
  | none => "-"
  | some s => encStr s

/-- `ok <payload>` | `err <kind> <path|->` | `panic` -/
def encRes {α} (f : α → String) : Res α → String
  | .ok a => let p := f a; if p.isEmpty then "ok" else "ok " ++ p
  | .err k p => "err " ++ kindName k ++ " " ++ encOptStr p
  | .panic => "panic"

end Vfs.Driver
