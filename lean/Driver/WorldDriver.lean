/-
  Driver state and the world-level commands of the line protocol (testing infrastructure).
-/
import VfsModel.Adapters
import VfsModel.Leaf
import VfsModel.Embedded
import VfsModel.AsyncOps
import VfsModel.OverlayConc
import VfsModel.AltrootConc
import Driver.Codec
namespace Vfs.Driver
open Vfs

def FUEL : Nat := 100000

structure DState where
  world : World := { leaves := [] }
  /-- root path of every filesystem value, by id -/
  roots : Array (Option VPath) := #[]
  rh : Array (Option RHandle) := #[]
  wh : Array (Option WHandle) := #[]
  deriving Inhabited

def setAt {α} (a : Array (Option α)) (i : Nat) (v : Option α) : Array (Option α) :=
  let a := if a.size ≤ i then a ++ Array.replicate (i + 1 - a.size) none else a
  a.set! i v

def DState.root? (s : DState) (i : Nat) : Option VPath := (s.roots[i]?).join

def sortStrs (l : List Str) : List Str :=
  ((l.map String.ofList).toArray.qsort (· < ·)).toList.map String.toList

def encList (l : List Str) : String := "[" ++ ",".intercalate ((sortStrs l).map encStr) ++ "]"
def encListOrdered (l : List Str) : String := "[" ++ ",".intercalate (l.map encStr) ++ "]"

def checksum (b : Bytes) : Nat := b.foldl (fun h x => (h * 31 + x.toNat) % 4294967296) 7

def encContent (b : Bytes) : String :=
  if b.length ≤ 48 then encBytes b else s!"B{b.length}:{checksum b}"

def encTS : TS → String
  | .unset => "unset"
  | .now => "now"
  | .at t => s!"at{t}"

def encType : FType → String
  | .file => "F"
  | .dir => "D"

def encMeta (m : Meta) : String := s!"{encType m.ftype} {m.len}"
def encMetaT (m : Meta) : String :=
  s!"{encType m.ftype} {m.len} c={encTS m.created} m={encTS m.modified} a={encTS m.accessed}"

def parseNat (s : String) : Option Nat := s.toNat?
def parseInt (s : String) : Option Int := s.toInt?

/-- run an `M` action on the driver's world -/
def runM {α} (s : DState) (m : M α) : Res α × DState :=
  let (r, w) := m s.world
  (r, { s with world := w })

/-- `root.join(p)` then the operation -/
def onPath {α} (s : DState) (fsid : Nat) (p : Str) (f : VPath → M α) : Res α × DState :=
  match s.root? fsid with
  | none => (.panic, s)
  | some root =>
    match root.join p with
    | .ok q => runM s (f q)
    | .err k pth => (.err k pth, s)
    | .panic => (.panic, s)

def validUtf8 (b : Bytes) : Bool := ByteArray.validateUTF8 ⟨b.toArray⟩

/-- observation of one path through the public observers, in a fixed order -/
def observe (s : DState) (fsid : Nat) (p : Str) : String × DState :=
  let (ex, s) := onPath s fsid p VPath.exists_
  let (md, s) := onPath s fsid p VPath.metadata
  let (ls, s) := onPath s fsid p VPath.readDir
  let (rd, s) := onPath s fsid p (fun q => do
      let h ← q.openFile
      M.ret h.readToEnd.1)
  let exS := match ex with | .ok true => "E" | .ok false => "A" | .err _ _ => "X" | .panic => "P"
  let mdS := match md with | .ok m => encMeta m | .err _ _ => "-" | .panic => "P"
  let lsS := match ls with
    | .ok l => encList (l.map fun (c : VPath) => filenameInternal c.path)
    | .err _ _ => "-" | .panic => "P"
  let rdS := match rd with | .ok b => encContent b | .err _ _ => "-" | .panic => "P"
  (s!"{encStr p}={exS}|{mdS}|{lsS}|{rdS}", s)

/-- observation without opening the file (opening stamps the access time on the memory backend) -/
def observeM (s : DState) (fsid : Nat) (p : Str) : String × DState :=
  let (ex, s) := onPath s fsid p VPath.exists_
  let (md, s) := onPath s fsid p VPath.metadata
  let (ls, s) := onPath s fsid p VPath.readDir
  let exS := match ex with | .ok true => "E" | .ok false => "A" | .err _ _ => "X" | .panic => "P"
  let mdS := match md with | .ok m => encMeta m | .err _ _ => "-" | .panic => "P"
  let lsS := match ls with
    | .ok l => encList (l.map fun (c : VPath) => filenameInternal c.path)
    | .err _ _ => "-" | .panic => "P"
  (s!"{encStr p}={exS}|{mdS}|{lsS}|-", s)

def snapshotM (s : DState) (fsid : Nat) (paths : List Str) : String × DState :=
  paths.foldl (fun (acc : String × DState) p =>
    let (o, s') := observeM acc.2 fsid p
    (if acc.1.isEmpty then o else acc.1 ++ " " ++ o, s')) ("", s)

/-- deep observation with timestamps except the access time -/
def observeT (s : DState) (fsid : Nat) (p : Str) : String × DState :=
  let (md, s) := onPath s fsid p VPath.metadata
  let (rd, s) := onPath s fsid p (fun q => do
      let h ← q.openFile
      M.ret h.readToEnd.1)
  let mdS := match md with
    | .ok m => s!"{encType m.ftype} {m.len} c={encTS m.created} m={encTS m.modified}"
    | .err _ _ => "-" | .panic => "P"
  let rdS := match rd with | .ok b => encContent b | .err _ _ => "-" | .panic => "P"
  (s!"{encStr p}={mdS}|{rdS}", s)

def snapshotT (s : DState) (fsid : Nat) (paths : List Str) : String × DState :=
  paths.foldl (fun (acc : String × DState) p =>
    let (o, s') := observeT acc.2 fsid p
    (if acc.1.isEmpty then o else acc.1 ++ " " ++ o, s')) ("", s)

def snapshot (s : DState) (fsid : Nat) (paths : List Str) : String × DState :=
  paths.foldl (fun (acc : String × DState) p =>
    let (o, s') := observe acc.2 fsid p
    (if acc.1.isEmpty then o else acc.1 ++ " " ++ o, s')) ("", s)

def encWalk (items : List (Res VPath)) : String :=
  " ".intercalate (items.map fun it => match it with
    | .ok p => encStr p.path
    | .err k p => "!" ++ kindName k ++ ":" ++ encOptStr p
    | .panic => "panic")

def parseLayers (s : DState) (toks : List String) : Option (List VPath) :=
  toks.mapM fun t =>
    match t.splitOn ":" with
    | [a, b] => do
      let i ← parseNat a
      let p ← decStr b
      let r ← s.root? i
      (r.join p).toOption
    | _ => none

def opUnit (s : DState) (fsid : Nat) (p : Str) (f : VPath → M Unit) : String × DState :=
  let (r, s) := onPath s fsid p f
  (encRes (fun _ => "") r, s)

/-- two-path operations: source on `fsid`, destination on `dfs` -/
def op2 {α} (s : DState) (fsid : Nat) (p : Str) (dfs : Nat) (d : Str) (f : VPath → VPath → M α)
    (enc : α → String) : String × DState :=
  match s.root? fsid, s.root? dfs with
  | some r1, some r2 =>
    match r1.join p, r2.join d with
    | .ok a, .ok b =>
      let (r, s) := runM s (f a b)
      (encRes enc r, s)
    | .err k pth, _ => (encRes enc (.err k pth : Res α), s)
    | _, .err k pth => (encRes enc (.err k pth : Res α), s)
    | _, _ => ("panic", s)
  | _, _ => ("bad-fs", s)

/-- split a token list at the "|" tokens -/
def splitBars (toks : List String) : List (List String) :=
  toks.foldr (fun t acc => if t = "|" then [] :: acc else
    match acc with
    | [] => [[t]]
    | a :: rest => (t :: a) :: rest) [[]]

/-- the small-step model of concurrent `create_dir_all` calls on an overlay (VfsModel/OverlayConc.lean)
under a given schedule, with the label of every layer call each thread makes -/
def oconcRun (layers : List VPath) (w : World) (paths : List Str) (old : Bool) (sched : List Nat) :
    OConc.Sys × List (List String) :=
  let sys0 := if old then OConc.initSysOld layers w paths else OConc.initSys layers w paths
  sched.foldl (fun (acc : OConc.Sys × List (List String)) tid =>
      let lab := match acc.1.threads[tid]? with | some t => t.label | none => "?"
      (OConc.step acc.1 tid, acc.2.modify tid (· ++ [lab]))) (sys0, paths.map fun _ => [])

/-- a system of `Prog` threads under a schedule, with the label of every call each thread makes -/
def progRun (sys0 : OConc.Sys) (sched : List Nat) : OConc.Sys × List (List String) :=
  sched.foldl (fun (acc : OConc.Sys × List (List String)) tid =>
      let lab := match acc.1.threads[tid]? with | some t => t.label | none => "?"
      (OConc.step acc.1 tid, acc.2.modify tid (· ++ [lab]))) (sys0, sys0.threads.map fun _ => [])

def encProgRun (fin : OConc.Sys) (labels : List (List String)) : String :=
  let res := " ; ".intercalate (fin.results.map fun r => match r with
    | none => "running" | some r => encRes (fun _ => "") r)
  let labs := " ; ".intercalate (labels.map fun l => ",".intercalate l)
  s!"{res} | {labs}"

def stepWorld (s : DState) (toks : List String) : Option (String × DState) :=
  match toks with
  | ["reset"] => some ("ok", {})
  | ["leaf", kind] =>
    let files := if kind = "mem" then Mem.init else Phys.init
    let k := if kind = "mem" then LeafKind.mem else LeafKind.phys
    some (s!"ok {s.world.leaves.length}",
      { s with world := { s.world with leaves := s.world.leaves ++ [{ kind := k, files := files }] } })
  | "fs" :: id :: "leaf" :: [l] => do
    let id ← parseNat id
    let l ← parseNat l
    pure ("ok", { s with roots := setAt s.roots id (some { fs := leafFS l, fsId := id, path := [] }) })
  | "fs" :: id :: "aleaf" :: [l] => do
    -- AsyncMemoryFS over memory leaf `l` (VfsModel/AsyncOps.lean): the model of the async-only code,
    -- driven by the async stream next to the real async port
    let id ← parseNat id
    let l ← parseNat l
    pure ("ok", { s with roots := setAt s.roots id (some { fs := aleafFS l, fsId := id, path := [] }) })
  | "fs" :: id :: "alt" :: inner :: [p] => do
    let id ← parseNat id
    let inner ← parseNat inner
    let p ← decStr p
    let r ← s.root? inner
    match r.join p with
    | .ok rootp =>
      pure ("ok", { s with roots := setAt s.roots id (some { fs := Altroot.fs rootp, fsId := id, path := [] }) })
    | _ => none
  | "fs" :: id :: "ovl" :: layers => do
    let id ← parseNat id
    let ls ← parseLayers s layers
    if ls.isEmpty then none
    else pure ("ok", { s with roots := setAt s.roots id (some { fs := Overlay.fs ls, fsId := id, path := [] }) })
  | "fs" :: id :: "emb" :: files => do
    let id ← parseNat id
    let fl ← files.mapM fun t =>
      match t.splitOn ":" with
      | [a, b] => do
        let p ← decStr a
        let c ← decBytes b
        pure (p, c)
      | _ => none
    pure ("ok", { s with roots := setAt s.roots id (some { fs := Embedded.fs (Embedded.new fl), fsId := id, path := [] }) })
  | "fs" :: id :: "rec" :: tag :: [inner] => do
    let id ← parseNat id
    let tag ← parseNat tag
    let inner ← parseNat inner
    let r ← s.root? inner
    pure ("ok", { s with roots := setAt s.roots id (some { fs := recordFS tag r.fs, fsId := id, path := [] }) })
  | "fs" :: id :: "fault" :: [inner] => do
    let id ← parseNat id
    let inner ← parseNat inner
    let r ← s.root? inner
    pure ("ok", { s with roots := setAt s.roots id (some { fs := faultFS r.fs, fsId := id, path := [] }) })
  | ["setfault", k] =>
    if k = "none" then some ("ok", { s with world := { s.world with fault := none, fired := false } })
    else do
      let k ← parseNat k
      pure ("ok", { s with world := { s.world with fault := some k, fired := false } })
  | "aconc" :: rest =>
    -- aconc <fs>:<root path> | <path> … | <tid> …  : every thread i calls create_dir_all(path i) on
    -- AltrootFS::new(root) (VfsModel/AltrootConc.lean); one token of the schedule = one call of the inner filesystem
    match splitBars rest with
    | [[r], ps, sc] => do
      let roots ← parseLayers s [r]
      let root ← roots.head?
      let paths ← ps.mapM decStr
      let sched ← sc.mapM parseNat
      let (fin, labels) := progRun (OConc.initSysAlt root s.world paths) sched
      pure (encProgRun fin labels, { s with world := fin.world })
    | _ => none
  | "oconc" :: rest =>
    -- oconc <layer> … | <path> … | <tid> …   : every thread i calls create_dir_all(path i) on the overlay
    -- over the given layers; one token of the schedule = one layer call of that thread
    match splitBars rest with
    | [ls, ps, sc] => do
      let layers ← parseLayers s ls
      let paths ← ps.mapM decStr
      let sched ← sc.mapM parseNat
      let (fin, labels) := oconcRun layers s.world paths false sched
      let res := " ; ".intercalate (fin.results.map fun r => match r with
        | none => "running" | some r => encRes (fun _ => "") r)
      let labs := " ; ".intercalate (labels.map fun l => ",".intercalate l)
      pure (s!"{res} | {labs}", { s with world := fin.world })
    | _ => none
  | ["fired"] => some (if s.world.fired then "fired" else "not-fired", s)
  | ["clearlog"] => some ("ok", { s with world := { s.world with log := [] } })
  | ["log"] =>
    some (" ".intercalate (s.world.log.map fun e =>
      s!"{e.tag}:{reprStr e.method}:{encStr e.path}"), s)
  | "snapt" :: fsid :: paths => do
    let fsid ← parseNat fsid
    let ps ← paths.mapM decStr
    pure (snapshotT s fsid ps)
  | "snapm" :: fsid :: paths => do
    let fsid ← parseNat fsid
    let ps ← paths.mapM decStr
    pure (snapshotM s fsid ps)
  | "snap" :: fsid :: paths => do
    let fsid ← parseNat fsid
    let ps ← paths.mapM decStr
    pure (snapshot s fsid ps)
  | "op" :: fsid :: name :: args => do
    let fsid ← parseNat fsid
    match name, args with
    | "create_dir", [p] => do pure (opUnit s fsid (← decStr p) VPath.createDir)
    | "create_dir_all", [p] => do pure (opUnit s fsid (← decStr p) VPath.createDirAll)
    | "remove_file", [p] => do pure (opUnit s fsid (← decStr p) VPath.removeFile)
    | "remove_dir", [p] => do pure (opUnit s fsid (← decStr p) VPath.removeDir)
    | "remove_dir_all", [p] => do pure (opUnit s fsid (← decStr p) (VPath.removeDirAll FUEL))
    | "write", [p, b] => do
      let b ← decBytes b
      pure (opUnit s fsid (← decStr p) fun q => do
        let h ← q.createFile
        h.writeAllAndDrop b)
    | "touch", [p] => do
      pure (opUnit s fsid (← decStr p) fun q => do
        let h ← q.createFile
        h.drop)
    | "append", [p, b] => do
      let b ← decBytes b
      pure (opUnit s fsid (← decStr p) fun q => do
        let h ← q.appendFile
        h.writeAllAndDrop b)
    | "exists", [p] => do
      let (r, s) := onPath s fsid (← decStr p) VPath.exists_
      pure (encRes (fun b => if b then "true" else "false") r, s)
    | "is_file", [p] => do
      let (r, s) := onPath s fsid (← decStr p) VPath.isFile
      pure (encRes (fun b => if b then "true" else "false") r, s)
    | "is_dir", [p] => do
      let (r, s) := onPath s fsid (← decStr p) VPath.isDir
      pure (encRes (fun b => if b then "true" else "false") r, s)
    | "metadata", [p] => do
      let (r, s) := onPath s fsid (← decStr p) VPath.metadata
      pure (encRes encMeta r, s)
    | "metadata_t", [p] => do
      let (r, s) := onPath s fsid (← decStr p) VPath.metadata
      pure (encRes encMetaT r, s)
    | "read_dir", [p] => do
      let (r, s) := onPath s fsid (← decStr p) VPath.readDir
      pure (encRes (fun l => encList (l.map (·.path))) r, s)
    | "read", [p] => do
      let (r, s) := onPath s fsid (← decStr p) (fun q => do
        let h ← q.openFile
        M.ret h.readToEnd.1)
      pure (encRes encContent r, s)
    | "read_to_string", [p] => do
      let (r, s) := onPath s fsid (← decStr p) (fun q => do
        let b ← q.readToEndChecked
        if validUtf8 b then pure b else M.failAt .io q.path)
      pure (encRes encContent r, s)
    | "walk", [p] => do
      let (r, s) := onPath s fsid (← decStr p) (fun q => do
        let st ← q.walkDir
        VPath.walkAll FUEL st)
      pure (encRes encWalk r, s)
    | "set_ctime", [p, t] => do
      let t ← parseInt t
      pure (opUnit s fsid (← decStr p) (·.setCreationTime t))
    | "set_mtime", [p, t] => do
      let t ← parseInt t
      pure (opUnit s fsid (← decStr p) (·.setModificationTime t))
    | "set_atime", [p, t] => do
      let t ← parseInt t
      pure (opUnit s fsid (← decStr p) (·.setAccessTime t))
    | "copy_file", [p, dfs, d] => do
      pure (op2 s fsid (← decStr p) (← parseNat dfs) (← decStr d) VPath.copyFile (fun _ => ""))
    | "move_file", [p, dfs, d] => do
      pure (op2 s fsid (← decStr p) (← parseNat dfs) (← decStr d) VPath.moveFile (fun _ => ""))
    | "copy_dir", [p, dfs, d] => do
      pure (op2 s fsid (← decStr p) (← parseNat dfs) (← decStr d) (VPath.copyDir FUEL) toString)
    | "move_dir", [p, dfs, d] => do
      pure (op2 s fsid (← decStr p) (← parseNat dfs) (← decStr d) (VPath.moveDir FUEL) (fun _ => ""))
    | _, _ => none
  -- handle scripts
  | ["hopen", hid, fsid, p] => do
    let hid ← parseNat hid
    let (r, s) := onPath s (← parseNat fsid) (← decStr p) VPath.openFile
    match r with
    | .ok h => pure ("ok", { s with rh := setAt s.rh hid (some h) })
    | other => pure (encRes (fun _ => "") other, s)
  | ["hcreate", hid, fsid, p] => do
    let hid ← parseNat hid
    let (r, s) := onPath s (← parseNat fsid) (← decStr p) VPath.createFile
    match r with
    | .ok h => pure ("ok", { s with wh := setAt s.wh hid (some h) })
    | other => pure (encRes (fun _ => "") other, s)
  | ["happend", hid, fsid, p] => do
    let hid ← parseNat hid
    let (r, s) := onPath s (← parseNat fsid) (← decStr p) VPath.appendFile
    match r with
    | .ok h => pure ("ok", { s with wh := setAt s.wh hid (some h) })
    | other => pure (encRes (fun _ => "") other, s)
  | ["hread", hid, n] => do
    let hid ← parseNat hid
    let n ← parseNat n
    let h ← (s.rh[hid]?).join
    let (r, h') := h.read n
    pure (encRes encBytes r, { s with rh := setAt s.rh hid (some h') })
  | ["hreadall", hid] => do
    -- Read::read_to_end from the current position
    let hid ← parseNat hid
    let h ← (s.rh[hid]?).join
    let (r, h') := h.readToEnd
    pure (encRes encBytes r, { s with rh := setAt s.rh hid (some h') })
  | ["hseek", hid, whence, off] => do
    let hid ← parseNat hid
    let sf ← (match whence with
      | "start" => (parseNat off).map SeekFrom.start
      | "cur" => (parseInt off).map SeekFrom.cur
      | "end" => (parseInt off).map SeekFrom.fromEnd
      | _ => none)
    match (s.rh[hid]?).join with
    | some h =>
      let (r, h') := h.seek sf
      pure (encRes toString r, { s with rh := setAt s.rh hid (some h') })
    | none =>
      let h ← (s.wh[hid]?).join
      let (r, s') := runM s (h.seek sf)
      match r with
      | .ok (n, h') => pure (s!"ok {n}", { s' with wh := setAt s'.wh hid (some h') })
      | other => pure (encRes (fun _ => "") other, s')
  | ["hwrite", hid, b] => do
    let hid ← parseNat hid
    let b ← decBytes b
    let h ← (s.wh[hid]?).join
    let (r, s') := runM s (h.write b)
    match r with
    | .ok (n, h') => pure (s!"ok {n}", { s' with wh := setAt s'.wh hid (some h') })
    | other => pure (encRes (fun _ => "") other, s')
  | ["hflush", hid] => do
    let hid ← parseNat hid
    let h ← (s.wh[hid]?).join
    let (r, s') := runM s h.flush
    pure (encRes (fun _ => "") r, s')
  | ["hdrop", hid] => do
    let hid ← parseNat hid
    match (s.wh[hid]?).join with
    | some h =>
      let (r, s') := runM s h.drop
      pure (encRes (fun _ => "") r, { s' with wh := setAt s'.wh hid none })
    | none => pure ("ok", { s with rh := setAt s.rh hid none })
  | _ => none

end Vfs.Driver
