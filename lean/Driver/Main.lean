import VfsModel.Path
import Driver.Codec
import Driver.WorldDriver
import Driver.ConcDriver
open Vfs Vfs.Driver

def stepPath (toks : List String) : Option String :=
  match toks with
  | ["join", b, a] => do
    let b ← decStr b
    let a ← decStr a
    pure (encRes encStr (joinInternal b a))
  | ["parent", p] => do
    let p ← decStr p
    pure (encStr (parentInternal p))
  | ["filename", p] => do
    let p ← decStr p
    pure (encStr (filenameInternal p))
  | ["extension", p] => do
    let p ← decStr p
    pure (match extensionInternal p with | none => "none" | some e => "some " ++ encStr e)
  | _ => none

structure AllState where
  d : DState := {}
  c : CState := {}
  deriving Inhabited

def step (s : AllState) (line : String) : String × AllState :=
  let toks := (line.trimAscii.toString.splitOn " ").filter (· ≠ "")
  match stepPath toks with
  | some out => (out, s)
  | none =>
    match stepWorld s.d toks with
    | some (o, d') => (o, { s with d := d' })
    | none =>
      match stepConc s.c toks with
      | some (o, c') => (o, { s with c := c' })
      | none => ("bad-op", s)

partial def loop (h : IO.FS.Stream) (out : IO.FS.Stream) (s : AllState) : IO Unit := do
  let line ← h.getLine
  if line.isEmpty then return ()
  let (o, s') := step s line
  out.putStrLn o
  loop h out s'

def main : IO Unit := do
  let stdin ← IO.getStdin
  let stdout ← IO.getStdout
  loop stdin stdout {}
  stdout.flush
