import VfsModel.Path
import Driver.Codec
open Vfs Vfs.Driver

def stepPath (toks : List String) : Option String :=
  match toks with
  | ["join", b, a] => do
    let b ← decStr b
    let a ← decStr a
    pure (encRes encStr (joinInternal b a))
  | ["parent", p] => do
    let p ← decStr p
    pure (encStr (parentInternal p))
  | ["filename", p] => do
    let p ← decStr p
    pure (encStr (filenameInternal p))
  | ["extension", p] => do
    let p ← decStr p
    pure (match extensionInternal p with | none => "none" | some e => "some " ++ encStr e)
  | _ => none

def step (line : String) : String :=
  let toks := (line.trimAscii.toString.splitOn " ").filter (· ≠ "")
  match stepPath toks with
  | some out => out
  | none => "bad-op"

partial def loop (h : IO.FS.Stream) (out : IO.FS.Stream) : IO Unit := do
  let line ← h.getLine
  if line.isEmpty then return ()
  out.putStrLn (step line)
  loop h out

def main : IO Unit := do
  let stdin ← IO.getStdin
  let stdout ← IO.getStdout
  loop stdin stdout
  stdout.flush
