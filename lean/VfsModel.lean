-- model files only; proof modules are built one by one (two helper files define lemmas of the
-- same name and cannot share an importer)
import VfsModel.Adapters
import VfsModel.AsyncHandle
import VfsModel.AsyncOps
import VfsModel.AsyncWalk
import VfsModel.Basic
import VfsModel.Conc
import VfsModel.Embedded
import VfsModel.Fs
import VfsModel.Handle
import VfsModel.Leaf
import VfsModel.OverlayConc
import VfsModel.AltrootConc
import VfsModel.Path
import VfsModel.PathOps
