import VfsModel.Basic
import VfsModel.Path
import VfsModel.Fs
import VfsModel.Handle
import VfsModel.Leaf
import VfsModel.Proofs.PathLemmas
import VfsModel.Props.C06
