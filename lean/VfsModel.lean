import VfsModel.Basic
import VfsModel.Path
import VfsModel.Proofs.PathLemmas
