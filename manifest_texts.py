HOOKS = {
    "guard": "cargo feature verif-hooks",
    "enable": "harness depends on vfs with features [async-vfs, embedded-fs] (+ verif-hooks once the hook commits exist)",
    "baseline_off_cmd": "cd /repo && cargo test --workspace --no-fail-fast --offline",
    "source_commits": [],
    "add_only": True,
}

PENDING = "not built yet in this round: the Lean model part and correspondence stream for this property are under construction (DESIGN.md §10 build order); it will be claimed when its check exists"
NOT_APPLICABLE = {("C%02d" % i): PENDING for i in range(1, 21)}

TEXTS = {
    "C06": {
        "level": "Lean 4 theorems over the transliterated PathLike functions, for all strings (no length bound): join is total, errs exactly on a trailing slash with InvalidPath, equals the lexical resolution of the argument (.. pops or stays at root, leading / restarts), preserves canonical form, is associative; parent/filename invert join; extension rules; equality = (instance, string). The transliteration is compared with the Rust functions on every run (exhaustive to length 6/8 over a 5-letter alphabet x 5 bases, plus random), the sync and async path types are compared with each other, and an independent canonical-form predicate and resolver are evaluated on the Rust outputs.",
        "design_ref": "DESIGN.md §6 C06",
        "note": "trusted: Lean kernel (axioms propext, Quot.sound, Classical.choice only, audited per theorem); the hand-written transliteration of src/path.rs:24-83 (tied by the path stream, bounded differential execution); str primitives modelled by list functions; Arc::ptr_eq modelled as id equality",
        "technique": "Lean 4 proof over hand-written model + differential correspondence check",
    },
}
