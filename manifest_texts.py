HOOKS = {
    "guard": "cargo feature verif-hooks",
    "enable": "cargo feature verif-hooks of the vfs crate (the harness depends on vfs with features [async-vfs, embedded-fs, verif-hooks]); with the feature off src/verif_hooks.rs is not compiled and every yield point disappears (cfg(feature = \"verif-hooks\")); with it on, yield_point is a no-op unless a scheduler was installed by vfs::verif_hooks::install",
    "baseline_off_cmd": "cd /repo && cargo test --workspace --no-fail-fast --offline",
    "source_commits": ["a3036b8", "37d59cc"],
    "add_only": True,
}

PENDING = "not built yet in this round: the Lean model part and correspondence stream for this property are under construction (DESIGN.md §10 build order); it will be claimed when its check exists"
NOT_APPLICABLE = {("C%02d" % i): PENDING for i in range(1, 21)}

TEXTS = {
    "C06": {
        "level": "Lean 4 theorems over the transliterated PathLike functions, for all strings (no length bound): join is total, errs exactly on a trailing slash with InvalidPath, equals the lexical resolution of the argument (.. pops or stays at root, leading / restarts), preserves canonical form, is associative; parent/filename invert join; extension rules; equality = (instance, string). The transliteration is compared with the Rust functions on every run (exhaustive to length 6/8 over a 5-letter alphabet x 5 bases, plus random), the sync and async path types are compared with each other, and an independent canonical-form predicate and resolver are evaluated on the Rust outputs.",
        "design_ref": "DESIGN.md §6 C06",
        "note": "trusted: Lean kernel (axioms propext, Quot.sound, Classical.choice only, audited per theorem); the hand-written transliteration of src/path.rs:24-83 (tied by the path stream, bounded differential execution); str primitives modelled by list functions; Arc::ptr_eq modelled as id equality",
        "technique": "Lean 4 proof over hand-written model + differential correspondence check",
    },
    "C14": {
        "level": "Lean 4 theorems: for every content, position, buffer size and offset the MemoryFS read handle answers read/seek exactly as std's cursor specification (seek before start is an error and leaves the handle alone, past the end allowed, reads there return 0 bytes, bytes in order and in range), never panics; the write cursor laws (length, placement, zero-fill of the gap, tail preserved, append at end) and exact publication on flush/drop. Tied to the code by the handle stream: every return value of every handle call on 7 backend/adapter configurations is compared with the Lean model (CORR) and with std::io::Cursor run in-process on the same script (PROP).",
        "design_ref": "DESIGN.md §6 C14",
        "note": "trusted: Lean kernel + audited axioms; hand-written model of ReadableFile/WritableFile (src/impls/memory.rs) tied by the handle stream; std::io::Cursor/File/io::copy modelled from their documentation; PhysicalFS and EmbeddedFS handles are std types (assumption checked by the stream only)",
        "technique": "Lean 4 proof over hand-written model + differential correspondence check",
    },
    "C04": {
        "level": "Lean 4 theorems composing the cursor laws into file contents: chunked reads with any sequence of buffer sizes return the content without loss or reordering, a create session buffers exactly the written bytes, append continues the existing bytes, flush and drop publish exactly the buffer and a reader opened afterwards sees it, metadata reports that length, directories report 0, io::copy is the identity. Tied to the code by the handle stream on memory, physical, altroot and overlay (copy-up) configurations with an independent std::io::Cursor oracle.",
        "design_ref": "DESIGN.md §6 C04",
        "note": "trusted: as C14; byte storage of PhysicalFS is the host file system (assumption, compared by the stream); overlay copy-up is covered by the stream and by the overlay model's correspondence, the adapter-level theorem is in C09",
        "technique": "Lean 4 proof over hand-written model + differential correspondence check",
    },
    "C08": {
        "level": "Lean 4 theorems, compositional and for arbitrary inner layers: if every method of the upper layer's filesystem and the four observer methods of all other layers preserve a world invariant I, then every method of the overlay (and every write handle it returns) preserves I — the overlay calls nothing but exists/metadata/read_dir/open_file on layers other than the first; its own observers preserve whatever the layers' observers preserve (no mutating call at all). Instances proved: every lower leaf keeps its entries (type, bytes, creation/modification time) under all overlay methods for any number of layers, also below an altroot; the recorder log of a lower layer never gains a mutating call. Tied to the code by the record stream (recording wrappers around every layer of the real OverlayFS: results, snapshots, multiset of recorded calls vs model; PROP: no mutating method recorded on a lower layer, none during observers, deep lower-layer snapshots unchanged).",
        "design_ref": "DESIGN.md §6 C08",
        "note": "trusted: Lean kernel + audited axioms; hand-written model of overlay.rs and path.rs tied by the record stream (bounded differential execution); access-time stamping by MemoryFS::open_file inside a lower layer is not a call of the overlay and is ignored (documented reading)",
        "technique": "Lean 4 proof (invariant-preservation calculus) over hand-written model + differential correspondence check",
    },
    "C07": {
        "level": "Lean 4 theorems: AltrootFS::path q = P ++ q for canonical P and q; for every join argument string the resulting path is canonical and mapped below P (also for chains of joins); every altroot method equals, as a state transformer, the VfsPath operation on P ++ q of the underlying filesystem (same outcome, same effect); every call that reaches the underlying filesystem carries a canonical path with P as component-wise prefix — stated for an arbitrary invariant, for the ghost call log of a recording wrapper, and for an altroot inside an altroot; PhysicalFS::get_path appends canonical paths below the host root. Tied to the code by the record stream (recording wrapper between the real AltrootFS and its underlying filesystem: every path argument, snapshots inside/outside P, hostile join arguments) and the tree stream on altroot configurations.",
        "design_ref": "DESIGN.md §6 C07",
        "note": "trusted: Lean kernel + audited axioms; hand-written model of altroot.rs/path.rs tied by the record and tree streams; PathBuf::join modelled; symlinks outside the property; raw trait calls with non-canonical strings are outside the statement (raw_call_escapes shows they do escape)",
        "technique": "Lean 4 proof over hand-written model + differential correspondence check",
    },
    "C20": {
        "level": "Lean 4 theorems (compositional, for arbitrary inner filesystems that themselves report a fired fault as the injected error): every VfsPath operation incl. create_dir_all, remove_dir_all, copy_file, move_file, copy_dir, move_dir, read_to_string and each step of walk_dir, every AltrootFS method and every OverlayFS method (any number of layers, any nesting) returns or yields the injected error whenever the planned fault fires during it — never ok, never a panic, never a kind that a caller swallows; corollary ok => the fault did not fire. The historical OverlayFS::exists is proved unfaithful. With C08: lower layers are unmodified under every fault plan. Tied to the code by the fault stream: a fault-injecting FileSystem wrapper fails the k-th underlying call for every k of every explored operation on 11 configurations; result, fired flag and snapshot vs model, and the property itself (error, or full-effect snapshot; no panic; lower layers unchanged).",
        "design_ref": "DESIGN.md §6 C20",
        "note": "trusted: Lean kernel + audited axioms (3 examples use decide +kernel: kernel evaluation, no axiom); hand-written models of path.rs/altroot.rs/overlay.rs tied by the fault stream; functional correctness of the fallback routes is C01-C11, not C20",
        "technique": "Lean 4 proof (faithfulness calculus) over hand-written model + exhaustive fault-position enumeration against the real code",
    },
    "C03": {
        "level": "Lean 4 theorems on the flat in-memory map (where nothing structural keeps it a tree): the invariant 'root is a directory, every other key has a directory parent' is preserved by every path-layer primitive run through the generic VfsPath layer over the memory leaf — create_dir, write session, append session, remove_file, remove_dir (root aside), open_file, the three time setters, observers — for EVERY path string and with no type restriction, successful or failed; hence by every finite history from the fresh filesystem; every entry of such a map is listed by its parent and reachable from the root through listings. The link 'VPath operation on the memory leaf = pure function on the map' is itself proved (MemRun). PARTIAL: adapters and PhysicalFS are covered by the tree stream's per-step predicate (orphans, reachability by walk_dir) on 13 configurations with wrong-type calls, not by a theorem; create_dir_all by the stream.",
        "design_ref": "DESIGN.md §6 C03",
        "note": "trusted: Lean kernel + audited axioms; model of memory.rs and path.rs tied by the tree stream; the host file system keeps PhysicalFS a tree (assumption). Known finding O3 (overlay remove_file on a lower-only directory) is reported as KNOWN-FINDING from its stored witness.",
        "technique": "Lean 4 proof (invariant by induction over histories) over hand-written model + differential correspondence check",
    },
    "C05": {
        "level": "Lean 4 theorems on the in-memory map: read_dir's prefix scan lists exactly the bare names n such that p/n is a key (so sibling names that are prefixes of each other cannot leak), never a name twice; a path exists iff its parent lists its name exactly once; directory iff listable; file iff readable (the handle holds its bytes); metadata iff exists; absent paths fail every observer with not-found; the overlay's merge of layer listings is duplicate-free and exact. PARTIAL: walk_dir (each descendant once, directories first) and the adapters are decided by the tree stream's predicates on the real code on every step, not by a theorem.",
        "design_ref": "DESIGN.md §6 C05",
        "note": "trusted: as C03. Known finding O3 is reported from its witness.",
        "technique": "Lean 4 proof over hand-written model + differential correspondence check",
    },
    "C12": {
        "level": "Lean 4 theorems for an arbitrary backend record (its own error labels are universally quantified): every error of a single-path VfsPath operation carries exactly the caller's path (never the placeholder), create_dir_all a directory prefix of it, remove_dir_all the path or a descendant, copy_file/move_file/copy_dir/move_dir the source path; create_dir/create_file the path or its parent when the backend's exists does not fail (proved for the leaves, embedded, altroot; shown necessary by a witness). Class rules: trailing-slash join is InvalidPath, unimplemented optional operations NotSupported, missing entries FileNotFound and occupied create_dir FileExists/DirectoryExists on both leaf models. Tied to the code by the tree stream comparing class AND path of every failing call with the model, plus the path-membership predicate on the real errors, on 13 configurations.",
        "design_ref": "DESIGN.md §6 C12",
        "note": "trusted: Lean kernel + audited axioms; models tied by the tree stream; error message texts are not modelled",
        "technique": "Lean 4 proof over hand-written model + differential correspondence check",
    },
    "C18": {
        "level": "Lean 4 theorems for EVERY embedded file list: EmbeddedFS::new's directory map has exactly the directory prefixes as keys and exactly the next path components as children (sound, complete, duplicate-free); every file is visible with its length and bytes, every implied directory is a directory of length 0 that lists and cannot be opened, the root exists and behaves like any other directory, everything else is absent for all observers; all 13 mutators return NotSupported and leave the world unchanged; observers never panic. Tied to the code by the embed stream: exhaustive over a path set derived from a fixture folder, EmbeddedFS vs the model (CORR) and vs PhysicalFS on the same folder (PROP).",
        "design_ref": "DESIGN.md §6 C18",
        "note": "trusted: Lean kernel + audited axioms; rust-embed's iter/get provide the file list (assumption); model of embedded.rs tied by the embed stream",
        "technique": "Lean 4 proof over hand-written model + exhaustive differential check on a fixture",
    },
    "C19": {
        "level": "Lean 4 theorems on the in-memory model: each supported setter makes metadata report exactly the value set and leaves the other two timestamps, the type, the length, the bytes and every other entry unchanged; on an absent path it is not-found and nothing changes; setters of distinct fields commute; flush/append keep creation and access time, create_file resets them; the physical model refuses creation time as NotSupported without change; overlay setters are the setters on write_path, altroot setters on the translated path, embedded NotSupported. Tied to the code by the tree stream with time operations on 9 configurations (metadata immediately before/after every setter; timestamps vs model on memory-backed configurations).",
        "design_ref": "DESIGN.md §6 C19",
        "note": "trusted: Lean kernel + audited axioms; the host stamps physical timestamps (compared by predicate only). Known finding O7 (overlay setters on lower-only entries report not-found) is reported from its witness.",
        "technique": "Lean 4 proof over hand-written model + differential correspondence check",
    },
    "C01": {
        "level": "Lean 4 theorems: the operation contract is stated on the reference model (create_dir, remove_file: success exactly under the documented precondition, exact effect with frame, failure leaves the tree unchanged, not-found for a target missing from an existing directory, file-exists/directory-exists for an occupied create_dir) and carried to the in-memory backend by the agreement theorems of C02 for all five mutating primitives; failed primitives leave the in-memory map unchanged; altroot methods are the operations on P++q (C07). PARTIAL: the contract lemmas for write/append/remove_dir on the reference model itself are implied by their definitions and not restated; overlay-vs-union is C09; composite operations C11. All 13 configurations (memory, physical, altroot, overlays 1-3 layers with pre-populated layers, stackings) are compared on EVERY step with a model-only reference tree holding the abstract content, by the tree stream.",
        "design_ref": "DESIGN.md §6 C01",
        "note": "trusted: Lean kernel + audited axioms; models tied by the tree stream; the physical model (host answers) is an assumption validated against the real host",
        "technique": "Lean 4 proof (refinement to a reference tree) over hand-written model + differential correspondence check",
    },
    "C02": {
        "level": "Lean 4 theorems: the path-layer primitives over MemoryFS (proved equal to what the generic VfsPath code computes on the memory leaf) and over the physical model agree, for every well-formed map, every content-equal physical map and EVERY absolute path string — wrong-type targets, missing parents, paths below files — on success/failure, on not-found/file-exists/directory-exists, and produce content-equal maps; all observers agree; by induction every finite history from the empty filesystem. Tied to the code by the lock-step stream: the same generated sequence on the real MemoryFS and the real PhysicalFS compared directly (outcome per call, snapshot per step), and both against the model.",
        "design_ref": "DESIGN.md §6 C02",
        "note": "trusted: Lean kernel + audited axioms; the physical model is the host's behaviour as tabulated (assumption validated on every run against the host); timestamps and message texts are outside the property",
        "technique": "Lean 4 proof (simulation between two models, induction over histories) + direct differential test of the two real backends",
    },
    "C11": {
        "level": "Lean 4 theorems: all four transfers refuse an existing destination without changing the world (arbitrary filesystems); create_dir_all leaves exactly the requested chain (index lemma for the visited prefixes, exact effect with frame, first file prefix reported without change); remove_dir_all succeeds without change on an absent path and removes exactly the subtree, everything else unchanged (full mutual induction on the in-memory map); copy_file and move_file produce the source bytes at the destination, leave the source untouched / absent, with frame on both leaves, with the SAME conclusion for one instance and for two instances, and the physical fast path yields content-equal maps; copy_dir/move_dir with count for flat directories. PARTIAL: the nested-tree statement of copy_dir/move_dir is stated but not proved (kernel-evaluated examples and the stream cover it). Tied to the code by the xfer stream on every ordered pair of 6 backend/adapter kinds plus same-instance, with implementation-only predicates (copy equals source, source untouched/gone, count, refusals side-effect free, exact chain, exact subtree, pair-independent outcomes).",
        "design_ref": "DESIGN.md §6 C11",
        "note": "trusted: Lean kernel + audited axioms (examples use decide +kernel: kernel evaluation, no axiom); models tied by the xfer and tree streams; std::fs::copy/rename as tabulated",
        "technique": "Lean 4 proof over hand-written model + differential correspondence check over all ordered instance pairs",
    },
    "C13": {
        "level": "Lean 4 theorems over a model in which every Rust panic site (slice/index out of range, integer overflow, unwrap on a failing value, missing leaf) is an explicit outcome: no call of the sync API reaches it — path algebra on all strings, read/seek/write handles at any offset and in any world (also after the file was removed), every leaf function on every map, every VfsPath operation, AltrootFS, OverlayFS with any layers, EmbeddedFS (root included), any stacking, and any finite script of public operations on arbitrary join strings; a panic outcome of the recursive operations can only be the model's fuel sentinel. PARTIAL: termination on finite trees is not proved; the async port and hostile on-disk content have no Lean model and are decided by the async and hostile streams (catch_unwind around every call, three executors, injected Pending, non-UTF-8 names, dangling symlinks). Tied to the code by five streams on the unrestricted domain.",
        "design_ref": "DESIGN.md §6 C13",
        "note": "trusted: Lean kernel + audited axioms; the placement of panic sites in the model (read from the source, kept in step by the correspondence streams); the dev profile's overflow checks; OverlayFS::new(&[]) is the documented panic",
        "technique": "Lean 4 proof (panic-freedom calculus) over hand-written model + catch_unwind exploration on the unrestricted domain",
    },
    "C15": {
        "level": "Lean 4 theorems: stuttering simulation between the async walk_dir stream (poll_next with its five fields and a pending oracle at every inner poll) and the sync iterator, for every tree, state and poll schedule: Pending polls are unobservable, Ready polls yield the sync iterator's next item, delivered items are always a prefix of the sync sequence and equal it once all futures complete, whatever the schedule; no item is lost when metadata is pending; the async in-memory read handle equals the sync read handle call by call. PARTIAL: the async filesystems themselves (memory, physical, altroot, overlay ports) are decided by the async stream — the same script on the sync and async twins of 9 configurations under three executors with injected Pending at every await point, comparing outcomes, snapshots, walk items and read-handle results.",
        "design_ref": "DESIGN.md §6 C15",
        "note": "trusted: Lean kernel + audited axioms (decide +kernel in examples); the model of poll_next (read from src/async_vfs/path.rs, re-checked against the source by an independent pass); executors and async-std types; the async ports have no Lean model",
        "technique": "Lean 4 proof (stuttering simulation, schedule independence) + differential test sync vs async under injected Pending",
    },
    "C16": {
        "level": "Lean 4 theorems over an interleaving model of MemoryFS (threads x programs x lock regions as atomic steps; any number of threads, any programs of trait calls, any schedule, complete or not): the tree is well-formed after every step; every concurrent run equals — same map, same handle slots, same exact results — the sequential run of the same calls in the order of their last lock regions, which respects each thread's program order (linearizability by simulation); a scheduled thread with work left always progresses; no region can panic. The historical two-lock create_dir is refuted by a kernel-checked schedule. Tied to the code by the sched stream: the real MemoryFS under a cooperative scheduler (verif-hooks yield points before every lock acquisition), all schedules of curated and generated 2-3 thread programs enumerated by re-execution, each outcome compared with the sequential outcomes of the real code, and sampled schedules replayed on the Lean model. Whole write/append sessions taken as one call are NOT atomic: known findings S1, S2 (negative theorems).",
        "design_ref": "DESIGN.md §6 C16",
        "note": "trusted: Lean kernel + audited axioms (decide +kernel in the negative witnesses); placement of the yield points (one before each lock acquisition, MANIFEST.hooks); std RwLock; the model's regions (read from memory.rs, compared by the stream: region label sequences are part of the correspondence)",
        "technique": "Lean 4 proof (simulation of an interleaving model by a sequential machine) + exhaustive schedule enumeration of the real code under a cooperative scheduler with a sequential-outcome oracle",
    },
    "C17": {
        "level": "Lean 4 theorem: for any number of threads calling create_dir_all on arbitrary paths of one MemoryFS (no files in the way, no removals), under every schedule at lock granularity no call fails, the map only grows by directories, and when all have finished every requested path and each prefix is a directory; also for sequences of such calls per thread. PARTIAL for the other backends: AltrootFS and OverlayFS over MemoryFS are decided by exhaustive schedule enumeration of the real code (sched stream), PhysicalFS by randomised stress with free-running threads; the parametric lemma createDir_regions_monotone covers any backend whose create_dir answers Ok or DirectoryExists on a growing directory set.",
        "design_ref": "DESIGN.md §6 C17",
        "note": "trusted: as C16; host mkdir atomicity for PhysicalFS",
        "technique": "Lean 4 proof (invariant over all schedules of an interleaving model) + exhaustive schedule enumeration under a cooperative scheduler; randomised stress for PhysicalFS",
    },
    "C09": {
        "level": "Lean 4 theorems for an overlay of two memory layers and every canonical path: the overlay's exists, metadata and open_file compute exactly the first-layer-wins union view (markers subtracted); read_dir lists exactly the children of the view, duplicate-free, never '.whiteout'; the three named consequences — creating over a lower-only entry fails as already-existing with the view of EVERY path unchanged, removing a directory with lower-layer children fails as non-empty without side effect, appending continues the lower layer's bytes (copy-up) with the lower layer untouched. PARTIAL: the full operation-contract refinement relative to the union (all of C01's operations, n layers, physical and nested layers) is decided by the tree stream, which compares every step of every overlay configuration with a reference tree initialised with the union of the generated layers.",
        "design_ref": "DESIGN.md §6 C09",
        "note": "trusted: Lean kernel + audited axioms; model of overlay.rs tied by the tree and record streams; hypotheses exclude the reserved names and type-conflicting layers",
        "technique": "Lean 4 proof (abstraction to the union view) over hand-written model + differential check against a union reference tree",
    },
    "C10": {
        "level": "Lean 4 theorems (two memory layers): a successful remove_file/remove_dir through the overlay makes the path absent for every observer and leaves the lower layer untouched; the absence persists across any later change as long as the marker exists (frame lemma), and every other overlay operation on another path keeps the marker (create_dir, create_file, write session, remove_file, remove_dir, open_file; append stated only); a re-created file holds exactly the new bytes, a re-created directory whose former children were removed is empty; the bookkeeping directory is never listed. The open known finding O3 is proved as a negative fact about the model. Tied to the code by the tree stream on 2-4 layer overlays (union reference tree per step, no '.whiteout'/'_wo' in any observation).",
        "design_ref": "DESIGN.md §6 C10",
        "note": "trusted: as C09; two statements are only stated (marker survival under append_file of another path; the composed remove/re-create of a directory from an arbitrary state)",
        "technique": "Lean 4 proof (frame lemmas over the whiteout encoding) over hand-written model + differential check",
    },
}
