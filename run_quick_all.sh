#!/bin/bash
# runs every property's quick check on the current tree and prints one line per property
cd /verif
for i in $(seq -w 1 20); do
  p=C$i
  s=$(date +%s)
  out=$(./check $p --tier quick 2>&1)
  rc=$?
  e=$(date +%s)
  echo "$p rc=$rc $((e-s))s $(echo "$out" | grep -E '^(VIOLATION|OK)' | head -3 | tr '\n' ' ')"
done
echo ALL-DONE
