#!/usr/bin/env python3
"""Regenerates MANIFEST.json from checkcfg.PROPS and manifest_texts (kept valid at all times)."""
import json, os, sys
sys.path.insert(0, os.path.dirname(os.path.abspath(__file__)))
from checkcfg import PROPS
from manifest_texts import TEXTS, NOT_APPLICABLE, HOOKS

checks = []
for pid in sorted(PROPS):
    t = TEXTS[pid]
    checks.append({
        "property_id": pid,
        "quick_cmd": "./check %s --tier quick" % pid,
        "thorough_cmd": "./check %s --tier thorough" % pid,
        "evidence_file": "/verif/evidence/%s.json" % pid,
        "replay_cmd_template": "./check %s --replay {path}" % pid,
        "engine": "lean-model+correspondence",
        "level_claimed": {"category": "proof", "text": t["level"], "design_ref": t["design_ref"]},
        "level_note": t["note"],
        "technique": t["technique"],
    })
m = {
    "version": 1,
    "setup_cmd": "./setup.sh",
    "hooks": HOOKS,
    "engines": [{
        "name": "lean-model+correspondence",
        "path": "/verif/lean (Lean 4 model and theorems), /verif/harness (Rust correspondence harness), /verif/check",
        "serves_properties": sorted(PROPS),
        "kind_free_text": "machine-checked proof in Lean 4 over a hand-written executable model; the model is tied to /repo on every run by differential execution of model (compiled lean_exe driver) and implementation on generated and exhaustively enumerated inputs",
    }],
    "checks": checks,
    "not_applicable": [{"property_id": p, "reason": r} for p, r in sorted(NOT_APPLICABLE.items()) if p not in PROPS],
    "notes": "Every check: lake build of the property's theorem module + axiom audit, cargo build of the harness against /repo's working tree, correspondence (CORR) and property (PROP) oracles, decision per DESIGN.md §5. Known genuine defects are listed in known_findings.json.",
}
json.dump(m, open(os.path.join(os.path.dirname(os.path.abspath(__file__)), "MANIFEST.json"), "w"), indent=1)
print("MANIFEST.json: %d checks, %d not_applicable" % (len(checks), len(m["not_applicable"])))
